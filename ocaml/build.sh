#!/bin/sh
# Extract the model to OCaml and build the driver.  cwd: /verif/ocaml
set -e
cd "$(dirname "$0")"
mkdir -p gen
cd gen
rm -f *.ml *.mli *.cm* *.o
timeout 300 coqc -Q ../../coq Verif -o ./Extract.vo ../../coq/Extract/Extract.v
cp ../main.ml main.ml
ORDER=$(ocamlfind ocamldep -sort *.mli *.ml)
timeout 300 ocamlfind ocamlopt -w -a -O2 -unboxed-types 2>/dev/null $ORDER -o ../driver || timeout 300 ocamlfind ocamlopt -w -a $ORDER -o ../driver
