(* Driver for the extracted model: one S-expression per input line, one result line per input.
   Atoms are double-quoted with backslash escapes; lists are parenthesised. *)
let explode (s : string) : char list =
  let rec go i acc = if i < 0 then acc else go (i - 1) ((Stdlib.String.get s (i)) :: acc) in
  go (Stdlib.String.length s - 1) []

let implode (l : char list) : string =
  let b = Buffer.create 64 in
  Stdlib.List.iter (Buffer.add_char b) l;
  Buffer.contents b

exception Bad of string

let parse_sexp (s : string) : Base.sexp =
  let n = Stdlib.String.length s in
  let pos = ref 0 in
  let rec skip () = if !pos < n && ((Stdlib.String.get s (!pos)) = ' ') then (incr pos; skip ()) in
  let rec item () : Base.sexp =
    skip ();
    if !pos >= n then raise (Bad "eof")
    else if (Stdlib.String.get s (!pos)) = '(' then begin
      incr pos;
      let rec items acc =
        skip ();
        if !pos >= n then raise (Bad "unclosed")
        else if (Stdlib.String.get s (!pos)) = ')' then (incr pos; Stdlib.List.rev acc)
        else let x = item () in items (x :: acc) in
      Base.SList (items [])
    end else if (Stdlib.String.get s (!pos)) = '"' then begin
      incr pos;
      let b = Buffer.create 16 in
      let rec go () =
        if !pos >= n then raise (Bad "unterminated atom")
        else match (Stdlib.String.get s (!pos)) with
          | '"' -> incr pos
          | '\\' ->
              if !pos + 1 >= n then raise (Bad "escape");
              (match (Stdlib.String.get s (!pos + 1)) with
               | 'n' -> Buffer.add_char b '\n'
               | 't' -> Buffer.add_char b '\t'
               | 'r' -> Buffer.add_char b '\r'
               | c -> Buffer.add_char b c);
              pos := !pos + 2; go ()
          | c -> Buffer.add_char b c; incr pos; go () in
      go ();
      Base.SAtom (explode (Buffer.contents b))
    end else raise (Bad "unexpected char")
  in
  item ()

let () =
  try
    while true do
      let line = input_line stdin in
      (try
         let x = parse_sexp line in
         print_string (implode (Driver.run x))
       with
       | Bad m -> print_string ("(\"driver-error\" \"" ^ m ^ "\")")
       | Stack_overflow -> print_string "(\"driver-error\" \"stack-overflow\")");
      print_newline ()
    done
  with End_of_file -> ()
