(* Driver for the extracted model: one S-expression per input line, one result line per input.
   Atoms are double-quoted with backslash escapes; lists are parenthesised. *)
let explode (s : string) : char list =
  let rec go i acc = if i < 0 then acc else go (i - 1) ((Stdlib.String.get s (i)) :: acc) in
  go (Stdlib.String.length s - 1) []

let implode (l : char list) : string =
  let b = Buffer.create 64 in
  Stdlib.List.iter (Buffer.add_char b) l;
  Buffer.contents b

exception Bad of string

let parse_sexp (s : string) : Base.sexp =
  let n = Stdlib.String.length s in
  let pos = ref 0 in
  let rec skip () = if !pos < n && ((Stdlib.String.get s (!pos)) = ' ') then (incr pos; skip ()) in
  let rec item () : Base.sexp =
    skip ();
    if !pos >= n then raise (Bad "eof")
    else if (Stdlib.String.get s (!pos)) = '(' then begin
      incr pos;
      let rec items acc =
        skip ();
        if !pos >= n then raise (Bad "unclosed")
        else if (Stdlib.String.get s (!pos)) = ')' then (incr pos; Stdlib.List.rev acc)
        else let x = item () in items (x :: acc) in
      Base.SList (items [])
    end else if (Stdlib.String.get s (!pos)) = '"' then begin
      incr pos;
      let b = Buffer.create 16 in
      let rec go () =
        if !pos >= n then raise (Bad "unterminated atom")
        else match (Stdlib.String.get s (!pos)) with
          | '"' -> incr pos
          | '\\' ->
              if !pos + 1 >= n then raise (Bad "escape");
              (match (Stdlib.String.get s (!pos + 1)) with
               | 'n' -> Buffer.add_char b '\n'
               | 't' -> Buffer.add_char b '\t'
               | 'r' -> Buffer.add_char b '\r'
               | c -> Buffer.add_char b c);
              pos := !pos + 2; go ()
          | c -> Buffer.add_char b c; incr pos; go () in
      go ();
      Base.SAtom (explode (Buffer.contents b))
    end else raise (Bad "unexpected char")
  in
  item ()

(* numpy's sqrt for the model: exact rational -> float -> sqrt -> exact rational *)
let rec pos_to_float (p : BinNums.positive) : float =
  match p with
  | BinNums.Coq_xH -> 1.0
  | BinNums.Coq_xO q -> 2.0 *. pos_to_float q
  | BinNums.Coq_xI q -> 2.0 *. pos_to_float q +. 1.0

let z_to_float (z : BinNums.coq_Z) : float =
  match z with
  | BinNums.Z0 -> 0.0
  | BinNums.Zpos p -> pos_to_float p
  | BinNums.Zneg p -> -. pos_to_float p

let rec pos_of_int64 (n : int64) : BinNums.positive =
  if Int64.equal n 1L then BinNums.Coq_xH
  else
    let h = pos_of_int64 (Int64.shift_right_logical n 1) in
    if Int64.equal (Int64.logand n 1L) 1L then BinNums.Coq_xI h else BinNums.Coq_xO h

let rec pow2 (k : int) : BinNums.positive = if k <= 0 then BinNums.Coq_xH else BinNums.Coq_xO (pow2 (k - 1))

let rec shift_pos (p : BinNums.positive) (k : int) : BinNums.positive =
  if k <= 0 then p else shift_pos (BinNums.Coq_xO p) (k - 1)

let q_of_float (x : float) : QArith_base.coq_Q =
  if x = 0.0 || Float.is_nan x || Float.is_integer x = false && Float.abs x = Float.infinity then
    { QArith_base.coq_Qnum = BinNums.Z0; QArith_base.coq_Qden = BinNums.Coq_xH }
  else begin
    let (m, e) = Float.frexp (Float.abs x) in
    let mant = Int64.of_float (Float.ldexp m 53) in
    let e' = e - 53 in
    let p = pos_of_int64 mant in
    let (num, den) = if e' >= 0 then (shift_pos p e', BinNums.Coq_xH) else (p, pow2 (- e')) in
    { QArith_base.coq_Qnum = (if x < 0.0 then BinNums.Zneg num else BinNums.Zpos num);
      QArith_base.coq_Qden = den }
  end

let ksqrt (q : Qcanon.coq_Qc) : Qcanon.coq_Qc =
  let qq : QArith_base.coq_Q = Obj.magic q in
  let f = z_to_float qq.QArith_base.coq_Qnum /. pos_to_float qq.QArith_base.coq_Qden in
  Qcanon.coq_Q2Qc (q_of_float (Float.sqrt f))

let () =
  try
    while true do
      let line = input_line stdin in
      (try
         let x = parse_sexp line in
         print_string (implode (Driver.run ksqrt x))
       with
       | Bad m -> print_string ("(\"driver-error\" \"" ^ m ^ "\")")
       | Stack_overflow -> print_string "(\"driver-error\" \"stack-overflow\")");
      print_newline ()
    done
  with End_of_file -> ()
