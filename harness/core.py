"""Shared machinery of the checks: build (translator, Coq, extraction, driver), running the extracted
model and the implementation side by side, S-expressions, evidence, replay files, known findings."""
import concurrent.futures
import fcntl
import hashlib
import json
import os
import re
import subprocess
import sys
import tempfile
import time

VERIF = os.path.dirname(os.path.dirname(os.path.abspath(__file__)))
REPO = os.environ.get("VERIF_REPO", "/repo")
PY = "/venv/bin/python"
COQ = os.path.join(VERIF, "coq")
DRIVER = os.path.join(VERIF, "ocaml", "driver")
NPROC = int(os.environ.get("VERIF_JOBS", "16"))

TRUSTED_BASE = [
    "Coq 8.16.1 kernel (coqc); vm_compute only inside Examples/_refuted witnesses; no native_compute",
    "harness/translate.py (Python ast, fail closed) for the tables tied in coq/Generated/Tie.v",
    'extraction: only the standard files ExtrOcamlBasic and ExtrOcamlString (which requires ExtrOcamlChar) are imported; the development adds no Extract directive of its own. Directives they contain: Extract Inductive bool, option, unit, list, prod, sumbool, sumor (ExtrOcamlBasic), ascii => char, byte => char (ExtrOcamlChar), string => char list (ExtrOcamlString); Extract Inlined Constant andb => (&&), orb => (||) (ExtrOcamlBasic), ascii_dec, Ascii.eqb, Byte.eqb, Byte.byte_eq_dec => (=), Ascii.ascii_of_byte, Ascii.byte_of_ascii => identity, Extract Constant Ascii.zero, Ascii.one, Ascii.shift, Ascii.compare (ExtrOcamlChar). nat, positive, Z, Q, Qc stay extracted inductive datatypes. OCaml 4.13.1, ocaml/main.ml (S-expression reader/printer, float sqrt glue)',
    "correspondence harness (generators, observation functions, comparators) in /verif/harness",
    "modelled, not verified: CPython dispatch semantics, pandas, numpy, scipy",
]


# --------------------------------------------------------------------------- S-expressions
def sshow(x):
    if isinstance(x, str):
        return '"' + (x.replace("\\", "\\\\").replace('"', '\\"').replace("\n", "\\n")
                      .replace("\t", "\\t").replace("\r", "\\r")) + '"'
    return "(" + " ".join(sshow(i) for i in x) + ")"


def sparse(s):
    pos = 0
    n = len(s)

    def item():
        nonlocal pos
        while pos < n and s[pos] == " ":
            pos += 1
        if s[pos] == "(":
            pos += 1
            out = []
            while True:
                while pos < n and s[pos] == " ":
                    pos += 1
                if s[pos] == ")":
                    pos += 1
                    return out
                out.append(item())
        if s[pos] == '"':
            pos += 1
            buf = []
            while s[pos] != '"':
                if s[pos] == "\\":
                    c = s[pos + 1]
                    buf.append({"n": "\n", "t": "\t", "r": "\r"}.get(c, c))
                    pos += 2
                else:
                    buf.append(s[pos])
                    pos += 1
            pos += 1
            return "".join(buf)
        raise ValueError(f"bad sexp at {pos}: {s[:80]!r}")

    return item()


# --------------------------------------------------------------------------- build
class Build:
    def __init__(self):
        self.ok = True
        self.broken = []  # names of obligations / stages that no longer check
        self.log = ""
        self.assumptions = ""
        self.obligations = 0
        self.discharged = 0
        self.checker_cmd = ""
        self.driver_ok = True


def _run(cmd, cwd=None, timeout=1800, env=None):
    try:
        p = subprocess.run(cmd, cwd=cwd, shell=isinstance(cmd, str), stdout=subprocess.PIPE,
                           stderr=subprocess.STDOUT, timeout=timeout, env=env, text=True)
        return p.returncode, p.stdout
    except subprocess.TimeoutExpired as e:
        return 124, (e.stdout or "") + "\nTIMEOUT"


def _hash_files(paths):
    h = hashlib.sha1()
    for p in sorted(paths):
        h.update(p.encode())
        with open(p, "rb") as fh:
            h.update(fh.read())
    return h.hexdigest()


def count_obligations(vfile):
    with open(vfile) as fh:
        txt = fh.read()
    return len(re.findall(r"^\s*(Theorem|Lemma|Example|Corollary)\s", txt, re.M))


def theorem_names(prop_files):
    """names of the statements in the property files (what the evidence lists as proved)"""
    names = []
    for f in prop_files:
        try:
            with open(os.path.join(COQ, f)) as fh:
                names += re.findall(r"^\s*(?:Theorem|Lemma|Example|Corollary)\s+([A-Za-z0-9_']+)", fh.read(), re.M)
        except OSError:
            pass
    return names


def build(prop_files, thorough=False):
    """Regenerate Generated.v from REPO, build the Coq development (full .vo), re-check the property
    files capturing Print Assumptions, extract and build the driver.  prop_files: list of paths
    relative to coq/ (e.g. Properties/C01.v)."""
    b = Build()
    lock = open(os.path.join(VERIF, ".build.lock"), "w")
    fcntl.flock(lock, fcntl.LOCK_EX)
    try:
        rc, out = _run([PY, os.path.join(VERIF, "harness", "translate.py"), REPO,
                        os.path.join(COQ, "Generated", "Generated.v")])
        b.log += out
        if rc != 0:
            b.ok = False
            b.broken.append("translator (harness/translate.py): " + out.strip().splitlines()[-1])
        if not os.path.exists(os.path.join(COQ, "Makefile")):
            _run("coq_makefile -f _CoqProject -o Makefile", cwd=COQ)
        # model files first: the driver only needs them, so it can be built even if a proof breaks
        with open(os.path.join(COQ, "_CoqProject")) as fh:
            vfiles = [l.strip() for l in fh if l.strip().endswith(".v")]
        model_vos = [f + "o" for f in vfiles if f.startswith("Model/")]
        rc, out = _run(["make", f"-j{NPROC}"] + model_vos, cwd=COQ, timeout=1800)
        if rc != 0:
            b.ok = False
            b.driver_ok = False
            b.log += out
            b.broken.append("model files do not compile")
            return b
        # driver
        srcs = [os.path.join(COQ, f) for f in vfiles if f.startswith("Model/")]
        srcs += [os.path.join(COQ, "Extract", "Extract.v"), os.path.join(VERIF, "ocaml", "main.ml")]
        stamp = os.path.join(VERIF, "ocaml", ".stamp")
        want = _hash_files(srcs)
        have = open(stamp).read() if os.path.exists(stamp) else ""
        if want != have or not os.path.exists(DRIVER):
            rc, out = _run(["sh", os.path.join(VERIF, "ocaml", "build.sh")], timeout=900)
            if rc != 0:
                b.ok = False
                b.driver_ok = False
                b.log += out
                b.broken.append("extraction / OCaml driver build")
                return b
            with open(stamp, "w") as fh:
                fh.write(want)
        # everything else the property files need
        targets = ["Generated/Tie.vo"] + [f + "o" for f in prop_files]
        b.checker_cmd = f"make -C coq -j{NPROC} " + " ".join(targets) + "  (coqc 8.16.1, full .vo)"
        rc, out = _run(["make", f"-j{NPROC}", "-k"] + targets, cwd=COQ, timeout=3000)
        b.log += out
        for f in ["Generated/Tie.v"] + list(prop_files):
            n = count_obligations(os.path.join(COQ, f))
            b.obligations += n
            if os.path.exists(os.path.join(COQ, f + "o")) and rc == 0:
                b.discharged += n
        if rc != 0:
            b.ok = False
            errs = re.findall(r'File "\./([^"]+)", line (\d+)', out)
            for f, line in errs[:5]:
                b.broken.append(f"coq/{f}:{line} no longer checks")
            if not errs:
                b.broken.append("coq build failed")
        else:
            # Print Assumptions: recompile the (tiny) property files and capture their output
            for f in prop_files:
                with tempfile.TemporaryDirectory(prefix="verif-pa-") as td:
                    rc2, out2 = _run(["coqc", "-Q", ".", "Verif", "-o",
                                      os.path.join(td, os.path.basename(f) + "o"), f], cwd=COQ, timeout=900)
                b.assumptions += out2
                if rc2 != 0:
                    b.ok = False
                    b.broken.append(f"coq/{f} no longer checks")
            rc3, out3 = _run(r"grep -rnE 'Admitted|admit\.|^\s*Axiom|^\s*Parameter|^\s*Conjecture|Unset Guard|"
                             r"bypass_check|Admit Obligations' --include=*.v .", cwd=COQ)
            if out3.strip():
                b.ok = False
                b.broken.append("forbidden vernacular found: " + out3.strip().splitlines()[0])
            if thorough:
                vos = [f[:-2].replace("/", ".") for f in prop_files]
                rc4, out4 = _run(["coqchk", "-silent", "-o", "-Q", ".", "Verif"] + ["Verif." + v for v in vos],
                                 cwd=COQ, timeout=3000)
                b.assumptions += "\n--- coqchk -o ---\n" + "\n".join(out4.strip().splitlines()[-25:])
                if rc4 != 0:
                    b.ok = False
                    b.broken.append("coqchk failed")
        return b
    finally:
        fcntl.flock(lock, fcntl.LOCK_UN)
        lock.close()


# --------------------------------------------------------------------------- running both sides
def _chunks(lst, n):
    k = max(1, (len(lst) + n - 1) // n)
    return [lst[i:i + k] for i in range(0, len(lst), k)]


def run_model(cmds, jobs=NPROC):
    """cmds: list of S-expression strings (one line each) -> list of output lines"""
    if not cmds:
        return []
    shards = _chunks(cmds, jobs)

    def one(shard):
        p = subprocess.run(["sh", "-c", f"ulimit -s unlimited 2>/dev/null; exec {DRIVER}"],
                           input="\n".join(shard) + "\n", stdout=subprocess.PIPE,
                           stderr=subprocess.PIPE, text=True, timeout=3000)
        lines = p.stdout.split("\n")
        if lines and lines[-1] == "":
            lines.pop()
        if len(lines) != len(shard):
            lines += ['("driver-error" "crash")'] * (len(shard) - len(lines))
        return lines

    with concurrent.futures.ThreadPoolExecutor(len(shards)) as ex:
        outs = list(ex.map(one, shards))
    return [l for o in outs for l in o]


def run_impl(prop, cases, jobs=NPROC, what="obs", scale=1.0, retry=True):
    """Runs props.<prop>.impl_obs / oracle on every case in worker processes that import formulae
    from REPO.  Returns a list of {"obs":..., "oracle":...} dicts (same order)."""
    if not cases:
        return []
    shards = _chunks(cases, jobs)
    env = dict(os.environ)
    env.update({"PYTHONPATH": REPO + os.pathsep + os.path.join(VERIF, "harness"),
                "PYTHONHASHSEED": "0", "FORMULAE_VERIF": "1", "PYTHONWARNINGS": "default",
                "OMP_NUM_THREADS": "1", "OPENBLAS_NUM_THREADS": "1", "MKL_NUM_THREADS": "1"})

    def one(shard):
        p = subprocess.run([PY, os.path.join(VERIF, "harness", "impl_worker.py"), prop, what, str(scale)],
                           input="\n".join(json.dumps(c) for c in shard) + "\n",
                           stdout=subprocess.PIPE, stderr=subprocess.PIPE, text=True, env=env,
                           timeout=6000)
        lines = [l for l in p.stdout.split("\n") if l.startswith("@@")]
        outs = [json.loads(l[2:]) for l in lines]
        if len(outs) != len(shard):
            outs += [{"obs": ["worker-crash", p.stderr[-300:]], "oracle": None}] * (len(shard) - len(outs))
        return outs

    with concurrent.futures.ThreadPoolExecutor(len(shards)) as ex:
        outs = list(ex.map(one, shards))
    res = [l for o in outs for l in o]
    # a per-case timeout on a loaded machine is not evidence of non-termination: run those cases
    # again, alone, with eight times the limit
    if retry:
        slow = [i for i, r in enumerate(res) if r.get("obs") == ["timeout"] or
                (isinstance(r.get("obs"), list) and r["obs"][:1] == ["worker-crash"])]
        if slow and len(slow) <= 200:
            again = run_impl(prop, [cases[i] for i in slow], jobs=min(jobs, 4), what=what, scale=8.0, retry=False)
            for i, r in zip(slow, again):
                res[i] = r
            # still too slow: a last attempt, two at a time, with sixty times the limit -- a case that does not
            # terminate is still reported (later), a case that is merely slow on a busy machine is not
            slow = [i for i in slow if res[i].get("obs") == ["timeout"]]
            if slow and len(slow) <= 6:
                again = run_impl(prop, [cases[i] for i in slow], jobs=2, what=what, scale=60.0, retry=False)
                for i, r in zip(slow, again):
                    res[i] = r
    return res


# --------------------------------------------------------------------------- known findings
def known_findings(prop):
    path = os.path.join(VERIF, "KNOWN_FINDINGS.json")
    if not os.path.exists(path):
        return []
    with open(path) as fh:
        data = json.load(fh)
    return [f for f in data.get("findings", []) if f.get("property") == prop]


# --------------------------------------------------------------------------- reporting
def write_replay(prop, payload):
    d = os.path.join(VERIF, "replays", prop)
    os.makedirs(d, exist_ok=True)
    blob = json.dumps(payload, sort_keys=True, default=str)
    name = hashlib.sha1(blob.encode()).hexdigest()[:16] + ".json"
    path = os.path.join(d, name)
    payload = dict(payload)
    payload["replay_cmd"] = f"./check --replay replays/{prop}/{name}"
    with open(path, "w") as fh:
        json.dump(payload, fh, indent=1, default=str)
    return os.path.relpath(path, VERIF)


def write_evidence(prop, tier, seed, build_res, coverage, assumptions, wall, violations):
    cov = dict(coverage)
    cov.setdefault("obligations", max(1, build_res.obligations))
    cov.setdefault("discharged", build_res.discharged)
    cov.setdefault("checker_cmd", build_res.checker_cmd or "make -C coq")
    cov.setdefault("trusted_base", TRUSTED_BASE)
    cov["print_assumptions"] = build_res.assumptions.strip().splitlines()[-60:]
    cov["broken"] = build_res.broken
    ev = {"property_id": prop, "tier": tier, "seed": seed, "level": "proof", "coverage": cov,
          "assumptions": assumptions, "wall_s": round(wall, 2), "violations": violations}
    # runs against another tree (VERIF_REPO: seeded changes) must not overwrite the evidence of /repo
    evdir = os.environ.get("VERIF_EVIDENCE_DIR") or os.path.join(
        VERIF, "evidence" if os.path.realpath(REPO) == "/repo" else "evidence_other_tree")
    os.makedirs(evdir, exist_ok=True)
    with open(os.path.join(evdir, f"{prop}.json"), "w") as fh:
        json.dump(ev, fh, indent=1, default=str)

# --------------------------------------------------------------------------- source fingerprints
def function_fingerprints(repo):
    """{'formulae/x.py::Class.method': sha1 of the AST without docstrings}"""
    import ast
    import hashlib
    out = {}

    def strip(node):
        for n in ast.walk(node):
            b = getattr(n, "body", None)
            if isinstance(b, list) and b and isinstance(b[0], ast.Expr) and isinstance(getattr(b[0], "value", None), ast.Constant) \
                    and isinstance(b[0].value.value, str):
                n.body = b[1:] or [ast.Pass()]
        return node

    def visit(node, prefix, rel):
        for n in node.body:
            if isinstance(n, (ast.FunctionDef, ast.AsyncFunctionDef)):
                out[f"{rel}::{prefix}{n.name}"] = hashlib.sha1(ast.dump(strip(n)).encode()).hexdigest()
            elif isinstance(n, ast.ClassDef):
                visit(n, prefix + n.name + ".", rel)
        rest = [n for n in node.body if not isinstance(n, (ast.FunctionDef, ast.AsyncFunctionDef, ast.ClassDef))]
        if rest:
            m = ast.Module(body=rest, type_ignores=[])
            out[f"{rel}::{prefix}<body>"] = hashlib.sha1(ast.dump(strip(m)).encode()).hexdigest()

    base = os.path.join(repo, "formulae")
    for root, _, files in os.walk(base):
        for f in sorted(files):
            if f.endswith(".py"):
                path = os.path.join(root, f)
                rel = os.path.relpath(path, repo)
                try:
                    visit(ast.parse(open(path).read()), "", rel)
                except SyntaxError:
                    out[f"{rel}::<syntax-error>"] = "x"
    return out


def changed_functions():
    """functions of REPO whose AST differs from fingerprints.json (added, removed or edited)"""
    try:
        ref = json.load(open(os.path.join(VERIF, "fingerprints.json")))["functions"]
    except Exception:
        return []
    cur = function_fingerprints(REPO)
    return sorted(k for k in set(ref) | set(cur) if ref.get(k) != cur.get(k))


def anchored_files(prop):
    for line in open(os.path.join(VERIF, "properties.jsonl")):
        d = json.loads(line)
        if d["id"] == prop:
            return list(d.get("anchors", {}).get("files", []))
    return []


def touches(prop, changed):
    """does a changed function lie in a file the property is anchored in (or in a file no property anchors)?"""
    if not changed:
        return False
    mine = set(anchored_files(prop))
    every = set()
    for line in open(os.path.join(VERIF, "properties.jsonl")):
        every |= set(json.loads(line).get("anchors", {}).get("files", []))
    for k in changed:
        f = k.split("::")[0]
        if f in mine or f not in every:
            return True
    return False
