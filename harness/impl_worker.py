"""Worker: runs the implementation (formulae imported from PYTHONPATH=/repo) on JSON cases read from
stdin, one per line; prints '@@' + JSON per case.  argv: <property id> <obs|oracle|both>."""
import importlib
import json
import logging
import signal
import sys
import warnings


class CaseTimeout(BaseException):
    pass


def _alarm(signum, frame):
    raise CaseTimeout()


def main():
    prop, what = sys.argv[1], sys.argv[2]
    logging.disable(logging.CRITICAL)
    mod = importlib.import_module("props." + prop)
    # warm up: importing formulae (pandas, scipy) can take many seconds on a cold machine and must
    # not be charged to the first case
    try:
        import formulae  # noqa: F401
        import formulae.matrices  # noqa: F401
    except Exception:
        pass
    scale = float(sys.argv[3]) if len(sys.argv) > 3 else 1.0
    signal.signal(signal.SIGALRM, _alarm)
    real_stdout = sys.stdout
    for line in sys.stdin:
        line = line.strip()
        if not line:
            continue
        case = json.loads(line)
        out = {"obs": None, "oracle": None}
        sys.stdout = sys.stderr  # the implementation prints on some error paths
        try:
            signal.alarm(min(int(getattr(mod, "CASE_TIMEOUT", 20) * scale), 1500))
            with warnings.catch_warnings():
                warnings.simplefilter("ignore")
                if what in ("obs", "both"):
                    out["obs"] = mod.impl_obs(case)
                if what in ("oracle", "both") and hasattr(mod, "oracle"):
                    try:
                        out["oracle"] = mod.oracle(case)
                    except CaseTimeout:
                        raise
                    except RecursionError:
                        out["oracle"] = None
                    except Exception as e:  # a bug in the oracle must be visible, not an alarm on the code
                        out["oracle_error"] = f"{type(e).__name__}: {e}"
            signal.alarm(0)
        except CaseTimeout:
            out["obs"] = ["timeout"]
            out["oracle"] = "timeout (possible non-termination)"
        except RecursionError:
            signal.alarm(0)
            out["obs"] = ["err", "RecursionError"]
        except Exception as e:  # a harness bug, not an implementation error
            signal.alarm(0)
            out["obs"] = ["harness-exception", f"{type(e).__name__}: {e}"]
        finally:
            sys.stdout = real_stdout
        real_stdout.write("@@" + json.dumps(out, default=str) + "\n")
        real_stdout.flush()


if __name__ == "__main__":
    main()
