"""Generators of data frames and formulas for the design-matrix properties."""
import itertools

import dm

LEVELS = {
    "f": ["a", "b", "c", "d"],
    "g": ["p", "q", "r", "s", "t"],
    "h": ["u", "v", "w"],
    "o": ["lo", "mid", "hi", "top"],      # ordered categorical: declared order is NOT alphabetical
    "c": ["zz", "mm", "aa"],              # unordered Categorical with unsorted declared categories
}
CAT_VARS = ["f", "g", "h", "o", "c"]
NUM_VARS = ["x", "z", "w"]


def make_frame(rng, n=None, factorial=False, nlev=None, cats=None, extra_cols=True, reps=None, index=True):
    """a frame with columns y, x, z, w (numeric), f, g, h (str), o (ordered), c (Categorical), k (int codes).
    factorial=True: every combination of the categorical levels of `cats` occurs (replicated)."""
    cats = cats or CAT_VARS
    nlev = dict(nlev or {})
    # unequal level counts so that a transposed product is visible
    pool = [2, 3, 4]
    for v in CAT_VARS + ["k"]:
        if v not in nlev:
            nlev[v] = rng.choice(pool if v != "g" else [2, 3, 4, 5])
        nlev[v] = min(nlev[v], len(LEVELS.get(v, "12345")))
    lev = {v: LEVELS[v][:nlev[v]] for v in CAT_VARS}
    # integer codes whose text order differs from their numeric order (10 < 2 as text), one negative
    lev["k"] = [2, 10, -3, 11, 100][:nlev["k"]]
    if factorial:
        combos = list(itertools.product(*[lev[v] for v in cats]))
        if reps is None:
            reps = rng.randint(2, 3) if len(combos) > 12 else rng.randint(5, 6)
        rows = combos * reps
        rng.shuffle(rows)
        n = len(rows)
        catvals = {v: [r[i] for r in rows] for i, v in enumerate(cats)}
        for v in CAT_VARS + ["k"]:
            if v not in catvals:
                catvals[v] = [lev[v][i % len(lev[v])] for i in range(n)]
                rng.shuffle(catvals[v])
    else:
        n = n or rng.randint(6, 30)
        catvals = {}
        for v in CAT_VARS + ["k"]:
            vals = list(lev[v]) + [rng.choice(lev[v]) for _ in range(max(0, n - len(lev[v])))]
            vals = vals[:n]
            # every level occurs when n is large enough
            rng.shuffle(vals)
            catvals[v] = vals
    frac_x = rng.random() < 0.4
    cols = [
        dm.col("y", "float", [str(rng.randint(-20, 20)) + ("/2" if rng.random() < 0.3 else "") for _ in range(n)]),
        # x: mostly integers, sometimes halves (a truncated or rounded product shows)
        dm.col("x", "float", [str(rng.randint(-9, 9)) + ("/2" if frac_x and rng.random() < 0.5 else "") for _ in range(n)]),
        dm.col("z", "int", [rng.randint(1, 12) for _ in range(n)]),
        dm.col("w", "float", [str(rng.randint(-6, 6)) + ("/4" if rng.random() < 0.3 else "") for _ in range(n)]),
        dm.col("f", "str", catvals["f"]),
        dm.col("g", "str", catvals["g"]),
        dm.col("h", "str", catvals["h"]),
        dm.col("o", "ordcat", catvals["o"], categories=lev["o"]),
        dm.col("c", "cat", catvals["c"], categories=lev["c"]),
        dm.col("k", "int", catvals["k"]),
    ]
    if extra_cols:
        cols.append(dm.col("junk", "str", [rng.choice(["m", "n"]) for _ in range(n)]))
        cols.append(dm.col("n_trials", "int", [rng.randint(20, 30) for _ in range(n)]))
        cols.append(dm.col("succ", "int", [rng.randint(0, 20) for _ in range(n)]))
        # a boolean column: numeric 0/1 for formulae (the model sees the integers)
        bq = dm.col("bq", "int", [rng.randint(0, 1) for _ in range(n)])
        bq["dtype"] = "bool"
        cols.append(bq)
    if extra_cols:
        # an unused column of a type formulae has no use for, with a missing value: irrelevant to every design
        cols.append(dm.col("stamp", "datetime", [None if i == 1 else f"2024-01-{1 + i % 28:02d}" for i in range(n)]))
    # narrower integer dtypes hold the same numbers
    if rng.random() < 0.3:
        for c_ in cols:
            if c_["name"] in ("z", "k", "n_trials") and c_["type"] == "int":
                c_["dtype"] = rng.choice(["int32", "int16"])
    frame = {"columns": cols}
    # the row index is not an input of any design: repeated, string or permuted labels now and then
    r = rng.random()
    if index and r < 0.3:
        frame["index"] = rng.choice([[j % 3 for j in range(n)], [f"s{j // 2}" for j in range(n)],
                                     [(j * 7 + 3) % n if n % 7 else (j * 5 + 3) % n for j in range(n)],
                                     [j * 0.5 - 2 for j in range(n)]])
    # make x, z, w not constant / in general position: replace some by distinct values
    return frame


def frame_levels(frame, name):
    for c in frame["columns"]:
        if c["name"] == name:
            if c["type"] == "ordcat":
                return [l for l in c["categories"]]
            return sorted(set(v for v in c["values"] if v is not None))
    return []


NUM_ATOMS = ["x", "z", "w", "bq", "center(x)", "scale(z)", "I(x + 1)", "{w * 2}", "I(z ** 2)", "standardize(w)",
             "center(x + w)", "scale(center(z))"]
CAT_ATOMS = ["f", "g", "h", "o", "c", "C(k)", "C(f, Sum)", "C(g, Treatment)", "S(h)", "T(f)", "C(o)",
             "C(h, Sum('v'))", "C(f, Treatment('b'))", "T(g, 'q')", "S(f, 'a')", "C(k, Treatment(2))",
             # calls whose RESULT is categorical (Call.eval_categoric), nested boxes
             "I(f)", "{g}", "I(o)", "I(c)", "C(C(f))", "C(C(h), Sum)",
             # an unordered Categorical with unsorted declared categories inside a coding call
             "C(c)", "S(c)", "T(c)"]


def rand_term(rng, max_arity=3, num_atoms=NUM_ATOMS, cat_atoms=CAT_ATOMS, p_num=0.4):
    arity = rng.choice([1, 1, 1, 2, 2, 3][: 2 + 2 * max_arity - 2])
    atoms = []
    for _ in range(arity):
        pool = num_atoms if rng.random() < p_num else cat_atoms
        a = rng.choice(pool)
        if a not in atoms:
            atoms.append(a)
    return ":".join(atoms)


def rand_common(rng, nterms=None, **kw):
    nterms = nterms or rng.randint(1, 4)
    terms = []
    for _ in range(nterms):
        t = rand_term(rng, **kw)
        if t not in terms:
            terms.append(t)
    rhs = " + ".join(terms)
    r = rng.random()
    if r < 0.25:
        rhs = "0 + " + rhs
    elif r < 0.3:
        rhs = rhs + " - 1"
    return rhs


def rand_group(rng):
    eff = rng.choice(["1", "x", "0 + x", "f", "0 + f", "x + z", "center(x)", "x:f", "0 + x + z", "1 + x", "h",
                      "C(k)", "0 + C(k)", "scale(z)", "x*f", "C(c)", "0 + S(c)",
                      # effects that are multi-column numeric transforms (their block is #groups x #columns wide)
                      "0 + bs(x, df=3)", "bs(x, df=3)", "0 + poly(x, 2, raw=True)"])
    grp = rng.choice(["g", "g:h", "g + h", "g/h", "C(k)", "h", "k", "o", "f:h", "C(c)", "C(c):h"])
    if "c" in eff and "c" in grp:
        grp = "g"
    return f"({eff} | {grp})"


def rand_group_pair(rng):
    """the SAME categorical slope under two grouping factors with a different intercept structure: reduced coding
    next to the group intercept, full coding without one (the slope's name does not tell which)"""
    e = rng.choice(["f", "h", "x:f", "C(k)", "c"])
    g1, g2 = rng.sample(["g", "h", "o", "k", "f"], 2)
    if g1 in e or g2 in e:
        g1, g2 = "g", "o"
    pair = [f"({e} | {g1})", f"(0 + {e} | {g2})"]
    rng.shuffle(pair)
    return " + ".join(pair)


def rand_formula(rng, with_group=0.3, response="y", **kw):
    rhs = rand_common(rng, **kw)
    if rng.random() < with_group:
        if rng.random() < 0.15:
            rhs += " + " + rand_group_pair(rng)
        else:
            rhs += " + " + rand_group(rng)
            if rng.random() < 0.3:
                rhs += " + " + rand_group(rng)
    return f"{response} ~ {rhs}"
