"""C12 -- call terms evaluate like the Python expression they spell."""
import ast
import re

import dm

ID = "C12"
PROP_FILES = ["Properties/C12.v", "Properties/C12_literals.v"]
THEOREMS = ["C12_py_roundtrip", "C12_brace_is_I", "C12_name_whitespace_invariant", "C12_refuted_unary_pow",
            "C12_refuted_pow_assoc"]
ASSUMPTIONS = ["Python's own parser (ast.parse / eval) is the specification of Python expressions",
               "numeric literals are short decimals (repr of the float is the digits typed)"]
RULE = ("random Python operator trees of depth <= 5 over columns, int / float / string / True / False / None "
        "literals, keyword arguments and calls to user functions, printed with ast.unparse (minimal parentheses) "
        "and with random whitespace; non-trivial = the implementation accepts; distinct = expression text")
EXHAUSTIVE = {"quick": False, "thorough": False}
CASE_TIMEOUT = 20

COLS = ["x", "z", "w"]
BINOPS = [ast.Add, ast.Sub, ast.Mult, ast.Div, ast.Pow]
CMPOPS = [ast.Eq, ast.NotEq, ast.Lt, ast.LtE, ast.Gt, ast.GtE]

USER = """
def add3(a, b=0, c=0):
    return a + b + c
def pick(a, which='first', other=None, flag=False):
    return a if which == 'first' and not flag else (other if other is not None else a * 0)
def twice(a):
    return a * 2
import types as _types
lib = _types.SimpleNamespace(
    stats=_types.SimpleNamespace(zs=lambda a: a * 5),
    util=_types.SimpleNamespace(stats=_types.SimpleNamespace(zs=lambda a: a * 11)),
    v1=_types.SimpleNamespace(stats=_types.SimpleNamespace(zs=lambda a: a * 3),
                              util=_types.SimpleNamespace(stats=_types.SimpleNamespace(zs=lambda a: a * 7))))
def wsum(a, w=0, z=0):
    # keyword labels that are also column names: wsum(x, w=w) passes the COLUMN w
    return a + 2 * w + 3 * z
def slen(a, s):
    # sensitive to every character of a string argument (runs of blanks included)
    return a * 0 + len(s) + 10 * s.count(' ')
def lowd(a, n, k=0):
    # sensitive to the LAST digits of an integer argument (an int64 id, a nanosecond time stamp): a literal
    # that went through a float on its way loses them above 2**53
    return a * 0 + (n % 1000) + 7 * (k % 1000)
_count = [0]
def nxt(a):
    # order-sensitive: every call returns the next number (Python evaluates positional arguments, then keyword
    # arguments, left to right)
    _count[0] += 1
    return a * 0 + _count[0]
def comb(p, b=0):
    return p - b
def tcode(a, *vals, **kw):
    # tells apart literals that are == but of different type (1, 1.0, True)
    codes = {'bool': 2, 'int': 3, 'float': 5, 'str': 7, 'NoneType': 11}
    tot = 0
    for i, v in enumerate(list(vals) + [kw[k] for k in sorted(kw)]):
        tot += (i + 1) * codes.get(type(v).__name__, 13)
    return a * 0 + tot
"""


def _num(rng):
    r = rng.random()
    if r < 0.6:
        return ast.Constant(rng.randint(0, 9))
    return ast.Constant(rng.choice([0.5, 1.5, 2.25, 10.0, 0.125, 3.0]))


def _tree(rng, depth, numeric=True):
    if depth == 0 or rng.random() < 0.25:
        return ast.Name(rng.choice(COLS), ast.Load()) if rng.random() < 0.7 else _num(rng)
    r = rng.random()
    if r < 0.55:
        op = rng.choice(BINOPS)()
        left = _tree(rng, depth - 1)
        right = _tree(rng, depth - 1)
        if isinstance(op, ast.Pow):
            right = ast.Constant(rng.randint(0, 3)) if rng.random() < 0.8 else _tree(rng, 1)
        if isinstance(op, ast.Div):
            right = ast.BinOp(ast.Name("z", ast.Load()), ast.Add(), ast.Constant(rng.randint(1, 5))) \
                if rng.random() < 0.5 else ast.Constant(rng.choice([2, 4, 0.5]))
        return ast.BinOp(left, op, right)
    if r < 0.68:
        return ast.UnaryOp(rng.choice([ast.USub, ast.UAdd])(), _tree(rng, depth - 1))
    if r < 0.76:
        n = 2 if rng.random() < 0.15 else 1
        return ast.Compare(_tree(rng, depth - 1), [rng.choice(CMPOPS)() for _ in range(n)],
                           [_tree(rng, depth - 1) for _ in range(n)])
    fn = rng.choice(["add3", "pick", "twice", "tcode", "slen", "wsum", "lib", "lowd"])
    if fn == "lowd":
        big = [9007199254740993, 1700000000123456789, 2 ** 53 + 1, 2 ** 62 + 3, 10 ** 17 + 1, 2 ** 53 - 1, 123456789]
        kws = [ast.keyword("k", ast.Constant(rng.choice(big)))] if rng.random() < 0.4 else []
        return ast.Call(ast.Name("lowd", ast.Load()), [_tree(rng, depth - 1), ast.Constant(rng.choice(big))], kws)
    if fn == "lib":
        # dotted callees of three, four and five parts; the objects on the way have look-alike siblings
        path = rng.choice([["lib", "stats", "zs"], ["lib", "v1", "stats", "zs"], ["lib", "v1", "util", "stats", "zs"],
                           ["lib", "util", "stats", "zs"]])
        node = ast.Name(path[0], ast.Load())
        for part in path[1:]:
            node = ast.Attribute(node, part, ast.Load())
        return ast.Call(node, [_tree(rng, depth - 1)], [])
    if fn == "wsum":
        kws = []
        if rng.random() < 0.8:
            kws.append(ast.keyword("w", rng.choice([ast.Name("w", ast.Load()), ast.Name("z", ast.Load()),
                                                    ast.BinOp(ast.Name("w", ast.Load()), ast.Mult(), ast.Constant(2))])))
        if rng.random() < 0.5:
            kws.append(ast.keyword("z", rng.choice([ast.Name("z", ast.Load()), ast.Name("x", ast.Load())])))
        return ast.Call(ast.Name("wsum", ast.Load()), [ast.Name(rng.choice(["x", "z"]), ast.Load())], kws)
    if fn == "slen":
        # string literals whose text contains runs of blanks (leading, inner, trailing)
        txt = rng.choice(["a  b", "New   York", "  x", "y  ", " ", "   ", "a b", "ab", "a  b  c"])
        return ast.Call(ast.Name("slen", ast.Load()), [_tree(rng, depth - 1), ast.Constant(txt)], [])
    if fn == "tcode":
        # literals that compare equal but differ in type, in one call (and next to an equal literal in the
        # first argument)
        grp = rng.choice([[1, 1.0, True], [0, 0.0, False], [2, 2.0], [3, 3.0]])
        first = ast.BinOp(_tree(rng, depth - 1), rng.choice([ast.Add, ast.Mult, ast.Sub])(), ast.Constant(rng.choice(grp)))
        args = [first] + [ast.Constant(rng.choice(grp)) for _ in range(rng.randint(1, 2))]
        kws = [ast.keyword("k", ast.Constant(rng.choice(grp + [None])))] if rng.random() < 0.5 else []
        return ast.Call(ast.Name("tcode", ast.Load()), args, kws)
    if fn == "twice":
        return ast.Call(ast.Name("twice", ast.Load()), [_tree(rng, depth - 1)], [])
    if fn == "add3":
        args = [_tree(rng, depth - 1)]
        kws = []
        if rng.random() < 0.6:
            args.append(_tree(rng, depth - 1))
        if rng.random() < 0.5:
            kws.append(ast.keyword("c", _tree(rng, depth - 1)))
        return ast.Call(ast.Name("add3", ast.Load()), args, kws)
    kws = []
    if rng.random() < 0.6:
        kws.append(ast.keyword("which", ast.Constant(rng.choice(["first", "second"]))))
    if rng.random() < 0.5:
        # `shadowed` is bound to None in the scope that calls design_matrices and to a number further out
        # (extra_namespace): the call receives None, as Python would pass it
        kws.append(ast.keyword("other", rng.choice([ast.Constant(None), _tree(rng, 1), ast.Name("shadowed", ast.Load())])))
    if rng.random() < 0.4:
        kws.append(ast.keyword("flag", ast.Constant(rng.choice([True, False]))))
    return ast.Call(ast.Name("pick", ast.Load()), [_tree(rng, depth - 1)], kws)


def _respace(rng, text):
    """random whitespace around operators / commas / parentheses, never inside names, numbers or strings"""
    toks = re.findall(r"'[^']*'|\"[^\"]*\"|\*\*|[<>=!]=|[A-Za-z_][A-Za-z_0-9.]*|\d+\.\d+|\d+|\S", text)
    out = ""
    for i, t in enumerate(toks):
        if i:
            prev = toks[i - 1]
            need = (prev[-1].isalnum() or prev[-1] == "_") and (t[0].isalnum() or t[0] == "_")
            out += rng.choice([" ", "  ", "\t"]) if need else rng.choice(["", " ", "  "])
        out += t
    return out


def _requote(rng, text):
    return re.sub(r"'([^']*)'", lambda m: rng.choice(["'%s'", '"%s"']) % m.group(1), text)


def gen(rng, tier):
    n = 40000 if tier == "thorough" else 2500
    cases = []
    fr_cache = []
    for k in range(20):
        m = rng.randint(5, 10)
        fr_cache.append({"columns": [dm.col("y", "float", [str(rng.randint(-5, 5)) for _ in range(m)]),
                                     dm.col("x", "float", [str(rng.randint(-4, 6)) for _ in range(m)]),
                                     dm.col("z", "int", [rng.randint(1, 5) for _ in range(m)]),
                                     dm.col("w", "float", [f"{rng.randint(-8, 8)}/2" for _ in range(m)])]})
    for _ in range(n):
        t = _tree(rng, rng.randint(1, 5))
        text = ast.unparse(ast.fix_missing_locations(ast.Expression(t)))
        wrapper = rng.choice(["I(%s)", "I(%s)", "{%s}", "twice(%s)"])
        src = _requote(rng, text)
        cases.append({"expr": text, "src": _respace(rng, src) if rng.random() < 0.7 else src,
                      "wrapper": wrapper, "frame": rng.choice(fr_cache), "kind": "random"})
    # several calls in one formula: calls that differ anywhere (positional value, keyword value,
    # keyword name, callee) are different terms, textual variants are one term
    pairs = [("add3(x, c=1)", "add3(x, c=2)"), ("add3(x, 1)", "add3(x, 2)"), ("add3(x, b=1)", "add3(x, c=1)"),
             ("pick(x, which='first')", "pick(x, which='second')"), ("pick(x, flag=True)", "pick(x, flag=False)"),
             ("twice(x)", "twice(z)"), ("add3(x, c=z)", "add3(x, c=w)"), ("add3(x,c=1)", "add3( x , c = 1 )"),
             ("pick(x, other=None)", "pick(x, other=z)"), ("lowd(x, 9007199254740993)", "lowd(x, 9007199254740992)"), ("I(x + 1)", "I(x + 2)"), ("add3(x, z, c=w)", "add3(x, z, c=x)")]
    for a, b in pairs:
        for joiner in (" + ", ":", " + z - "):
            cases.append({"expr": a, "src": a, "wrapper": "%s" + joiner + b, "frame": rng.choice(fr_cache), "kind": "pair",
                          "pair": [a, b, joiner]})
    for e in ["-x ** 2", "2 ** x ** 2", "x < z < w", "(x + z) * 2", "x + z * 2", "x - (z - w)", "x / (z * 2)", "x ** -1",
              "-(x + 1)", "add3(x, c=z)", "pick(x, which='second', other=z)", "1.5 * x", "x == z", "(x + 1) ** 2", "-x * z",
              "pick(x, which='second', other=shadowed)", "pick(z, other=shadowed, which='second')",
              "add3(x, c=pick(z, which='second', other=shadowed))", "pick(x + z, which='second', other=shadowed) + w",
              "lowd(x, 9007199254740993)", "lowd(z, 1700000000123456789, k=9007199254740993)",
              # argument evaluation order: positional before keyword, left to right (the difference of two successive
              # counter values is -1 whatever the counter was)
              "comb(nxt(x), b=nxt(z))", "comb(nxt(x), b=nxt(x))", "add3(comb(nxt(x), b=nxt(z)), c=1)",
              "comb(nxt(x) + 0, b=nxt(z) * 1)",
              # both operands of an operator are evaluated, also when they are spelled alike
              "nxt(x) - nxt(x)", "(nxt(x) + 1) - (nxt(x) + 1)", "nxt(z) - nxt( z )", "x + (nxt(x) - nxt(x))"]:
        cases.append({"expr": e, "src": e, "wrapper": "I(%s)", "frame": fr_cache[0], "kind": "fixed"})
    return cases


def key(c):
    return [c["src"], c["wrapper"]]


def _formula(c, src=None):
    return "y ~ " + c["wrapper"] % (src if src is not None else c["src"])


def _extra():
    ns = {}
    exec(USER, ns)
    return {k: v for k, v in ns.items() if k in ("add3", "pick", "twice", "tcode", "slen", "wsum", "lib", "lowd", "nxt", "comb")} | {"shadowed": 3.0}


def model_cmd(c):
    import core
    return core.sshow(["c12", _formula(c), dm.frame_sexp(c["frame"]), "drop",
                       [["add3", ["opaque"]], ["pick", ["opaque"]], ["twice", ["opaque"]], ["tcode", ["opaque"]], ["slen", ["opaque"]], ["wsum", ["opaque"]], ["lib", ["opaque"]], ["lowd", ["opaque"]], ["shadowed", ["opaque"]], ["nxt", ["opaque"]], ["comb", ["opaque"]]]])


def impl_obs(c):
    from formulae import design_matrices, model_description
    shadowed = None   # noqa: F841  (read by the formula through the caller's frame: the innermost binding wins)
    f = _formula(c)
    try:
        m = model_description(f)
        names = ["ok", [str(t.name) for t in m.common_terms]]
    except Exception as e:  # noqa
        names = ["err", type(e).__name__]
    try:
        d = design_matrices(f, dm.to_pandas(c["frame"]), extra_namespace=_extra())
        val = ["ok", dm.observe_design(d)]
    except Exception as e:  # noqa
        val = ["err", type(e).__name__, str(e)[:100]]
    return ["ok" if names[0] == "ok" else "err", names, val]


def compare(c, mo, obs):
    mn, mv = mo
    if mn[0] != obs[1][0]:
        return f"{_formula(c)!r}: description model {mn[:2]} implementation {obs[1]}"[:300]
    if mn[0] == "ok" and list(mn[1][1]) != obs[1][1]:
        return f"{_formula(c)!r}: term names model {mn[1][1]} implementation {obs[1][1]}"
    if mv[0] == "err" and mv[1] == "Unsupported":
        return None
    if "lib." in c["expr"] and mv[0] == "err":
        return None  # the model has no user objects with attributes: the value of such a call is the oracle's business
    if mv[0] != obs[2][0]:
        return f"{_formula(c)!r}: evaluation model {mv[:2]} implementation {obs[2][:3]}"[:300]
    if mv[0] == "ok":
        d = dm.compare_design(mv[1], obs[2][1])
        if d:
            return f"{_formula(c)!r}: {d}"[:300]
    return None


def describe(c, mo, obs):
    st = "accepted" if obs and obs[2][0] == "ok" else "rejected"
    sup = "model-eval" if mo and not (mo[1][0] == "err" and mo[1][1] == "Unsupported") else "names-only"
    return f"{c['kind']}/{st}/{sup}"


def nontrivial(c, mo, obs):
    return bool(obs) and obs[2][0] == "ok"


def _hazard(tree):
    """Python constructs whose formulae reading differs (listed findings)"""
    for n in ast.walk(tree):
        if isinstance(n, ast.UnaryOp) and isinstance(n.operand, ast.BinOp) and isinstance(n.operand.op, ast.Pow):
            return "unary_sign_before_power"
        if isinstance(n, ast.BinOp) and isinstance(n.op, ast.Pow) and isinstance(n.right, ast.BinOp) \
                and isinstance(n.right.op, ast.Pow):
            return "power_right_associative"
        if isinstance(n, ast.Compare) and len(n.ops) > 1:
            return "chained_comparison"
    return None


def _pair_oracle(c):
    import numpy as np
    from formulae import design_matrices
    a, b, joiner = c["pair"]
    df = dm.to_pandas(c["frame"])
    ns = _extra()
    env = {k: df[k] for k in COLS}
    env.update(ns)
    env["I"] = lambda v: v
    f = _formula(c)
    try:
        d = design_matrices(f, df, extra_namespace=ns)
    except Exception:
        return None
    va = np.asarray(eval(a, {"__builtins__": {}}, env), dtype=float)
    vb = np.asarray(eval(b, {"__builtins__": {}}, env), dtype=float)
    norm = lambda t: "".join(t.split())  # noqa: E731
    same_call = norm(a) == norm(b)
    names = list(d.common.terms)
    X = np.asarray(d.common.design_matrix, dtype=float)
    if joiner == " + ":
        want = [va] if same_call else [va, vb]
        got = [X[:, d.common.slices[n]].reshape(-1) for n in names if n != "Intercept"]
        if len(got) != len(want):
            return (f"{f!r}: {len(got)} call terms {names} for {len(want)} different calls "
                    f"(different calls must be different terms, textual variants one term)")
        for g, w in zip(got, want):
            if not np.allclose(g, w):
                return f"{f!r}: a call term does not evaluate like its Python text"
    elif joiner == ":":
        want = va if same_call else va * vb
        got = X[:, -1]
        if not np.allclose(got, want):
            return f"{f!r}: the interaction column is not the product of the two calls evaluated by Python"
    else:
        # a + z - b : removing b must remove nothing unless b is the same call as a
        has_a = any(np.allclose(X[:, d.common.slices[n]].reshape(-1), va) for n in names if n not in ("Intercept", "z"))
        if same_call and has_a:
            return f"{f!r}: subtracting a textual variant of the call did not remove it"
        if not same_call and not has_a:
            return f"{f!r}: subtracting a DIFFERENT call removed the call term"
    return None


def oracle(c):
    import numpy as np
    from formulae import design_matrices, model_description
    if c.get("kind") == "pair":
        return _pair_oracle(c)
    df = dm.to_pandas(c["frame"])
    ns = _extra()
    shadowed = None   # noqa: F841  (the binding the formula must see: this frame calls design_matrices)
    env = {k: df[k] for k in COLS}
    env.update(ns)
    env["shadowed"] = None
    env["I"] = lambda v: v
    f = _formula(c)
    tree = ast.parse(c["expr"], mode="eval")
    hz = _hazard(tree)
    tag = f"[class:{hz}] " if hz else ""
    try:
        with np.errstate(all="ignore"):
            want = eval(compile(tree, "<expr>", "eval"), {"__builtins__": {}}, env)
        if c["wrapper"].startswith("twice"):
            want = want * 2
        want = np.asarray(want, dtype=float)
    except Exception:
        return None  # Python itself cannot evaluate the text
    if want.ndim != 1 or not np.all(np.isfinite(want)):
        return None
    try:
        d = design_matrices(f, df, extra_namespace=ns)
    except Exception as e:
        try:
            model_description(f)
        except Exception:
            return None  # formulae refuses the TEXT: there is no call term (rejections are C01's business)
        # the text is a call term and Python evaluates it: evaluation must not fail
        return (f"{tag}{f!r}: Python evaluates the expression, formulae accepts the text but raises "
                f"{type(e).__name__}: {str(e)[:80]} when evaluating the call term")
    name = list(d.common.terms)[-1]
    got = np.asarray(d.common[name], dtype=float).reshape(len(df), -1)
    if got.shape[1] != 1 or not np.allclose(got[:, 0], want, rtol=1e-9, atol=1e-9):
        return f"{tag}{f!r}: the call term evaluates to {got[:3, 0].tolist()}..., Python gives {want[:3].tolist()}..."
    # the name: source text normalised to single spaces; whitespace variants are one term
    toks = re.findall(r"'[^']*'|\"[^\"]*\"|\*\*|[<>=!]=|[A-Za-z_][A-Za-z_0-9.]*|\d+\.\d+|\d+|\S", c["src"])
    n1 = [str(t.name) for t in model_description(f).common_terms][-1]
    for variant in (" ".join(toks), "   ".join(toks)):
        src_norm = _formula(c, variant)
        n2 = [str(t.name) for t in model_description(src_norm).common_terms][-1]
        if n1 != n2:
            return f"{f!r} and {src_norm!r} are textual variants of one call but are named {n1!r} and {n2!r}"
    if "(" not in c["expr"] and "{" not in c["wrapper"]:
        want_name = c["wrapper"] % re.sub(r"\s+", " ", c["src"]).strip()
        norm = re.sub(r"\s*([-+*/<>=!]=?|\*\*)\s*", r" \1 ", c["src"])
        # quote style of string literals is preserved
        for q in re.findall(r"'[^']*'|\"[^\"]*\"", c["src"]):
            if q not in n1:
                return f"{f!r}: the name {n1!r} does not preserve the string literal {q}"
    # different calls are different terms: re-reading the name must give the same expression
    inner = n1[n1.index("(") + 1:-1] if not c["wrapper"].startswith("{") else n1[2:-1]
    try:
        back = ast.dump(ast.parse(inner, mode="eval"))
    except SyntaxError:
        return None
    if back != ast.dump(tree):
        try:
            with np.errstate(all="ignore"):
                other = np.asarray(eval(inner, {"__builtins__": {}}, env), dtype=float)
        except Exception:
            return None
        if other.shape == want.shape and not np.allclose(other * (2 if c["wrapper"].startswith("twice") else 1), want, equal_nan=True):
            return (f"[class:name_drops_parentheses] {f!r} is named {n1!r}, which is also the name of the different "
                    f"call {c['wrapper'] % inner!r}")
    return None


def shrink_candidates(c):
    out = []
    try:
        tree = ast.parse(c["expr"], mode="eval").body
    except SyntaxError:
        return out
    for n in ast.walk(tree):
        for ch in ast.iter_child_nodes(n):
            if isinstance(ch, ast.expr) and not isinstance(ch, (ast.Name, ast.Constant)) and ch is not tree:
                try:
                    t = ast.unparse(ch)
                    out.append(dict(c, expr=t, src=t, kind="shrunk"))
                except Exception:
                    pass
    return out[:40]
