"""C16 -- built-in helper functions and aliases keep their documented pointwise meaning."""
import dm
import gen_dm
from props import _design as D
from props._design import unsupported, prepare, CASE_TIMEOUT  # noqa: F401

ID = "C16"
PROP_FILES = ["Properties/C16.v", "Properties/C16_design.v"]
THEOREMS = ["C16_alias_B", "C16_alias_prop", "C16_alias_standardize", "C16_T_is_C_Treatment", "C16_S_is_C_Sum",
            "C16_binary_spec", "C16_I_identity"]
ASSUMPTIONS = ["frames without missing values; integer successes / trials"]
RULE = ("helper calls (binary / B with and without success, offset of column / constant / call, prop / p / "
        "proportion with column or constant trials, I, standardize / scale, T / S / C) and their aliases, at "
        "training time and on new frames; non-trivial = accepted by the implementation; distinct = (pair, frame head)")
EXHAUSTIVE = {"quick": False, "thorough": False}

# (formula A, formula B that must give the same matrices, kind)
def _pairs(rng, fr):
    f_lv = gen_dm.frame_levels(fr, "f")
    g_lv = gen_dm.frame_levels(fr, "g")
    s_f = rng.choice(f_lv + ["nope"])
    s_g = rng.choice(g_lv)
    kv = rng.choice([1, 2, 3, 7])
    r = rng.choice(f_lv)
    o = rng.choice(g_lv)
    out = [
        (f"y ~ binary(f, '{s_f}')", f"y ~ B(f, '{s_f}')", "binary-str"),
        ("y ~ binary(f)", "y ~ B(f)", "binary-default"),
        (f"y ~ binary(k, {kv})", f"y ~ B(k, {kv})", "binary-num"),
        ("y ~ binary(k)", "y ~ B(k)", "binary-num-default"),
        ("y ~ binary(v, 0)", "y ~ B(v, 0)", "binary-num"),
        (f"y ~ binary(v, {rng.choice([-2, -1, 0, 1, 2])})", None, "binary-num"),
        ("y ~ x + binary(v, 0):z", "y ~ x + B(v, 0):z", "binary-inter"),
        (f"y ~ x + binary(g, '{s_g}'):z", f"y ~ x + B(g, '{s_g}'):z", "binary-inter"),
        ("y ~ x + offset(z)", None, "offset-col"),
        (f"y ~ x + offset({rng.choice([1, 2, 10])})", None, "offset-const"),
        (f"y ~ x + offset({rng.choice([2.5, 0.5, 3.75, 0.25])})", None, "offset-const"),
        ("y ~ x + offset(z * 2)", None, "offset-expr"),
        ("y ~ x + offset(I(w + 1))", None, "offset-call"),
        ("prop(succ, n_trials) ~ x", "p(succ, n_trials) ~ x", "prop-col"),
        ("proportion(succ, n_trials) ~ x + f", "prop(succ, n_trials) ~ x + f", "prop-col"),
        ("prop(succ, 30) ~ x", "p(succ, 30) ~ x", "prop-const"),
        ("prop(succ, 5) ~ x", None, "prop-invalid"),
        ("prop(w, n_trials) ~ x", None, "prop-nonint"),
        # arguments of the wrong kind are refused (every validation message of transforms.py)
        ("prop(3, n_trials) ~ x", "p(3, n_trials) ~ x", "refused"),
        ("prop(succ, 'a') ~ x", None, "refused"),
        ("prop(succ, 2.5) ~ x", None, "refused"),
        ("y ~ x + prop(succ, n_trials)", "y ~ x + p(succ, n_trials)", "refused"),
        ("y ~ offset(f)", None, "refused"),
        ("y ~ offset('a')", None, "refused"),
        ("y ~ bs(x, df=4, degree=2.5)", None, "refused"),
        ("y ~ C(x, 3)", None, "refused"),
        ("y ~ I(x)", "y ~ x", "I"),
        ("y ~ I(x + z)", "y ~ {x + z}", "I-brace"),
        # I(e) is e for a categorical e as well (ordered categorical: the declared order is not the sorted one)
        ("y ~ I(o)", "y ~ o", "I-cat"), ("y ~ x + {o}:z", "y ~ x + o:z", "I-cat"), ("y ~ 0 + I(c)", "y ~ 0 + c", "I-cat"),
        ("y ~ I(f) + x", "y ~ f + x", "I-cat"), ("I(o) ~ x", "o ~ x", "I-cat"),
        # I(e) is e on new frames too: an INTEGER training column, fractional values at prediction
        ("y ~ I(z)", "y ~ z", "I-int"), ("y ~ {z} + f", "y ~ z + f", "I-int"), ("y ~ I(z):x", "y ~ z:x", "I-int"),
        ("y ~ standardize(x) + f", "y ~ scale(x) + f", "standardize"),
        (f"y ~ T(f, '{r}')", f"y ~ C(f, Treatment('{r}'))", "T"),
        (f"y ~ x + S(g, '{o}')", f"y ~ x + C(g, Sum('{o}'))", "S"),
        ("y ~ T(g) + x", "y ~ C(g, Treatment) + x", "T-default"),
        ("y ~ S(f)", "y ~ C(f, Sum)", "S-default"),
    ]
    return out


def gen(rng, tier):
    n = 300 if tier == "thorough" else 25
    cases = []
    for _ in range(n):
        fr = gen_dm.make_frame(rng)
        nrows = len(fr["columns"][0]["values"])
        # a signed integer column: 0 is a value like any other (and not the smallest)
        fr["columns"].append(dm.col("v", "int", [[-2, 0, 1, 0, -1, 2][i % 6] for i in range(nrows)]))
        if rng.random() < 0.3:
            # the same number of trials in every training row: still a COLUMN of trials, the new frame has its own
            for col in fr["columns"]:
                if col["name"] == "n_trials":
                    col["values"] = [30] * nrows
        new = dm.select_rows(fr, [rng.randrange(nrows) for _ in range(rng.randint(1, 6))])
        for col in new["columns"]:
            if col["name"] == "z":
                col["values"] = [v + rng.randint(0, 3) for v in col["values"]]
            if col["name"] == "n_trials":
                col["values"] = [v + rng.randint(0, 5) for v in col["values"]]
        # the prediction frame of the I-int pairs holds halves in the column that was integer at training
        new_frac = {"columns": [dict(col, type="float", values=[f"{2 * v + 1}/2" for v in col["values"]]) if col["name"] == "z"
                                else col for col in new["columns"]]}
        for col in new_frac["columns"]:
            col.pop("dtype", None) if col["name"] == "z" else None
        # the prediction frame of the I-cat pairs holds f, o, c as pandas Categoricals that declare the training
        # levels in ANOTHER order (a frame that went through a file with its own category list)
        def _recat(col):
            if col["name"] not in ("f", "o", "c"):
                return col
            lv = gen_dm.frame_levels(fr, col["name"]) if col["name"] != "c" else sorted(set(next(
                x for x in fr["columns"] if x["name"] == "c")["values"]))
            perm_ = lv[1:] + lv[:1] if rng.random() < 0.5 else list(reversed(lv))
            return dict(col, type="cat", categories=perm_)
        new_cat = {"columns": [_recat(col) for col in new["columns"]]}
        for a, b, kind in _pairs(rng, fr):
            nf = new_frac if kind == "I-int" else (new_cat if kind == "I-cat" and rng.random() < 0.6 else new)
            cases.append({"formula": a, "alias": b, "frame": fr, "new": nf, "kind": kind, "na": "drop"})
    return cases


def key(c):
    return [c["formula"], c["alias"], c["frame"]["columns"][0]["values"][:5]]


def describe(c, mo, obs):
    return f"{c['kind']}/{'accepted' if obs and obs[0] == 'ok' else 'rejected'}"


def nontrivial(c, mo, obs):
    return bool(obs) and obs[0] == "ok"


def model_cmd(c):
    import core
    return core.sshow(["newdata", c["formula"], dm.frame_sexp(c["frame"]), "drop", [], "error",
                       [dm.frame_sexp(c["new"])]])


def impl_obs(c):
    try:
        d = dm.build(c)
    except Exception as e:  # noqa
        return ["err", type(e).__name__, str(e)[:100]]
    out = ["ok", dm.observe_design(d)]
    if d.common is None:
        out.append(["none"])
    else:
        try:
            out.append(["ok", dm._rows(d.common.evaluate_new_data(dm.to_pandas(c["new"])).design_matrix)])
        except Exception as e:  # noqa
            out.append(["err", type(e).__name__])
    return out


def compare(c, mo, obs):
    if unsupported(mo):
        return None
    if mo[0] != obs[0]:
        return f"model {mo[:2]} / implementation {obs[:3]} on {c['formula']!r}"[:300]
    if mo[0] != "ok":
        return None
    d = dm.compare_design(mo[1], obs[1])
    if d:
        return f"{c['formula']!r}: {d}"[:300]
    m = mo[2][0][0]
    i = obs[2]
    if m[0] == "err" and m[1] == "Unsupported":
        return None
    if m[0] != i[0]:
        return f"{c['formula']!r} new data: model {m[:2]} implementation {i[:2]}"
    if m[0] == "ok" and not dm.rows_eq(m[1][0], i[1]):
        return f"{c['formula']!r} new data: matrices differ"
    return None


def oracle(c):
    import numpy as np
    from formulae import design_matrices
    df = dm.to_pandas(c["frame"])
    new = dm.to_pandas(c["new"])
    kind = c["kind"]
    f = c["formula"]

    # user objects named like helpers / aliases (a threshold p, a constant B, a stateless scale ...): the
    # built-in helpers are looked up first, so nothing changes
    shadow = {"p": 0.25, "B": 200, "T": 3, "S": "s", "I": None, "scale": (lambda v: v * 0), "standardize": 1,
              "binary": (lambda *a: a[0]), "prop": (lambda *a: a[0]), "offset": (lambda v: v * 0), "C": 7}

    def build(formula, ns=None):
        try:
            return design_matrices(formula, df, extra_namespace=ns), None
        except Exception as e:
            return None, e

    d, err = build(f)
    ds, errs = build(f, shadow)
    if (d is None) != (ds is None):
        return f"{f!r}: user objects named like the helpers change whether the formula is accepted ({err or errs})"
    if d is not None:
        for part in ("response", "common", "group"):
            a, b = getattr(d, part), getattr(ds, part)
            if (a is None) != (b is None) or (a is not None and not np.array_equal(
                    np.asarray(a.design_matrix, dtype=float), np.asarray(b.design_matrix, dtype=float), equal_nan=True)):
                return f"{f!r}: user objects named like the helpers change the {part} matrix"
        if d.common is not None and not kind.startswith("binary"):
            try:
                n1 = np.asarray(d.common.evaluate_new_data(new).design_matrix, dtype=float)
                n2 = np.asarray(ds.common.evaluate_new_data(new).design_matrix, dtype=float)
                if not np.array_equal(n1, n2, equal_nan=True):
                    return f"{f!r}: user objects named like the helpers change the matrix on new data"
            except Exception:  # noqa
                pass
    # the helpers are recomputed from the frame they are given, every time: predict, edit the SAME frame
    # object in place, predict again
    if d is not None and d.common is not None and not kind.startswith("binary"):
        try:
            work = new.copy()
            d.common.evaluate_new_data(work)
            for col_ in ("x", "z", "w", "n_trials"):
                if col_ in work.columns:
                    work[col_] = work[col_] + 1
            again = np.asarray(d.common.evaluate_new_data(work).design_matrix, dtype=float)
            fresh = np.asarray(d.common.evaluate_new_data(work.copy()).design_matrix, dtype=float)
            if not np.array_equal(again, fresh, equal_nan=True):
                return (f"{f!r}: evaluating a frame, editing it in place and evaluating it again returns the values of "
                        f"its earlier contents")
        except Exception:  # noqa
            pass
    # aliases are exact synonyms
    if c["alias"]:
        d2, err2 = build(c["alias"])
        if (d is None) != (d2 is None):
            return f"{f!r} and its alias {c['alias']!r}: one is accepted, the other raises ({err or err2})"
        if d is not None:
            for part in ("response", "common", "group"):
                a, b = getattr(d, part), getattr(d2, part)
                if (a is None) != (b is None) or (a is not None and not np.array_equal(
                        np.asarray(a.design_matrix, dtype=float), np.asarray(b.design_matrix, dtype=float), equal_nan=True)):
                    return f"{f!r} and its alias {c['alias']!r} give different {part} matrices"
            if d.common is not None:
                n1 = np.asarray(d.common.evaluate_new_data(new).design_matrix, dtype=float) if kind not in ("binary-str", "binary-default", "binary-num", "binary-num-default", "binary-inter") else None
                if n1 is not None:
                    n2 = np.asarray(d2.common.evaluate_new_data(new).design_matrix, dtype=float)
                    if not np.array_equal(n1, n2, equal_nan=True):
                        return f"{f!r} and its alias {c['alias']!r} differ on new data"
    if kind.startswith("binary"):
        import re
        m = re.search(r"binary\((\w+)(?:, ('?)(-?[^')]*)'?)?\)", f)
        var, succ = m.group(1), m.group(3)
        col = df[var]
        if succ is None:
            succ = sorted(col.unique().tolist())[0]
        elif m.group(2) == "":
            succ = int(succ)
        occurs = bool((col == succ).any())
        if not occurs:
            if d is not None:
                return f"{f!r}: success value {succ!r} never occurs but the call is accepted"
            return None
        if d is None:
            return f"{f!r}: raises {type(err).__name__}: {str(err)[:60]}"
        name = [t for t in d.common.terms if "binary" in t][0]
        M = np.asarray(d.common[name], dtype=float)
        want = (col == succ).to_numpy().astype(float)
        if kind == "binary-inter":
            want = want * df["z"].to_numpy()
        if M.shape[1] != 1 or not np.array_equal(M[:, 0], want):
            return f"{f!r}: the column is not 1 exactly where {var} == {succ!r}"
        return None
    if kind == "refused":
        if d is not None:
            return f"{f!r}: an argument of the wrong kind was accepted"
        return None if isinstance(err, ValueError) else f"{f!r}: refused with {type(err).__name__} instead of ValueError"
    if d is None:
        if kind in ("prop-invalid", "prop-nonint"):
            return None if isinstance(err, ValueError) else f"{f!r}: refused with {type(err).__name__} instead of ValueError"
        return f"{f!r}: raises {type(err).__name__}: {str(err)[:80]}"
    if kind == "prop-invalid":
        if (df["succ"] > 5).any():
            return f"{f!r}: successes exceed trials but prop() accepted them"
        return None
    if kind == "prop-nonint":
        if (np.mod(df["w"], 1) != 0).any():
            return f"{f!r}: non-integer successes accepted"
        return None
    if kind.startswith("offset"):
        name = [t for t in d.common.terms if t.startswith("offset")][0]
        inner = name[len("offset("):-1]
        env = {"x": df["x"].to_numpy(), "z": df["z"].to_numpy(), "w": df["w"].to_numpy(), "I": lambda v: v}
        want = np.asarray(eval(inner, {}, env), dtype=float) * np.ones(len(df))
        M = np.asarray(d.common[name], dtype=float).reshape(-1)
        if not np.array_equal(M, want):
            return f"{f!r}: offset contributes {M[:3].tolist()}..., expected {want[:3].tolist()}..."
        envn = {"x": new["x"].to_numpy(), "z": new["z"].to_numpy(), "w": new["w"].to_numpy(), "I": lambda v: v}
        wantn = np.asarray(eval(inner, {}, envn), dtype=float) * np.ones(len(new))
        N = np.asarray(d.common.evaluate_new_data(new).design_matrix, dtype=float)
        sl = d.common.slices[name]
        if not np.array_equal(N[:, sl].reshape(-1), wantn):
            return f"{f!r}: at prediction the offset is {N[:, sl].reshape(-1)[:3].tolist()}..., the new frame gives {wantn[:3].tolist()}..."
        return None
    if kind.startswith("prop"):
        R = np.asarray(d.response.design_matrix, dtype=float)
        trials = df["n_trials"].to_numpy(dtype=float) if "n_trials" in f else np.full(len(df), 30.0)
        if R.shape != (len(df), 2) or not np.array_equal(R[:, 0], df["succ"].to_numpy(dtype=float)) or not np.array_equal(R[:, 1], trials):
            return f"{f!r}: prop response is not [successes, trials]"
        rn = np.asarray(d.response.evaluate_new_data(new), dtype=float).reshape(-1)
        wn = new["n_trials"].to_numpy(dtype=float) if "n_trials" in f else np.full(len(new), 30.0)
        if not np.array_equal(rn, wn):
            return f"{f!r}: response.evaluate_new_data reports {rn.tolist()}, the trials of the new frame are {wn.tolist()}"
        # the usual prediction frame: the outcome is not known yet (successes missing, or the column absent): still
        # one trial count per row of that frame
        for label, frame2 in (("missing successes", new.assign(succ=np.nan)), ("no successes column", new.drop(columns=["succ"])),
                              ("some successes missing", new.assign(succ=[np.nan if j % 2 == 0 else v for j, v in enumerate(new["succ"])]))):
            try:
                r2 = np.asarray(d.response.evaluate_new_data(frame2), dtype=float).reshape(-1)
            except Exception as e:
                return f"{f!r}: response.evaluate_new_data on a new frame with {label} raises {type(e).__name__}: {str(e)[:60]}"
            if not np.array_equal(r2, wn):
                return (f"{f!r}: with {label} response.evaluate_new_data reports {r2.tolist()}, the trials of the new "
                        f"frame are {wn.tolist()}")
        return None
    if kind == "I":
        M = np.asarray(d.common["I(x)"], dtype=float).reshape(-1)
        if not np.array_equal(M, df["x"].to_numpy(dtype=float)):
            return f"{f!r}: I(x) is not x"
    return None
