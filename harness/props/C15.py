"""C15 -- response handling."""
import dm
import gen_dm
from props import _design as D
from props._design import describe, nontrivial, unsupported, prepare, CASE_TIMEOUT  # noqa: F401

ID = "C15"
PROP_FILES = ["Properties/C15.v"]
THEOREMS = ["C15_response_numeric_id", "C15_response_indicators", "C15_response_level_binary", "C15_response_single_term"]
ASSUMPTIONS = ["no missing values (the NA pattern is the same for every response)"]
RULE = ("8 response forms (numeric, str, Categorical, ordered, y[ident], y['quoted'], calls, prop with column or "
        "constant trials, also with narrow integer dtypes) and invalid multi-term responses x random right-hand sides; non-trivial = accepted; "
        "distinct = (formula, frame head)")
EXHAUSTIVE = {"quick": False, "thorough": False}

RESPONSES = [("y", "num"), ("z", "num"), ("f", "cat"), ("c", "cat"), ("o", "cat"), ("k", "num"),
             ("f[b]", "level"), ("f['b']", "level"), ('g["q"]', "level"), ("o[mid]", "level"), ("c['mm']", "level"),
             ("f[nolevel]", "level"), ("f['zzz']", "level"), ("o['absent']", "level"), ("g[t]", "level"),
             ("I(y * 2)", "expr"), ("{y + 1}", "expr"), ("center(y)", "call"), ("C(k)", "catcall"),
             ("prop(succ, n_trials)", "prop"), ("p(succ, 30)", "prop"), ("proportion(succ, n_trials)", "prop"),
             ("y:x", "bad"), ("y + z", "bad"), ("(y|g)", "bad"), ("1", "bad"), ("offset(y)", "bad"),
             ("f['a']:f['b']", "bad"), ("f[a]:f[b]", "bad"), ("f['a']:f", "bad"), ("f:f['b']", "bad"),
             ("o['lo']:o['mid']", "bad"), ("f['a']:g['p']", "bad")]


def gen(rng, tier):
    n = 8000 if tier == "thorough" else 500
    cases = []
    for i in range(n):
        resp, kind = RESPONSES[i % len(RESPONSES)] if i < 3 * len(RESPONSES) else rng.choice(RESPONSES)
        rhs = gen_dm.rand_formula(rng, with_group=0.3, response="").split("~", 1)[1].strip()
        cases.append({"formula": f"{resp} ~ {rhs}", "frame": gen_dm.make_frame(rng), "na": "drop", "kind": kind,
                      "resp": resp, "rhs": rhs})
    # narrow integer dtypes: the successes in int8 / uint8 / int16, the trials too large for that dtype
    # (a wider column, or a constant): prop is still the pair (successes, trials)
    for i in range(60 if tier != "thorough" else 600):
        fr = gen_dm.make_frame(rng)
        nrow = len(fr["columns"][0]["values"])
        sd = rng.choice(["int8", "uint8", "int16", "int32"])
        hi = {"int8": 127, "uint8": 255, "int16": 32767, "int32": 70000}[sd]
        for col in fr["columns"]:
            if col["name"] == "succ":
                col["values"] = [rng.randint(0, min(hi, 120)) for _ in range(nrow)]
                col["dtype"] = sd
            if col["name"] == "n_trials":
                col["values"] = [rng.randint(hi + 1, hi + 300) for _ in range(nrow)]
                col["dtype"] = rng.choice(["int64", "int32"]) if hi >= 32767 else rng.choice(["int64", "int16", "int32"])
        const = hi + rng.randint(1, 200)
        resp = rng.choice(["prop(succ, n_trials)", f"p(succ, {const})", "proportion(succ, n_trials)"])
        rhs = gen_dm.rand_formula(rng, with_group=0.2, response="").split("~", 1)[1].strip()
        cases.append({"formula": f"{resp} ~ {rhs}", "frame": fr, "na": "drop", "kind": "prop", "resp": resp,
                      "rhs": rhs, "tag": "narrow"})
    # the empty string is a level like any other: e[''] is the 0/1 column of that level
    for i in range(24 if tier != "thorough" else 200):
        fr = gen_dm.make_frame(rng)
        nrow = len(fr["columns"][0]["values"])
        pool = rng.choice([["", "a", "b"], ["", "zz"], ["b", "", "a", "c"], ["a\\b", "ab", "a"], ["a\\b", "ab", "a"]])
        vals = (pool * nrow)[:nrow]
        rng.shuffle(vals)
        kind_col = rng.choice(["str", "cat", "ordcat"])
        fr["columns"].append(dm.col("e", kind_col, vals, categories=pool if kind_col != "str" else None))
        if "a\\b" in pool:
            # the characters between the quotes are the level, a backslash is a character like any other
            resp = rng.choice(["e['a\\b']", 'e["a\\b"]', "e['ab']", "e"])
        else:
            resp = rng.choice(["e['']", 'e[""]', "e['a']", "e"]) if "a" in pool else rng.choice(["e['']", 'e[""]', "e['zz']"])
        rhs = gen_dm.rand_formula(rng, with_group=0.2, response="").split("~", 1)[1].strip()
        cases.append({"formula": f"{resp} ~ {rhs}", "frame": fr, "na": "drop", "kind": "cat" if resp == "e" else "level",
                      "resp": resp, "rhs": rhs, "tag": "empty-level"})
    for i in range(20 if tier != "thorough" else 150):
        fr = gen_dm.make_frame(rng)
        for col in fr["columns"]:
            if col["name"] == "o":
                # a declared category that never occurs, not in the last position
                cats = list(col["categories"])
                cats.insert(rng.randrange(0, len(cats)), "never")
                col["categories"] = cats
        rhs = gen_dm.rand_formula(rng, with_group=0.2, response="").split("~", 1)[1].strip()
        cases.append({"formula": f"o ~ {rhs}", "frame": fr, "na": "drop", "kind": "cat", "resp": "o", "rhs": rhs,
                      "tag": "unobserved-level"})
    for resp, kind in [("y", "num"), ("f", "cat"), ("o", "cat"), ("f['b']", "level"), ("I(y * 2)", "expr"),
                       ("prop(succ, n_trials)", "prop"), ("center(y)", "call")]:
        for rhs in ["0", "-1", "1 - 1", "x - x - 1", "0 + x - x"]:
            cases.append({"formula": f"{resp} ~ {rhs}", "frame": gen_dm.make_frame(rng), "na": "drop", "kind": kind,
                          "resp": resp, "rhs": rhs, "tag": "empty-rhs"})
    # missing values in the response's own columns, also in pandas' nullable integer dtype (pd.NA): those
    # observations are not part of the design; response and predictors stay row-aligned
    for i in range(40 if tier != "thorough" else 400):
        fr = gen_dm.make_frame(rng)
        nrow = len(fr["columns"][0]["values"])
        resp, kind, holes_in = rng.choice([("z", "num", ["z"]), ("y", "num", ["y"]), ("I(y * 2)", "expr", ["y"]),
                                           ("prop(succ, n_trials)", "prop", ["n_trials"]),
                                           ("prop(succ, n_trials)", "prop", ["succ"]), ("k", "num", ["k"])])
        for col in fr["columns"]:
            if col["name"] in holes_in:
                for r_ in rng.sample(range(nrow), rng.randint(1, 3)):
                    col["values"][r_] = None
                if col["type"] == "int":
                    col.pop("dtype", None)
                    col["type"] = rng.choice(["nint", "nint", "int"])
        # the right-hand side must not use the holed column itself
        rhs = rng.choice(["x + f", "0 + w + g", "x:f + (1 | g)", "f + (x | h)", "w", "scale(x) + c"])
        cases.append({"formula": f"{resp} ~ {rhs}", "frame": fr, "na": "drop", "kind": kind, "resp": resp, "rhs": rhs,
                      "tag": "missing-response"})
    # an integer response beyond 2**53 (identifiers, nanosecond counts), in numpy's int64 and in pandas' nullable
    # Int64: "returned unchanged" is exact, not up to a float conversion
    for i in range(12 if tier != "thorough" else 100):
        fr = gen_dm.make_frame(rng)
        nrow = len(fr["columns"][0]["values"])
        big = [2 ** 53 + 1, -(2 ** 53) - 1, 1700000000123456789, 5, 12, 2 ** 62 + 3]
        for col in fr["columns"]:
            if col["name"] == "z":
                col["values"] = [big[j % len(big)] + (j // len(big)) for j in range(nrow)]
                col.pop("dtype", None)
                col["type"] = rng.choice(["nint", "int"])
        rhs = rng.choice(["x + f", "0 + w + g", "x:f + (1 | g)", "w"])
        cases.append({"formula": f"z ~ {rhs}", "frame": fr, "na": "drop", "kind": "num", "resp": "z", "rhs": rhs,
                      "tag": "big-int-response"})
    # a call response whose result is a bare ordered Categorical (array, not Series): the declared order, including a
    # declared level nobody is in, is the order of the indicator columns
    for i in range(10 if tier != "thorough" else 80):
        rhs = rng.choice(["x + g", "0 + w", "x:g + (1 | h)", "w"])
        var = rng.choice(["f", "h", "k"])
        cases.append({"formula": f"ordc({var}) ~ {rhs}", "frame": gen_dm.make_frame(rng), "na": "drop", "kind": "ordcall",
                      "resp": f"ordc({var})", "rhs": rhs, "tag": "ordered-call", "var": var})
    for rhs in ["x + f", "0 + x", "x + (1|g)"]:
        cases.append({"formula": rhs, "frame": gen_dm.make_frame(rng), "na": "drop", "kind": "none", "resp": None, "rhs": rhs})
    # the trials passed BY KEYWORD while the caller's namespace binds the same name to something else: the column of
    # the frame is what the response holds (data before namespace, also for keyword arguments; oracle only)
    for resp in ["prop(succ, trials=n_trials)", "p(succ, trials=n_trials)", "proportion(succ, trials=n_trials)",
                 "prop(successes=succ, trials=n_trials)"]:
        for rhs in ["x", "x + g"]:
            cases.append({"formula": f"{resp} ~ {rhs}", "frame": gen_dm.make_frame(rng), "na": "drop", "kind": "prop",
                          "resp": resp, "rhs": rhs, "tag": "kw-trials"})
    return cases


def _ns(c):
    """user functions of the call-response stratum: they return a bare ORDERED pandas Categorical (an array, not a
    Series) whose declared order is the reverse of the sorted one, with one declared level nobody is in"""
    if c.get("tag") == "kw-trials":
        return {"n_trials": 1000, "succ": 0}
    if c.get("tag") != "ordered-call":
        return None
    import pandas as pd

    def ordc(v):
        lv = sorted(set(str(x) for x in v), reverse=True)
        return pd.Categorical([str(x) for x in v], categories=lv[:1] + ["unseen-level"] + lv[1:], ordered=True)
    return {"ordc": ordc}


def _build(c):
    if c.get("tag") in ("ordered-call", "kw-trials"):
        from formulae import design_matrices
        return design_matrices(c["formula"], dm.to_pandas(c["frame"]), extra_namespace=_ns(c))
    return dm.build(c)


def model_cmd(c):
    if c.get("tag") in ("ordered-call", "kw-trials"):
        c = dict(c, formula="y ~ " + c["rhs"])    # placeholder: decided by the oracle alone
    return D.model_cmd(c)


def impl_obs(c):
    if c.get("tag") in ("ordered-call", "kw-trials"):
        try:
            return ["ok", dm.observe_design(_build(c))]
        except Exception as e:  # noqa
            return ["err", type(e).__name__, str(e)[:160]]
    return D.impl_obs(c)


def compare(c, mo, obs):
    if c.get("tag") in ("ordered-call", "kw-trials"):
        return None
    return D.compare(c, mo, obs)


def oracle(c):
    import re
    import numpy as np
    from formulae import design_matrices
    df = dm.to_pandas(c["frame"])
    kind = c["kind"]
    f = c["formula"]
    if c.get("tag") == "missing-response":
        # the observations the design is about: complete in the variables the formula uses (read off the text)
        names = set(re.findall(r"[A-Za-z_][A-Za-z_0-9]*", f))
        used = [v for v in df.columns if v in names]
        df = df[~df[used].isna().any(axis=1).to_numpy()].reset_index(drop=True)
    try:
        d = _build(c)
    except Exception as e:
        if kind == "bad":
            if isinstance(e, (ValueError, TypeError, AttributeError)) or "Error" in type(e).__name__:
                return None
        # the right-hand side may be illegal on its own: decide with a plain numeric response
        try:
            design_matrices("y ~ " + c["rhs"], df)
        except Exception:
            return None
        if kind == "bad":
            return None
        return f"{f!r}: a valid response form is rejected ({type(e).__name__}: {str(e)[:80]})"
    if kind == "bad":
        return f"{f!r}: a response that is not a single term was accepted"
    if kind == "none":
        return None if d.response is None else f"{f!r}: a response was produced for a formula without '~'"
    if d.response is None:
        return f"{f!r} names a response but the design has none"
    R = np.asarray(d.response.design_matrix, dtype=float)
    if R.ndim == 1:
        R = R[:, None]
    n = len(df)
    if R.shape[0] != n:
        return f"{f!r}: response has {R.shape[0]} rows"
    resp = c["resp"]
    if c.get("tag") == "big-int-response":
        got_exact = [int(v) for v in np.asarray(d.response.design_matrix).reshape(-1).tolist()]
        want_exact = [int(v) for v in df[resp].tolist()]
        if got_exact != want_exact:
            bad = next(j for j, (a_, b_) in enumerate(zip(got_exact, want_exact)) if a_ != b_)
            return (f"{f!r}: the integer response is not returned unchanged: row {bad} holds {got_exact[bad]}, the "
                    f"column ({df[resp].dtype}) holds {want_exact[bad]}")
    if kind == "num":
        if R.shape[1] != 1 or not np.array_equal(R[:, 0], df[resp].to_numpy(dtype=float)):
            return f"{f!r}: numeric response is not returned unchanged"
        if d.response.kind != "numeric":
            return f"{f!r}: kind {d.response.kind}"
    elif kind == "expr":
        want = eval(re.sub(r"^[I{(]+|[)}]+$", "", resp), {}, {"y": df["y"].to_numpy()})
        if R.shape[1] != 1 or not np.allclose(R[:, 0], want):
            return f"{f!r}: response call does not evaluate like the Python expression"
    elif kind == "call":
        want = df["y"].to_numpy() - df["y"].to_numpy().mean()
        if not np.allclose(R[:, 0], want):
            return f"{f!r}: center(y) response differs"
    elif kind in ("cat", "catcall"):
        var = "k" if kind == "catcall" else resp
        lv = D.levels_of(df, var)
        if R.shape[1] != len(lv):
            return f"{f!r}: categorical response has {R.shape[1]} columns for levels {lv}"
        for j, l in enumerate(lv):
            want = (df[var].astype(str).to_numpy() == l).astype(float)
            if not np.array_equal(R[:, j], want):
                return f"{f!r}: column {j} of the response is not the indicator of level {l!r} (levels {lv})"
        if [str(x) for x in (d.response.levels or [])] != lv:
            return f"{f!r}: response.levels {d.response.levels}, expected {lv}"
        if d.response.kind != "categoric":
            return f"{f!r}: kind {d.response.kind}"
    elif kind == "ordcall":
        vals = [str(x) for x in df[c["var"]].tolist()]
        srt = sorted(set(vals), reverse=True)
        lv = srt[:1] + ["unseen-level"] + srt[1:]
        if R.shape[1] != len(lv):
            return f"{f!r}: the response has {R.shape[1]} columns, the call returns an ordered Categorical declaring {lv}"
        for j, l in enumerate(lv):
            if not np.array_equal(R[:, j], np.array([1.0 if v == l else 0.0 for v in vals])):
                return f"{f!r}: column {j} of the response is not the indicator of the declared level {l!r} (declared order {lv})"
        if [str(x) for x in (d.response.levels or [])] != lv:
            return f"{f!r}: response.levels {d.response.levels}, declared order {lv}"
    elif kind == "level":
        var = resp.split("[", 1)[0]
        level = resp.split("[", 1)[1].rstrip("]").strip("'\"")
        want = (df[var].astype(str).to_numpy() == level).astype(float)
        if R.shape[1] != 1 or not np.array_equal(R[:, 0], want):
            return f"{f!r}: {resp} is not 1 exactly where {var} == {level!r}"
    elif kind == "prop":
        trials = (df["n_trials"].to_numpy(dtype=float) if "n_trials" in resp
                  else np.full(n, float(re.search(r",\s*(\d+)\)", resp).group(1))))
        if R.shape[1] != 2 or not np.array_equal(R[:, 0], df["succ"].to_numpy(dtype=float)) \
                or not np.array_equal(R[:, 1], trials):
            return f"{f!r}: prop response is not [successes, trials]"
        if d.response.kind != "proportion":
            return f"{f!r}: kind {d.response.kind}"
    # the predictors do not depend on the response
    try:
        ref = design_matrices("y ~ " + c["rhs"], df)
    except Exception as e:
        return f"{f!r}: the same right-hand side with response y raises {type(e).__name__}"
    for part in ("common", "group"):
        a, b = getattr(d, part), getattr(ref, part)
        if (a is None) != (b is None):
            return f"{f!r}: {part} matrix present/absent depending on the response"
        if a is not None and not np.array_equal(np.asarray(a.design_matrix), np.asarray(b.design_matrix), equal_nan=True):
            return f"{f!r}: the {part} matrix depends on which response is named"
    return None
