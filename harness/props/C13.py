"""C13 -- contrast codings are valid, honour their options, and are interchangeable."""
import itertools
from fractions import Fraction

import dm
import gen_dm

ID = "C13"
PROP_FILES = ["Properties/C13.v", "Properties/C13_options.v", "Properties/C13_rebox.v"]
THEOREMS = ["C13_treat_columns", "C13_treat_reference_row", "C13_treat_full_rank", "C13_sum_columns_zero",
            "C13_sum_omitted_row", "C13_sum_full_rank", "C13_sum_unit_num", "C13_treat_full_is_identity",
            "C13_sum_full_spans_everything", "C13_reference_irrelevant", "C13_treatment_sum_same_space",
            "C13_treatment_full_space", "C13_entry_bridge"]
ASSUMPTIONS = ["rank computations of the oracle are exact (fractions.Fraction Gaussian elimination)"]
RULE = ("exhaustive: level counts 1..12 x every reference / omitted level x {reduced, full} x {Treatment, Sum}; "
        "one encoding object reused after coding one or two other level lists; "
        "all permutations of up to five levels passed as levels=; random designs with each factor's coding "
        "swapped among variable / C / T / S / Sum / Treatment(ref); non-trivial = every case; distinct = case")
EXHAUSTIVE = {"quick": True, "thorough": True}
CASE_TIMEOUT = 30

NAMES = ["a", "b", "c", "d", "e", "f", "g", "h", "i", "j", "k", "l"]


def gen(rng, tier):
    cases = []
    for n in range(1, 13):
        levels = NAMES[:n]
        for enc in ("treatment", "sum"):
            for ref in [None] + levels + ["not-a-level"]:
                for spans in ("reduced", "full"):
                    cases.append({"kind": "direct", "enc": enc, "ref": ref, "spans": spans, "levels": levels})
    # levels that are falsy Python values (0, "") are levels like any other
    for levels in ([-1, 0, 1], [2, 1, 0], [0, 1], [3, 0, 7, 5], ["", "a", "b"], ["b", "", "a"]):
        for enc in ("treatment", "sum"):
            for ref in [None] + list(levels):
                for spans in ("reduced", "full"):
                    cases.append({"kind": "direct", "enc": enc, "ref": ref, "spans": spans, "levels": levels,
                                  "raw_levels": True})
    # one encoding object used for several factors (C(g, s) + C(h, s) with s = Sum('b')): what it did for an
    # earlier list of levels has no influence on a later one
    priors = [[["a", "b", "c"], "reduced"], [["b", "c", "d", "e"], "full"], [["c", "b"], "reduced"],
              [["a", "b", "c", "d", "e", "f"], "reduced"]]
    for enc in ("treatment", "sum"):
        for levels in (["b", "c", "d"], ["a", "b"], ["d", "c", "b", "a"], ["a", "b", "c", "d", "e"]):
            for ref in [None, "b"]:
                for spans in ("reduced", "full"):
                    for k in (1, 2):
                        for pr in itertools.permutations(priors, k):
                            cases.append({"kind": "direct", "enc": enc, "ref": ref, "spans": spans,
                                          "levels": levels, "prior": [list(x) for x in pr]})
    perms = list(itertools.permutations(["a", "b", "c", "d"][:4]))
    for k in (2, 3, 4, 5):
        lv = ["a", "b", "c", "d", "e"][:k]
        ps = list(itertools.permutations(lv))
        if tier != "thorough" and len(ps) > 30:
            ps = rng.sample(ps, 30)
        for p in ps:
            cases.append({"kind": "levels", "perm": list(p), "wrapper": rng.choice(["C", "T", "S", "C-sum"]),
                          "seed": rng.randrange(10 ** 6)})
    # a coded factor coded AGAIN: C() around C / T / S keeps whatever the inner call fixed and the outer call does not
    # give anew (contrast and levels independently)
    for k in (3, 4):
        lv = ["a", "b", "c", "d"][:k]
        for p_ in (list(itertools.permutations(lv)) if tier == "thorough" else rng.sample(list(itertools.permutations(lv)), 4)):
            for w in ("CC-sum", "CT-lv", "CS-lv", "CC-lv", "CC-ref"):
                cases.append({"kind": "levels", "perm": list(p_), "wrapper": w, "seed": rng.randrange(10 ** 6)})
    for k in (3, 4):
        lv = ["a", "b", "c", "d"][:k]
        for p_ in (list(itertools.permutations(lv)) if tier == "thorough" else rng.sample(list(itertools.permutations(lv)), 5)):
            for w in ("C", "T", "S", "C-sum"):
                cases.append({"kind": "levels", "perm": list(p_), "wrapper": w, "seed": rng.randrange(10 ** 6),
                              "ordered": True})
    # without levels= the levels of a numeric factor are in NUMERIC order: first = default reference (C, T), last =
    # default omitted level (S)
    for vals in ([5, 10, 15], [-2, -1, 0, 1], [8, 9, 10, 11], [100, 20, 3]):
        for w in ("C", "T", "S", "C-sum"):
            cases.append({"kind": "numlevels", "values": vals, "wrapper": w, "seed": rng.randrange(10 ** 6)})
    # a factor whose values are nanosecond time stamps / durations, coded through C / T / S without levels=: the levels
    # are the distinct values in time order (decided by the oracle: the model has no time values)
    for unit in ("datetime64[ns]", "timedelta64[ns]", "datetime64[s]"):
        for w in ("C", "T", "S", "C-sum"):
            cases.append({"kind": "timelevels", "unit": unit, "wrapper": w, "seed": rng.randrange(10 ** 6)})
    # levels= with a repeated entry is refused (a level list names every level once)
    for dup in (["a", "b", "a"], ["a", "b", "c", "b"], ["c", "c", "a", "b"], ["a", "a"]):
        for w in ("C", "T", "S", "C-sum"):
            cases.append({"kind": "levels", "perm": dup, "wrapper": w, "seed": rng.randrange(10 ** 6), "dup": True})
    n = 4000 if tier == "thorough" else 300
    for _ in range(n):
        cases.append({"kind": "swap", "seed": rng.randrange(10 ** 6)})
    # levels= handed over as a TUPLE (the documented "list or tuple"): the same order rules
    for p_ in (("c", "a", "b"), ("b", "a"), ("d", "b", "a", "c"), ("b", "c", "a")):
        for w in ("C", "T", "S", "C-sum", "CC-sum", "CT-lv"):
            if w == "CT-lv" and "b" not in p_:
                continue
            cases.append({"kind": "levels", "perm": list(p_), "wrapper": w, "seed": rng.randrange(10 ** 6), "tuple": True})
    return cases


def key(c):
    return c


def describe(c, mo, obs):
    return c["kind"] + ("/" + c.get("enc", "") + ("/reused" if c.get("prior") else "") if c["kind"] == "direct" else "")


def _time_frame(c):
    import random
    import numpy as np
    import pandas as pd
    rng = random.Random(c["seed"])
    k = rng.choice([3, 4])
    n = rng.randint(k + 2, 10)
    codes = list(range(k)) + [rng.randrange(k) for _ in range(n - k)]
    rng.shuffle(codes)
    base = np.array([86400 * 10 ** 9 * (3 * j + 1) + 17 * j for j in range(k)], dtype="int64")   # distinct, ascending
    vals = base[codes]
    t = vals.astype("datetime64[ns]").astype(c["unit"]) if c["unit"].startswith("datetime") else vals.astype(c["unit"])
    df = pd.DataFrame({"y": [float(rng.randint(-5, 5)) for _ in range(n)], "q": t})
    call = {"C": "C(q)", "T": "T(q)", "S": "S(q)", "C-sum": "C(q, Sum)"}[c["wrapper"]]
    return df, "y ~ " + call, codes, k


def model_cmd(c):
    import core
    if c["kind"] == "timelevels":
        c = {"kind": "direct", "enc": "treatment", "ref": None, "spans": "reduced", "levels": ["a", "b"]}   # placeholder
    if c["kind"] == "direct":
        return core.sshow(["code", c["enc"], [] if c["ref"] is None else str(c["ref"]), c["spans"],
                           [str(x) for x in c["levels"]]])
    f, fr, extra = _design_case(c)
    return dm.design_cmd({"formula": f, "frame": fr, "extra": extra})


def _design_case(c):
    import random
    rng = random.Random(c["seed"])
    if c["kind"] == "numlevels":
        lv = list(c["values"])
        n = rng.randint(len(lv) + 2, 12)
        vals = lv + [rng.choice(lv) for _ in range(n - len(lv))]
        rng.shuffle(vals)
        fr = {"columns": [dm.col("y", "float", [str(rng.randint(-5, 5)) for _ in range(n)]), dm.col("q", "int", vals)]}
        call = {"C": "C(q)", "T": "T(q)", "S": "S(q)", "C-sum": "C(q, Sum)"}[c["wrapper"]]
        return f"y ~ {call}", fr, {}
    if c["kind"] == "levels":
        lv = sorted(c["perm"])
        n = rng.randint(len(lv) + 2, 14)
        vals = lv + [rng.choice(lv) for _ in range(n - len(lv))]
        rng.shuffle(vals)
        qcol = dm.col("q", "str", vals)
        if c.get("ordered"):
            # an ORDERED categorical whose declared order is yet another permutation: levels= wins
            cats = list(lv)
            rng.shuffle(cats)
            if cats == list(c["perm"]):
                cats = cats[1:] + cats[:1]
            qcol = dm.col("q", "ordcat", vals, categories=cats)
        fr = {"columns": [dm.col("y", "float", [str(rng.randint(-5, 5)) for _ in range(n)]), qcol]}
        w = c["wrapper"]
        call = {"C": "C(q, levels=lv)", "T": "T(q, levels=lv)", "S": "S(q, levels=lv)",
                "C-sum": "C(q, Sum, levels=lv)",
                "CC-sum": "C(C(q, levels=lv), Sum)", "CT-lv": "C(T(q, 'b'), levels=lv)", "CS-lv": "C(S(q, 'a'), levels=lv)",
                "CC-lv": "C(C(q, Sum), levels=lv)", "CC-ref": "C(C(q, levels=lv), Treatment('b'))"}[w]
        return f"y ~ {call}", fr, {"lv": tuple(c["perm"]) if c.get("tuple") else c["perm"]}
    fr = gen_dm.make_frame(rng, factorial=True, cats=["f", "g"], nlev={"f": rng.choice([2, 3, 4]), "g": rng.choice([2, 3])})
    return _swap_formula(rng, 0), fr, {}


F_CODINGS = ["f", "C(f)", "T(f)", "S(f)", "C(f, Sum)", "C(f, Treatment('b'))", "T(f, 'b')", "S(f, 'a')", "C(f, Sum('b'))"]
G_CODINGS = ["g", "C(g)", "S(g)", "T(g, 'q')", "C(g, Sum)"]


# w takes non-integer values (quarters): a product that is truncated or rounded shows
SHAPES = ["F", "F + G", "F + x", "F:G", "F + G + F:G", "x + F:G", "0 + F", "0 + F + G", "F:x", "F + F:x",
          "w + F:w", "F:w", "F + F:w", "w + F + F:w", "0 + F:w",
          # group-specific effects: full coding (all level indicators are spanned) unless the SAME grouping factor
          # has an intercept, whatever other group-specific terms the formula has and in whatever order
          # a factor times TWO numerics that are both main effects while their product is not a term
          "x + w + F:x:w", "x + w + F + F:x:w", "0 + x + w + F:w:x",
          "x + (0 + F | g)", "x + (F | g)", "x + (x | h) + (0 + F | g)", "x + (0 + F | g) + (x | h)",
          "x + (1 | h) + (w | h) + (0 + F | g)", "(F | h) + (0 + F | g)"]


def _swap_formula(rng, which):
    shape = rng.choice(SHAPES)
    rng2_f = rng.choice(F_CODINGS)
    rng2_g = rng.choice(G_CODINGS)
    return "y ~ " + shape.replace("F", rng2_f).replace("G", rng2_g)


def _swap_variants(seed):
    import random
    rng = random.Random(seed)
    fr = gen_dm.make_frame(rng, factorial=True, cats=["f", "g"], nlev={"f": rng.choice([2, 3, 4]), "g": rng.choice([2, 3])})
    shape = rng.choice(SHAPES)
    fs = rng.sample(F_CODINGS, 3)
    gs = rng.sample(G_CODINGS, 2)
    forms = ["y ~ " + shape.replace("F", f).replace("G", g) for f in fs for g in gs]
    return fr, forms


def _mk_enc(c):
    """the encoding object of a direct case, after it has coded the case's earlier level lists"""
    from formulae.categorical import Sum, Treatment
    enc = Treatment(c["ref"]) if c["enc"] == "treatment" else Sum(c["ref"])
    for levels, spans in c.get("prior", []):
        try:
            (enc.code_with_intercept if spans == "full" else enc.code_without_intercept)(list(levels))
        except Exception:  # noqa
            pass
    return enc


def impl_obs(c):
    import numpy as np
    if c["kind"] == "timelevels":
        from formulae import design_matrices
        df, f, codes, k = _time_frame(c)
        try:
            return ["ok", dm._rows(design_matrices(f, df).common.design_matrix)]
        except Exception as e:  # noqa
            return ["err", type(e).__name__, str(e)[:100]]
    if c["kind"] == "direct":
        enc = _mk_enc(c)
        try:
            cm = enc.code_with_intercept(list(c["levels"])) if c["spans"] == "full" else enc.code_without_intercept(list(c["levels"]))
        except Exception as e:  # noqa
            return ["err", type(e).__name__]
        return ["ok", [[str(int(v)) for v in row] for row in np.asarray(cm.matrix)], [str(l) for l in cm.labels]]
    f, fr, extra = _design_case(c)
    try:
        return ["ok", dm.observe_design(dm.build({"formula": f, "frame": fr, "extra": extra}))]
    except Exception as e:  # noqa
        return ["err", type(e).__name__, str(e)[:100]]


def compare(c, mo, obs):
    if c["kind"] == "timelevels":
        return None
    if mo[0] == "err" and len(mo) > 1 and mo[1] == "Unsupported":
        return None
    if mo[0] != obs[0]:
        return f"{c}: model {mo[:2]} implementation {obs[:2]}"[:300]
    if mo[0] != "ok":
        return None
    if c["kind"] == "direct":
        m_rows = [list(r) for r in mo[1][0]]
        if m_rows != obs[1] and not (obs[1] and not obs[1][0] and all(r == [] for r in m_rows)):
            return f"{c}: matrix model {m_rows} impl {obs[1]}"[:400]
        if list(mo[1][1]) != obs[2]:
            return f"{c}: labels model {mo[1][1]} impl {obs[2]}"
        return None
    d = dm.compare_design(mo[1], obs[1])
    return f"{c}: {d}"[:400] if d else None


def nontrivial(c, mo, obs):
    return True


def rank(M):
    """exact rank over the rationals"""
    A = [[Fraction(x) for x in row] for row in M]
    r = 0
    rows, cols = len(A), len(A[0]) if A else 0
    for j in range(cols):
        piv = next((i for i in range(r, rows) if A[i][j] != 0), None)
        if piv is None:
            continue
        A[r], A[piv] = A[piv], A[r]
        for i in range(rows):
            if i != r and A[i][j] != 0:
                fct = A[i][j] / A[r][j]
                A[i] = [a - fct * b for a, b in zip(A[i], A[r])]
        r += 1
    return r


def oracle(c):
    import numpy as np
    from formulae.categorical import Sum, Treatment
    if c["kind"] == "direct":
        levels = list(c["levels"])
        n = len(levels)
        ref = c["ref"]
        enc = _mk_enc(c)
        try:
            red = enc.code_without_intercept(list(levels))
            full = enc.code_with_intercept(list(levels))
        except Exception as e:
            if ref == "not-a-level":
                return None
            return f"{c['enc']} coding of {n} levels with reference {ref!r} raises {type(e).__name__}"
        if ref == "not-a-level":
            return None if c["enc"] == "treatment" else f"Sum(omit={ref!r}) accepted an unknown level"
        R = np.asarray(red.matrix)
        Fm = np.asarray(full.matrix)
        if R.shape != (n, n - 1):
            return f"{c['enc']} reduced matrix for {n} levels has shape {R.shape}"
        if len(red.labels) != n - 1 or len(full.labels) != Fm.shape[1]:
            return "labels and columns differ in number"
        if n >= 1 and rank([[1] + [int(v) for v in row] for row in R]) != n:
            return f"{c['enc']} coding (n={n}, reference {ref!r}): [1 | contrast] does not have full rank"
        if Fm.shape != (n, n) or rank([[int(v) for v in row] for row in Fm]) != n:
            return f"{c['enc']} full coding (n={n}) does not span all level indicators"
        if c["enc"] == "treatment":
            r = 0 if ref is None else levels.index(ref)
            kept = levels[:r] + levels[r + 1:]
            if list(red.labels) != [str(x) for x in kept]:
                return f"treatment labels {red.labels}, expected {kept} (reference {levels[r]!r})"
            for j, l in enumerate(kept):
                want = [1 if x == l else 0 for x in levels]
                if [int(v) for v in R[:, j]] != want:
                    return f"treatment column {l!r} is not the indicator of that level (n={n}, reference {levels[r]!r})"
            if list(full.labels) != [str(x) for x in levels] or not np.array_equal(Fm, np.eye(n)):
                return "full treatment coding is not the identity"
        else:
            o = n - 1 if ref is None else levels.index(ref)
            kept = levels[:o] + levels[o + 1:]
            if list(red.labels) != [str(x) for x in kept]:
                return f"sum labels {red.labels}, expected {kept}"
            if n > 1 and any(int(s) != 0 for s in R.sum(axis=0)):
                return f"sum coding columns do not add up to zero (n={n}, omit {levels[o]!r})"
            if any(int(v) != -1 for v in R[o, :]):
                return f"sum coding: omitted level {levels[o]!r} is not coded -1"
            for j, l in enumerate(kept):
                i = levels.index(l)
                if int(R[i, j]) != 1 or any(int(R[i2, j]) != 0 for i2 in range(n) if i2 not in (i, o)):
                    return f"sum column {l!r} is not the contrast of that level"
            # full coding: a first column [mean] of ones followed by the reduced columns, labels alike
            if list(full.labels) != ["mean"] + [str(x) for x in kept]:
                return f"full sum labels {full.labels}, expected {['mean'] + kept} (omit {levels[o]!r})"
            if not np.array_equal(Fm, np.column_stack([np.ones(n, dtype=int), R])):
                return f"full sum coding is not [1 | reduced coding] (n={n}, omit {levels[o]!r})"
        return None
    if c["kind"] == "numlevels":
        f, fr, extra = _design_case(c)
        d = dm.build({"formula": f, "frame": fr, "extra": extra})
        name = f.split("~")[1].strip()
        t = d.common.terms[name]
        lv = sorted(set(c["values"]))
        labs = [l[len(name) + 1:-1] for l in t.labels]
        want = [str(v) for v in (lv[1:] if c["wrapper"] in ("C", "T") else lv[:-1])]
        if labs != want:
            return (f"{f!r} on values {sorted(set(c['values']))}: columns {labs}, expected {want} (numeric order; the first "
                    f"level is the default reference, sum omits the last)")
        return None
    if c["kind"] == "timelevels":
        from formulae import design_matrices
        df, f, codes, k = _time_frame(c)
        try:
            d = design_matrices(f, df)
        except Exception as e:
            return f"{f!r} on a {c['unit']} factor raises {type(e).__name__}: {str(e)[:80]}"
        M = np.asarray(d.common.design_matrix, dtype=float)[:, 1:]
        if M.shape[1] != k - 1:
            return f"{f!r} on a {c['unit']} factor with {k} distinct values: {M.shape[1]} contrast columns"
        for i, code in enumerate(codes):
            if c["wrapper"] in ("C", "T"):
                want = [1.0 if code == j else 0.0 for j in range(1, k)]
            else:
                want = [-1.0] * (k - 1) if code == k - 1 else [1.0 if code == j else 0.0 for j in range(k - 1)]
            if M[i].tolist() != want:
                return (f"{f!r} on a {c['unit']} factor: row {i} (value number {code} in time order) is coded {M[i].tolist()}, "
                        f"the {'treatment' if c['wrapper'] in ('C', 'T') else 'sum'} coding over the time-ordered levels gives {want}")
        return None
    if c["kind"] == "levels":
        f, fr, extra = _design_case(c)
        try:
            d = dm.build({"formula": f, "frame": fr, "extra": extra})
        except Exception as e:
            if c.get("dup"):
                return None if isinstance(e, ValueError) else f"{f!r} with levels={c['perm']} raises {type(e).__name__}"
            return f"{f!r} with levels={c['perm']} raises {type(e).__name__}: {str(e)[:60]}"
        if c.get("dup"):
            return f"{f!r}: levels={c['perm']} repeats a level but was accepted"
        name = f.split("~")[1].strip()
        t = d.common.terms[name]
        comp = t.components[0]
        if list(comp.levels) != list(c["perm"]):
            return f"{f!r}: levels {comp.levels} do not follow levels={c['perm']}"
        labs = [l[len(name) + 1:-1] for l in t.labels]
        want = c["perm"][1:] if c["wrapper"] in ("C", "T") else c["perm"][:-1]
        if c["wrapper"] in ("CT-lv", "CC-ref"):
            want = [l for l in c["perm"] if l != "b"]     # Treatment with reference 'b' in the order levels= gives
        if c["wrapper"] == "CS-lv":
            want = [l for l in c["perm"] if l != "a"]     # Sum omitting 'a'
        if c["wrapper"] in ("CT-lv", "CC-ref", "CS-lv", "CC-sum", "CC-lv"):
            # the coding in force shows in the matrix: the row of the reference level is all 0 (Treatment), the row
            # of the omitted level all -1 (Sum)
            import numpy as _np
            M = _np.asarray(d.common[name], dtype=float)
            col = next(cc for cc in fr["columns"] if cc["name"] == "q")["values"]
            special = {"CT-lv": "b", "CC-ref": "b", "CS-lv": "a", "CC-sum": c["perm"][-1], "CC-lv": c["perm"][-1]}[c["wrapper"]]
            fill = 0.0 if c["wrapper"] in ("CT-lv", "CC-ref") else -1.0
            rows = [i for i, v in enumerate(col) if v == special]
            if rows and not _np.all(M[rows] == fill):
                return (f"{f!r} levels={c['perm']}: the rows of level {special!r} hold {M[rows[0]].tolist()}, the coding "
                        f"asked for ({'Treatment, reference' if fill == 0 else 'Sum, omitted level'} {special!r}) gives all {fill}")
        if labs != want:
            return f"{f!r} levels={c['perm']}: columns {labs}, expected {want} (first level is the default reference; sum omits the last)"
        return None
    # swap: the column space of the design matrix does not depend on the coding of its factors
    fr, forms = _swap_variants(c["seed"])
    mats = []
    for f in forms:
        try:
            d = dm.build({"formula": f, "frame": fr})
        except Exception:
            return None
        X = np.asarray(d.common.design_matrix, dtype=float)
        if d.group is not None:
            # the column space of the whole design: common and group-specific columns
            X = np.column_stack([X, np.asarray(d.group.design_matrix, dtype=float)])
        mats.append((f, X))
    f0, X0 = mats[0]
    r0 = rank([[Fraction(float(v)).limit_denominator(10 ** 6) for v in row] for row in X0])
    for f, X in mats[1:]:
        r = rank([[Fraction(float(v)).limit_denominator(10 ** 6) for v in row] for row in X])
        rj = rank([[Fraction(float(v)).limit_denominator(10 ** 6) for v in row] for row in np.column_stack([X0, X])])
        if not (r == r0 == rj):
            return f"replacing the coding changes the column space: {f0!r} rank {r0}, {f!r} rank {r}, joint rank {rj}"
    return None
