"""C14 -- stateful transforms satisfy their mathematical contracts."""
from fractions import Fraction

ID = "C14"
PROP_FILES = ["Properties/C14.v", "Properties/C14_affine.v"]
THEOREMS = ["C14_center_mean0", "C14_center_same_map_on_later_data", "C14_scale_mean0_var1",
            "C14_scale_same_map_on_later_data", "C14_bs_ncols", "C14_bs_nonneg", "C14_bs_partition_of_unity",
            "C14_bs_partition_of_unity_everywhere", "C14_bs_rejects", "C14_poly_orthonormal", "C14_poly_raw_powers"]
ASSUMPTIONS = ["exact rationals in the model, float64 in the implementation: comparison tolerance 1e-8 relative",
               "scipy's splev is modelled as FITPACK's interval search + de Boor-Cox recurrence"]
RULE = ("numeric vectors with ties, large offsets and small n x the parameter grid (df, degree 0..5, intercept, "
        "bounds; poly degree 1..6, raw) incl. invalid parameters, evaluated on the training vector and on later "
        "data; non-trivial = every case; distinct = (transform, parameters, vector)")
EXHAUSTIVE = {"quick": False, "thorough": False}
CASE_TIMEOUT = 30
TOL = 1e-8


def _vec(rng, n=None):
    n = n or rng.randint(3, 25)
    kind = rng.choice(["int", "halves", "offset", "ties", "wide", "symmetric", "small", "large"])
    if kind == "symmetric":
        # dyadic values v, -v (and sometimes a zero): the mean is exactly zero, also in floating point
        h = [Fraction(rng.randint(1, 40), 4) for _ in range(max(1, n // 2))]
        v = h + [-x for x in h] + ([Fraction(0)] if rng.random() < 0.5 else [])
        rng.shuffle(v)
    elif kind == "small":
        # the same kind of data in another unit (millimetres given in metres): a spread of 0.01 or 0.001
        unit = rng.choice([10 ** 5, 10 ** 6, 2 ** 17])
        v = [Fraction(rng.randint(0, 1000), unit) for _ in range(n)]
    elif kind == "large":
        v = [Fraction(rng.randint(-1000, 1000) * 1000) for _ in range(n)]
    elif kind == "int":
        v = [Fraction(rng.randint(-20, 20)) for _ in range(n)]
    elif kind == "halves":
        v = [Fraction(rng.randint(-40, 40), 4) for _ in range(n)]
    elif kind == "offset":
        v = [Fraction(10 ** 6 + rng.randint(0, 50)) for _ in range(n)]
    elif kind == "ties":
        base = [Fraction(rng.randint(0, 4)) for _ in range(3)]
        v = [rng.choice(base) for _ in range(n)]
    else:
        v = [Fraction(rng.randint(-1000, 1000), 8) for _ in range(n)]
    return [str(x) for x in v]


def gen(rng, tier):
    n = 12000 if tier == "thorough" else 900
    cases = []
    for i in range(n):
        t = ["center", "scale", "bs", "bs", "poly", "poly"][i % 6]
        xs = _vec(rng)
        ys = _vec(rng, rng.randint(1, 6))
        if rng.random() < 0.5:
            ys = [rng.choice(xs) for _ in range(rng.randint(1, 6))]  # rows of the training data
        c = {"t": t, "xs": xs, "ys": ys}
        if t == "bs":
            c["degree"] = rng.choice([0, 1, 2, 3, 3, 3, 4, 5, -1])
            c["intercept"] = rng.random() < 0.5
            c["df"] = rng.choice([None, 1, 2, 3, 4, 5, 6, 8]) if rng.random() < 0.9 else 0
            lo = min(Fraction(x) for x in xs)
            hi = max(Fraction(x) for x in xs)
            r = rng.random()
            c["lower"] = None if r < 0.6 else str(lo - rng.randint(0, 3))
            c["upper"] = None if r < 0.6 else str(hi + rng.randint(0, 3))
            if rng.random() < 0.05:
                c["lower"], c["upper"] = str(hi + 1), str(lo - 1)
            r2 = rng.random()
            if r2 < 0.12:
                # exactly one bound given: a valid one, or one on the wrong side of the data
                which = rng.choice(["lower", "upper"])
                bad = rng.random() < 0.5
                c["lower"], c["upper"] = None, None
                if which == "lower":
                    c["lower"] = str(hi + rng.randint(1, 3)) if bad else str(lo - rng.randint(0, 2))
                else:
                    c["upper"] = str(lo - rng.randint(1, 3)) if bad else str(hi + rng.randint(0, 2))
                if rng.random() < 0.6:
                    # no inner knot at all: df = degree (+ 1 with an intercept)
                    c["df"] = max(0, c["degree"]) + (1 if c["intercept"] else 0)
            c["knots"] = None
            if rng.random() < 0.3:
                # explicit interior knots: any order, inside the bounds (sometimes not), df usually omitted
                span = hi - lo
                k = rng.randint(1, 4)
                ks = [lo + span * Fraction(rng.randint(1, 15), 16) for _ in range(k)]
                if rng.random() < 0.5:
                    ks = sorted(ks, reverse=rng.random() < 0.5)
                if rng.random() < 0.1:
                    ks[0] = hi + 1
                c["knots"] = [str(x) for x in ks]
                c["df"] = None if rng.random() < 0.8 else c["df"]
            if rng.random() < 0.3:
                # later data inside the boundary knots, the boundaries included
                c["ys"] = [str(lo), str(hi)] + [str(lo + (hi - lo) * Fraction(rng.randint(0, 16), 16)) for _ in range(4)]
        if t == "poly":
            c["degree"] = rng.choice([1, 2, 3, 4, 5, 6])
            c["raw"] = rng.random() < 0.3
            if rng.random() < 0.25:
                # later data with as many rows as the training data (a second sample of the same size): what was
                # returned for the training data is still the training result afterwards
                c["ys"] = [str(Fraction(v) + Fraction(rng.randint(1, 5), 2)) for v in xs]
        cases.append(c)
    return cases


def key(c):
    return c


def describe(c, mo, obs):
    return f"{c['t']}/{'ok' if obs and obs[0] == 'ok' else 'rejected'}"


def nontrivial(c, mo, obs):
    return True


def _f2q(x):
    fr = Fraction(float(x))
    return f"{fr.numerator}/{fr.denominator}" if fr.denominator != 1 else str(fr.numerator)


def _opt(x):
    return "none" if x is None else str(x)


def _poly_norms(xs, d):
    """exact norms2 of the three-term recurrence (to hand the float square roots to the model)"""
    x = [Fraction(v) for v in xs]
    n = len(x)
    P_prev = [Fraction(0)] * n
    P_cur = [Fraction(1)] * n
    norms = [sum(p * p for p in P_cur)]
    for i in range(1, d + 1):
        if norms[-1] == 0:
            return None
        alpha = sum(a * p * p for a, p in zip(x, P_cur)) / norms[-1]
        beta = norms[-1] / norms[-2] if i >= 2 else Fraction(0)
        P_next = [(a - alpha) * p - beta * q for a, p, q in zip(x, P_cur, P_prev)]
        P_prev, P_cur = P_cur, P_next
        norms.append(sum(p * p for p in P_cur))
    return norms


def model_cmd(c):
    import math
    import core
    import numpy as np
    t = c["t"]
    if t == "center":
        return core.sshow(["center", c["xs"], c["ys"]])
    if t == "scale":
        s = float(np.std(np.array([float(Fraction(v)) for v in c["xs"]])))
        return core.sshow(["scale", c["xs"], _f2q(s), c["ys"]])
    if t == "bs":
        return core.sshow(["bs", c["xs"], _opt(c["df"]), "none" if not c.get("knots") else list(c["knots"]), str(c["degree"]),
                           "true" if c["intercept"] else "false", _opt(c["lower"]), _opt(c["upper"]), c["ys"]])
    norms = _poly_norms(c["xs"], c["degree"])
    if c["raw"] or norms is None:
        sq = []
    else:
        sq = ["pos"] + [_f2q(math.sqrt(float(v))) for v in norms]
    return core.sshow(["poly", c["xs"], str(c["degree"]), "true" if c["raw"] else "false", sq, c["ys"]])


def _call(c):
    import numpy as np
    from formulae.transforms import BSpline, Center, Polynomial, Scale
    xs = np.array([float(Fraction(v)) for v in c["xs"]])
    ys = np.array([float(Fraction(v)) for v in c["ys"]])
    t = c["t"]
    if t == "center":
        o = Center()
        return o, o(xs), o(ys)
    if t == "scale":
        o = Scale()
        return o, o(xs), o(ys)
    if t == "bs":
        o = BSpline()
        kw = dict(df=c["df"], degree=c["degree"], intercept=c["intercept"],
                  knots=None if not c.get("knots") else [float(Fraction(v)) for v in c["knots"]],
                  lower_bound=None if c["lower"] is None else float(Fraction(c["lower"])),
                  upper_bound=None if c["upper"] is None else float(Fraction(c["upper"])))
        return o, o(xs, **kw), o(ys, **kw)
    o = Polynomial()
    a = o(xs, degree=c["degree"], raw=c["raw"])
    a_then = np.array(a, copy=True)
    b = o(ys, degree=c["degree"], raw=c["raw"])
    if a.shape == a_then.shape and not np.array_equal(a, a_then, equal_nan=True):
        raise AssertionError("the array returned for the training data changed when the transform was applied to later data")
    return o, a, b


def _via_formula(c, xs, ys, A, B):
    import warnings
    import numpy as np
    import pandas as pd
    from formulae import design_matrices
    t = c["t"]
    if t == "bs":
        if c.get("knots") or c["lower"] is not None or c["upper"] is not None or c["df"] is None:
            return None
        call = f"bs(x, df={c['df']}, degree={c['degree']}, intercept={c['intercept']})"
    elif t == "poly":
        call = f"poly(x, {c['degree']}, raw={c['raw']})"
    else:
        call = f"{t}(x)"
    try:
        with warnings.catch_warnings():
            warnings.simplefilter("ignore")
            # whole-number training data arrive as an INTEGER column (the usual case for counts, ages, years); what
            # is computed on later, fractional data does not depend on the dtype the training column happened to have
            xcol = xs.astype("int64") if (np.all(xs == np.round(xs)) and np.abs(xs).max() < 1e9) else xs
            # the caller's namespace holds callables NAMED like the transforms (from sklearn.preprocessing import
            # scale, a home-made center): the built-in, stateful transforms are found first
            shadow = {"center": (lambda v: v - np.mean(v)), "scale": (lambda v: (v - np.mean(v)) / np.std(v)),
                      "standardize": (lambda v: v * 0), "bs": (lambda v, **k: v), "poly": (lambda v, *a, **k: v)}
            d = design_matrices(f"y ~ 0 + {call}", pd.DataFrame({"y": np.zeros(len(xs)), "x": xcol}),
                                extra_namespace=shadow if len(xs) % 2 == 0 else None)
            M1 = np.asarray(d.common.design_matrix, dtype=float)
            M2 = np.asarray(d.common.evaluate_new_data(pd.DataFrame({"x": ys})).design_matrix, dtype=float)
    except Exception:  # noqa
        return None
    tol = 1e-6 if t == "poly" else 1e-8
    scale_ = 1 + float(np.max(np.abs(xs)))
    for name, got, want in (("training", M1, A), ("later", M2, B)):
        want = np.asarray(want, dtype=float).reshape(got.shape[0], -1)
        if want.shape != got.shape or not (np.all(np.isfinite(want)) and np.all(np.isfinite(got))):
            return None
        if not np.allclose(got, want, rtol=tol, atol=tol * scale_):
            return (f"{c}: '{call}' in a formula gives other values on the {name} data than the transform fitted "
                    f"directly on the training data (first row {got[0][:3].tolist()} against {want[0][:3].tolist()})")
    return None


def _recall(o, c, v):
    """the fitted object o applied once more, to the values v"""
    t = c["t"]
    if t in ("center", "scale"):
        return o(v)
    if t == "bs":
        return o(v, df=c["df"], degree=c["degree"], intercept=c["intercept"],
                 knots=None if not c.get("knots") else [float(Fraction(k)) for k in c["knots"]],
                 lower_bound=None if c["lower"] is None else float(Fraction(c["lower"])),
                 upper_bound=None if c["upper"] is None else float(Fraction(c["upper"])))
    return o(v, degree=c["degree"], raw=c["raw"])


def _mat(a):
    import numpy as np
    a = np.asarray(a, dtype=float)
    if a.ndim == 1:
        a = a[:, None]
    return [[repr(float(v)) for v in r] for r in a]


def impl_obs(c):
    import warnings
    try:
        with warnings.catch_warnings():
            warnings.simplefilter("ignore")
            o, a, b = _call(c)
    except Exception as e:  # noqa
        return ["err", type(e).__name__, str(e)[:100]]
    return ["ok", _mat(a), _mat(b)]


def _poly_tol(c):
    """orthogonal polynomials by QR of a Vandermonde matrix: the rounding error of the implementation grows
    with the condition number of that matrix (the model is exact), so the comparison allows 100 eps cond"""
    import numpy as np
    x = np.array([float(Fraction(v)) for v in c["xs"]])
    try:
        xc = x - x.mean()
        # in the unit in which the spread is 1: the recurrence of the implementation is invariant under a change
        # of unit, so is its rounding error (the raw Vandermonde matrix of data with a small spread is not)
        xc = xc / (np.abs(xc).max() or 1.0)
        cond = float(np.linalg.cond(np.vander(xc, int(c["degree"]) + 1)))
        # the recurrence multiplies by the RAW x and subtracts alpha ~ mean(x): data far from the origin (an offset of
        # 30000 spreads) lose log10(offset / spread) digits at every degree (soak seed 92: 1.4e-8 at degree 4)
        spread = float(np.abs(x - x.mean()).max()) or 1.0
        cond *= 10.0 * (1.0 + abs(float(x.mean())) / spread)
    except Exception:  # noqa
        return TOL
    if not np.isfinite(cond):
        return TOL
    return max(TOL, 100 * 2.3e-16 * cond)


def _close(m, i, tol=None):
    import math
    tol = tol or TOL
    if len(m) != len(i):
        return False
    for rm, ri in zip(m, i):
        rm = rm if isinstance(rm, list) else [rm]
        if len(rm) != len(ri):
            return False
        for a, b in zip(rm, ri):
            x = float(Fraction(a))
            y = float(b)
            if math.isnan(y) or math.isinf(y):
                return None
            if abs(x - y) > tol * (1 + abs(x)):
                return False
    return True


def compare(c, mo, obs):
    t = c["t"]
    if t == "poly" and not c["raw"] and len(set(Fraction(v) for v in c["xs"])) < c["degree"] + 1:
        return None  # fewer distinct abscissae than the degree needs: 0/0 in both (numpy: nan / noise)
    if mo[0] in ("bad-args", "bad-command", "driver-error"):
        return f"{c}: model answered {mo}"[:300]
    # degenerate inputs (zero variance, too few distinct points) divide by zero: numpy yields nan/inf
    if mo[0] != obs[0]:
        if obs[0] == "ok" and any(("nan" in v or "inf" in v) for r in obs[1] for v in r):
            return None
        return f"{c}: model {mo[:2]} implementation {obs[:3]}"[:400]
    if mo[0] != "ok":
        return None
    body = mo[1]
    if t in ("center", "scale"):
        ma, mb = [[v] for v in body[1]], [[v] for v in body[2]]
    elif t == "bs":
        ra, rb = body[1], body[2]
        if ra[0] != "ok" or rb[0] != "ok":
            return None
        ma, mb = ra[1], rb[1]
    else:
        ma, mb = body[0], body[1]
        if isinstance(ma, list) and ma and ma[0] in ("ok", "err"):
            if ma[0] != "ok" or mb[0] != "ok":
                return None
            ma, mb = ma[1], mb[1]
    skip = set()
    if t == "bs" and not c.get("knots"):
        # quantile knots are exact rationals in the model and rounded floats in numpy.  The basis is
        # discontinuous at a knot of multiplicity >= degree + 1 (an inner knot that ties with a boundary
        # knot or, for low degrees, with other inner knots): at such an abscissa a one-ulp difference in
        # the knot decides the value, so the row is not comparable (the oracle still judges it).
        ks = [Fraction(v) for v in body[0]]
        d = int(c["degree"])
        inner = ks[d + 1:len(ks) - (d + 1)]
        skip = {v for v in set(inner) if ks.count(v) >= d + 1}
        # an inner knot that ties with a boundary knot leaves an end interval of zero length: beyond that boundary
        # scipy extrapolates the polynomial piece of that empty interval (0/0: values like 1e47), the model has no
        # such piece -- rows outside the boundary knots are not comparable then (thorough pass #9)
        outside = (ks[0], ks[-1]) if any(v in (ks[0], ks[-1]) for v in inner) else None
    else:
        outside = None
    for name, m, i, xs_ in (("training", ma, obs[1], c["xs"]), ("later", mb, obs[2], c["ys"])):
        if (skip or outside) and len(m) == len(i) == len(xs_):
            keep = [j for j, v in enumerate(xs_) if Fraction(v) not in skip
                    and not (outside and (Fraction(v) < outside[0] or Fraction(v) > outside[1]))]
            m, i = [m[j] for j in keep], [i[j] for j in keep]
        r = _close(m, i, _poly_tol(c) if (t == "poly" and not c["raw"]) else None)
        if r is None:
            return None
        if not r:
            return f"{c}: {name} data: model {str(m)[:150]} implementation {str(i)[:150]}"
    return None


def oracle(c):
    import warnings
    import numpy as np
    t = c["t"]
    xs = np.array([float(Fraction(v)) for v in c["xs"]])
    ys = np.array([float(Fraction(v)) for v in c["ys"]])
    n = len(xs)
    try:
        with warnings.catch_warnings():
            warnings.simplefilter("ignore")
            o, A, B = _call(c)
    except Exception as e:
        if t == "bs":
            return None if isinstance(e, ValueError) else f"{c}: bs refuses with {type(e).__name__} instead of ValueError"
        return f"{c}: {t} raises {type(e).__name__}: {str(e)[:60]}"
    A = np.asarray(A, dtype=float)
    B = np.asarray(B, dtype=float)
    scale_ = 1 + np.max(np.abs(xs))
    # through a formula the transform is fitted once, by design_matrices, and evaluate_new_data applies THAT fit
    msg = _via_formula(c, xs, ys, A, B)
    if msg:
        return msg
    # the fitted transform is a function of the value alone: a later value that also occurred in training gets
    # its training row, and what a later value gets does not depend on the other later values
    if A.ndim == B.ndim and A.shape[1:] == B.shape[1:] and np.all(np.isfinite(A)) and np.all(np.isfinite(B)):
        tol = 1e-6 if t == "poly" else 1e-8
        for j, yv in enumerate(ys):
            hit = np.flatnonzero(xs == yv)
            if len(hit) and not np.allclose(B[j], A[hit[0]], rtol=tol, atol=tol * scale_):
                return (f"{c}: later value {yv} also occurs in the training data but is transformed to "
                        f"{np.ravel(B[j])[:3].tolist()} instead of its training row {np.ravel(A[hit[0]])[:3].tolist()}")
        if len(ys) > 1:
            try:
                with warnings.catch_warnings():
                    warnings.simplefilter("ignore")
                    B1 = np.asarray(_recall(o, c, ys[:1]), dtype=float)
                if B1.shape[1:] == B.shape[1:] and not np.allclose(B1[0], B[0], rtol=tol, atol=tol * scale_):
                    return f"{c}: the transform of the later value {ys[0]} depends on the other later values"
            except Exception:  # noqa
                pass
    if t == "center":
        if abs(A.mean()) > 1e-9 * scale_:
            return f"{c}: center(x) has mean {A.mean()}"
        if not np.allclose(B, ys - xs.mean(), rtol=1e-9, atol=1e-9 * scale_):
            return f"{c}: center on later data is not x - mean(training)"
    elif t == "scale":
        if np.std(xs) == 0:
            return None
        if abs(A.mean()) > 1e-8 or abs(A.std() - 1) > 1e-8:
            return f"{c}: scale(x) has mean {A.mean()} and sd {A.std()}"
        if not np.allclose(B, (ys - xs.mean()) / xs.std(), rtol=1e-8, atol=1e-8):
            return f"{c}: scale on later data is not (x - mean)/sd of the training data"
    elif t == "bs":
        deg, ic, df = c["degree"], c["intercept"], c["df"]
        kn = None if not c.get("knots") else [float(Fraction(v)) for v in c["knots"]]
        if deg < 0 or (df is None and kn is None):
            return f"{c}: invalid bs parameters were accepted"
        if df is not None and df - (deg + 1) + (0 if ic else 1) < 0:
            return f"{c}: df too small for the degree but accepted"
        if df is not None and kn is not None and len(kn) != df - (deg + 1) + (0 if ic else 1):
            return f"{c}: df and the number of knots disagree but were accepted"
        lo = xs.min() if c["lower"] is None else float(Fraction(c["lower"]))
        hi = xs.max() if c["upper"] is None else float(Fraction(c["upper"]))
        if lo > hi:
            return f"{c}: lower_bound > upper_bound accepted"
        ncols = df if df is not None else len(kn) + deg + (1 if ic else 0)
        if A.shape != (n, ncols):
            return f"{c}: bs returns {A.shape[1]} columns, expected {ncols}"
        if kn is not None and (min(kn) < lo or max(kn) > hi):
            return f"{c}: knots outside the boundary knots were accepted"
        if kn is not None:
            # the order in which the knots are listed cannot matter
            from formulae.transforms import BSpline
            ref = BSpline()(xs, df=df, knots=sorted(kn), degree=deg, intercept=ic,
                            lower_bound=None if c["lower"] is None else float(Fraction(c["lower"])),
                            upper_bound=None if c["upper"] is None else float(Fraction(c["upper"])))
            if not np.allclose(A, ref, rtol=1e-9, atol=1e-9):
                return f"{c}: bs with knots {kn} differs from bs with the same knots sorted"
        knots = np.asarray(o._knots)
        inner = knots[deg + 1: len(knots) - deg - 1]
        tag = "[class:bs_knot_on_boundary] " if (len(inner) and (np.any(inner >= hi) or np.any(inner <= lo))) or lo == hi else ""
        for name, M, x in (("training", A, xs), ("later", B, ys)):
            inside = (x >= lo) & (x <= hi)
            if np.any(M[inside] < -1e-9):
                return f"{tag}{c}: bs has a negative entry inside the boundary knots ({name} data)"
            if ic and np.any(np.abs(M[inside].sum(axis=1) - 1) > 1e-8):
                i = int(np.flatnonzero(np.abs(M.sum(axis=1) - 1) > 1e-8)[0])
                return (f"{tag}{c}: bs with intercept sums to {M[i].sum()} at x={x[i]} ({name} data), "
                        f"boundary knots [{lo}, {hi}], inner knots {inner.tolist()}")
    else:
        d, raw = c["degree"], c["raw"]
        if raw:
            P = np.column_stack([xs ** k for k in range(1, d + 1)])
            if A.shape != P.shape or not np.allclose(A, P, rtol=1e-12, atol=0):
                return f"{c}: poly raw=True is not the powers of x"
            Py = np.column_stack([ys ** k for k in range(1, d + 1)])
            if not np.allclose(B, Py, rtol=1e-12, atol=0):
                return f"{c}: poly raw=True on later data is not the powers"
            return None
        if len(set(xs.tolist())) < d + 1:
            return None  # fewer distinct points than the degree needs: undefined
        if A.shape != (n, d):
            return f"{c}: poly returns shape {A.shape}"
        xc = (xs - xs.mean()) / (np.abs(xs - xs.mean()).max() or 1.0)   # the unit of x does not matter
        cond = np.linalg.cond(np.column_stack([xc ** k for k in range(0, d + 1)]))
        if cond > 1e6:
            return None  # ill-conditioned: floating point, not the contract
        G = A.T @ A
        if not np.allclose(G, np.eye(d), atol=1e-6):
            return f"{c}: poly columns are not orthonormal (Gram matrix deviates by {np.abs(G - np.eye(d)).max()})"
        if np.abs(A.sum(axis=0)).max() > 1e-6:
            return f"{c}: poly columns are not orthogonal to the constant"
        V = np.column_stack([np.ones(n)] + [xc ** k for k in range(1, d + 1)])
        if np.linalg.matrix_rank(np.column_stack([V, A]), tol=1e-7) != d + 1:
            return f"{c}: poly columns do not span the same space as x..x^d"
    return None
