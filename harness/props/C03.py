"""C03 -- the common-effects matrix has full column rank and spans exactly the model space."""
import itertools
import re

import dm
import gen_dm
from props import _design as D
from props._design import describe, nontrivial, unsupported, prepare, CASE_TIMEOUT  # noqa: F401

ID = "C03"
PROP_FILES = ["Properties/C03.v", "Properties/C03_rank.v", "Properties/C03_numeric_part.v"]
THEOREMS = ["C03_pick_contrasts_partition", "C03_covered_exactly_once", "C03_absorb_never_fails",
            "C03_simplify_preserves", "C03_example_two_factor", "C03_refuted_single_coding"]
ASSUMPTIONS = ["complete-factorial replicated data; numeric columns are random integers (general position)",
               "rank of the oracle: numpy.linalg.matrix_rank on small well-conditioned matrices"]
RULE = ("every family of categorical terms over {f, g, h} and (thorough: every, quick: 300 sampled) family over four "
        "two-level factors {f, g, h, c}, with and without intercept, in a random term and factor order; plus "
        "families of <= 3 terms over {f, g, h, x, z} in every term order and factor order (sampled in the quick "
        "tier), with and without intercept, atoms swapped among variable / C / T / S / scale / poly / bs, on "
        "replicated complete-factorial frames with random level counts; non-trivial = design built; "
        "distinct = (formula, level counts)")
EXHAUSTIVE = {"quick": False, "thorough": False}

VARS = ["f", "g", "h", "x", "z"]
SWAPS = {
    "f": ["f", "C(f)", "T(f, 'b')", "S(f)", "C(f, Sum)"],
    "g": ["g", "C(g)", "S(g)", "T(g, 'q')"],
    "h": ["h", "C(h)", "S(h)"],
    "x": ["x", "scale(x)", "center(x)", "poly(x, 2)", "bs(x, df=4)", "I(x + 1)"],
    "z": ["z", "scale(z)", "I(z * 2)", "poly(z, 2)"],
}


def _all_terms():
    out = []
    for r in (1, 2, 3):
        for combo in itertools.permutations(VARS, r):
            out.append(combo)
    return out


def _lattice(rng, tier):
    """families of categorical terms as SETS of subsets of the factors (the quantifier's 'all families over
    four two-level factors'): every family over {f, g, h} (127 x with/without intercept) in both tiers; over
    {f, g, h, c} a sample in the quick tier and every one of the 32767 x 2 in the thorough tier.  Term order
    and factor order are drawn at random per family."""
    out = []

    def fams(vs):
        subs = [s for r in range(1, len(vs) + 1) for s in itertools.combinations(vs, r)]
        for mask in range(1, 2 ** len(subs)):
            yield [subs[i] for i in range(len(subs)) if mask >> i & 1]

    def emit(fam, vs, icpt, two_level):
        fam = [list(t) for t in fam]
        rng.shuffle(fam)
        for t in fam:
            rng.shuffle(t)
        f = "y ~ " + ("" if icpt else "0 + ") + " + ".join(":".join(t) for t in fam)
        nlev = {v: (2 if two_level else rng.choice([2, 3])) for v in vs}
        fr = gen_dm.make_frame(rng, factorial=True, cats=list(vs), nlev=nlev, extra_cols=False, reps=2)
        out.append({"formula": f, "frame": fr, "na": "drop", "kind": f"lattice{len(vs)}",
                    "family": fam, "icpt": icpt})

    for fam in fams(("f", "g", "h")):
        for icpt in (True, False):
            emit(fam, ("f", "g", "h"), icpt, False)
    # families over categorical subsets of {f, g} each multiplied by one numeric part (x, or x:z): the helper
    # terms of a numeric-categorical interaction carry ALL its numeric factors
    for numpart in (("x",), ("x", "z")):
        subs = [(), ("f",), ("g",), ("f", "g")]
        for mask in range(1, 2 ** len(subs)):
            fam0 = [subs[i] for i in range(len(subs)) if mask >> i & 1]
            for icpt in (True, False):
                fam = []
                for t in fam0:
                    cat = list(t)
                    rng.shuffle(cat)
                    # the numeric factors keep their relative order (another order is the listed KF-C03-3)
                    pos = sorted(rng.sample(range(len(cat) + len(numpart)), len(numpart)))
                    term, ci, ni = [], 0, 0
                    for k in range(len(cat) + len(numpart)):
                        if ni < len(numpart) and k == pos[ni]:
                            term.append(numpart[ni]); ni += 1
                        else:
                            term.append(cat[ci]); ci += 1
                    fam.append(term)
                rng.shuffle(fam)
                f = "y ~ " + ("" if icpt else "0 + ") + " + ".join(":".join(t) for t in fam)
                nlev = {"f": rng.choice([2, 3]), "g": rng.choice([2, 3]), "h": 2}
                fr = gen_dm.make_frame(rng, factorial=True, cats=["f", "g", "h"], nlev=nlev, extra_cols=False, reps=4)
                out.append({"formula": f, "frame": fr, "na": "drop", "kind": "numlattice", "family": fam, "icpt": icpt})
    # a categorical variable with exactly ONE observed level: wherever reduced coding is chosen it contributes no
    # column at all (its indicator is the constant / the sum of another factor's indicators)
    for fml, icpt in [("y ~ h", True), ("y ~ f + h", True), ("y ~ 0 + f + h", False), ("y ~ x + f + C(h)", True),
                      ("y ~ g + f + T(h)", True), ("y ~ 0 + h", False), ("y ~ f + S(h)", True)]:
        fr = gen_dm.make_frame(rng, factorial=True, cats=["f", "g"], nlev={"f": 3, "g": 2, "h": 1}, extra_cols=False, reps=3)
        for col in fr["columns"]:
            if col["name"] == "h":
                col["values"] = ["u"] * len(col["values"])
        terms = [t.strip() for t in fml.split("~")[1].split("+") if t.strip() not in ("0",)]
        fam = [[re.sub(r"^[A-Za-z]*\(|\)$", "", t)] for t in terms]
        out.append({"formula": fml, "frame": fr, "na": "drop", "kind": "one-level", "family": fam, "icpt": icpt})
    # ONE encoding object of the caller's namespace (enc = Treatment(), senc = Sum()) named by several atoms of a
    # formula: the same object is asked for the reduced coding in one place and for the full coding in another
    shared = ["C(f, enc) + C(f, enc):g", "0 + C(g, enc) + C(f, enc):C(g, enc)", "C(f, senc) + C(f, senc):g",
              "g + C(f, enc):g", "C(g, enc) + f:C(g, enc)", "0 + C(g, senc) + C(f, senc):C(g, senc)", "C(f, enc):g",
              "x + C(f, enc):x + C(f, enc)", "0 + C(f, enc):h + C(f, enc):g", "h + C(f, senc) + C(f, senc):h"]
    for fml in shared:
        for _ in range(3 if tier == "thorough" else 1):
            nlev = {"f": rng.choice([2, 3]), "g": rng.choice([2, 3]), "h": 2}
            fr = gen_dm.make_frame(rng, factorial=True, cats=["f", "g", "h"], nlev=nlev, extra_cols=False, reps=3)
            icpt = not fml.startswith("0 +")
            fam = [[re.sub(r"^[A-Za-z]*\(|[,)].*$", "", a) if "(" in a else a for a in D.split_label(t.strip())]
                   for t in fml.split("+") if t.strip() != "0"]
            out.append({"formula": "y ~ " + fml, "frame": fr, "na": "drop", "kind": "shared-encoder", "family": fam,
                        "icpt": icpt, "shared_enc": True})
    # an interaction is a SET of factors: a factor written twice in one term counts once (f:g:f is f:g, x:f:x is f:x)
    for fml, fam, icpt in [("y ~ f:g:f", [["f", "g"]], True), ("y ~ 0 + f:g:f", [["f", "g"]], False),
                           ("y ~ g + g:f:g", [["g"], ["g", "f"]], True), ("y ~ (f + g):f", [["f"], ["g", "f"]], True),
                           ("y ~ x + f:x:f", [["x"], ["f", "x"]], True), ("y ~ 0 + x:f:x", [["x", "f"]], False),
                           ("y ~ f + f:g:h:g", [["f"], ["f", "g", "h"]], True)]:
        nlev = {"f": rng.choice([2, 3]), "g": rng.choice([2, 3]), "h": 2}
        fr = gen_dm.make_frame(rng, factorial=True, cats=["f", "g", "h"], nlev=nlev, extra_cols=False, reps=3)
        out.append({"formula": fml, "frame": fr, "na": "drop", "kind": "repeated-factor", "family": fam, "icpt": icpt,
                    "names": [":".join(t) for t in fam]})
    four = list(fams(("f", "g", "h", "c")))
    if tier != "thorough":
        four = rng.sample(four, 300)
    for fam in four:
        for icpt in ((True, False) if tier == "thorough" else (rng.random() < 0.6,)):
            emit(fam, ("f", "g", "h", "c"), icpt, True)
    return out


def gen(rng, tier):
    terms = _all_terms()
    cases = _lattice(rng, tier)
    n0 = len(cases)
    n = n0 + (30000 if tier == "thorough" else 1200)
    seen = set()
    tries = 0
    while len(cases) < n and tries < 10 * n:
        tries += 1
        k = rng.choice([1, 2, 2, 3, 3])
        fam = rng.sample(terms, k)
        if rng.random() < 0.08:
            # two numeric-categorical interactions over the same numerics, written in different orders
            c1, c2 = rng.sample(["f", "g", "h"], 2)
            t1 = [c1, "x", "z"]
            t2 = [c2, "z", "x"]
            rng.shuffle(t1)
            if rng.random() < 0.5:
                rng.shuffle(t2)
            fam = [tuple(t1), tuple(t2)] + ([rng.choice(terms)] if rng.random() < 0.3 else [])
        swap = rng.random() < 0.3
        # one spelling per variable within a formula (the analysis identifies factors by name)
        spell = {v: (rng.choice(SWAPS[v]) if swap else v) for v in VARS}
        txt = [":".join(spell[v] for v in t) for t in fam]
        icpt = rng.random() < 0.6
        f = "y ~ " + ("" if icpt else "0 + ") + " + ".join(txt)
        nlev = {"f": rng.choice([2, 3, 4]), "g": rng.choice([2, 3]), "h": rng.choice([2, 3])}
        key_ = (f, tuple(sorted(nlev.items())))
        if key_ in seen:
            continue
        seen.add(key_)
        wide = "bs(" in f or "poly(" in f
        if wide:
            nlev = {"f": 2, "g": 2, "h": rng.choice([2, 3])}
        fr = gen_dm.make_frame(rng, factorial=True, cats=["f", "g", "h"], nlev=nlev, extra_cols=False,
                               reps=8 if wide else None)
        # numeric columns in general position
        nrows = len(fr["columns"][0]["values"])
        for c in fr["columns"]:
            if c["name"] == "x":
                c["values"] = [str(rng.randint(-40, 40)) for _ in range(nrows)]
            if c["name"] == "z":
                c["values"] = [rng.randint(1, 60) for _ in range(nrows)]
        kind_ = "swap" if swap else "plain"
        if rng.random() < 0.08:
            # a level that is a falsy Python value (the empty string) is a level like any other
            for c in fr["columns"]:
                if c["name"] in ("f", "g"):
                    c["values"] = ["" if v in ("a", "p") else v for v in c["values"]]
            kind_ += "/empty-string-level"
        if rng.random() < 0.08:
            # a column the formula does not use, missing on every row of one cell: no observation is lost for that
            cell = (fr["columns"][4]["values"][0], fr["columns"][5]["values"][0])
            fr["columns"].append(dm.col("unused_note", "float", [None if (a_, b_) == cell else "1" for a_, b_ in
                                                                  zip(fr["columns"][4]["values"], fr["columns"][5]["values"])]))
            kind_ += "/unused-missing-cell"
        cases.append({"formula": f, "frame": fr, "na": "drop", "kind": kind_,
                      "family": [list(t) for t in fam], "icpt": icpt})
    return cases


def key(c):
    return [c["formula"], [len(set(col["values"])) for col in c["frame"]["columns"][4:7]]]


def _indicators(df, var):
    import numpy as np
    lv = D.levels_of(df, var)
    s = df[var].astype(str).to_numpy()
    return np.column_stack([(s == l).astype(float) for l in lv])


def _numeric_cols(df, atom):
    """columns of a numeric atom, computed WITHOUT the library wherever the atom has a closed form (the
    reference must not inherit a fault of the transform it is compared with); bs: the library, on its own"""
    import numpy as np
    from formulae import design_matrices
    m = re.fullmatch(r"(x|z)|scale\((x|z)\)|center\((x|z)\)|poly\((x|z), (\d)\)|I\((x|z) ([+*]) (\d)\)", atom)
    if m:
        g = m.groups()
        if g[0]:
            return df[g[0]].to_numpy(dtype=float)[:, None]
        if g[1]:
            v = df[g[1]].to_numpy(dtype=float)
            return ((v - v.mean()) / v.std())[:, None]
        if g[2]:
            v = df[g[2]].to_numpy(dtype=float)
            return (v - v.mean())[:, None]
        if g[3]:
            v = df[g[3]].to_numpy(dtype=float)
            d = int(g[4])
            q, _ = np.linalg.qr(np.vander(v - v.mean(), d + 1, increasing=True))
            return q[:, 1:]
        v = df[g[5]].to_numpy(dtype=float)
        return (v + int(g[7]) if g[6] == "+" else v * int(g[7]))[:, None]
    M = np.asarray(design_matrices(f"y ~ 0 + {atom}", df).common.design_matrix, dtype=float)
    return M


def reference_matrix(c, df, names):
    """the model space: every term coded with complete indicator sets times its numeric factors"""
    import numpy as np
    n = len(df)
    blocks = []
    if c["icpt"]:
        blocks.append(np.ones((n, 1)))
    for tname in names:
        cols = np.ones((n, 1))
        for atom in D.split_label(tname):
            var = re.sub(r"^[A-Za-z]*\(|[,)].*$", "", atom) if "(" in atom else atom
            var = var.split()[0]
            if var in ("f", "g", "h", "c"):
                B = _indicators(df, var)
            else:
                B = _numeric_cols(df, atom)
            cols = np.column_stack([cols[:, [i]] * B[:, [j]] for i in range(cols.shape[1]) for j in range(B.shape[1])])
        blocks.append(cols)
    return np.column_stack(blocks)


def _ns(c):
    if not c.get("shared_enc"):
        return None
    from formulae.categorical import Sum, Treatment
    return {"enc": Treatment(), "senc": Sum()}


def impl_obs(c):
    if c.get("shared_enc"):
        try:
            from formulae import design_matrices
            return ["ok", dm.observe_design(design_matrices(c["formula"], dm.to_pandas(c["frame"]), extra_namespace=_ns(c)))]
        except Exception as e:  # noqa
            return ["err", type(e).__name__, str(e)[:160]]
    return D.impl_obs(c)


def model_cmd(c):
    import core
    if c.get("shared_enc"):
        # for the model: the same codings named as classes (the comparison skips the term names)
        c = dict(c, formula=c["formula"].replace("senc", "Sum").replace("enc", "Treatment"))
    return core.sshow(["c03", c["formula"], dm.frame_sexp(c["frame"]), "drop", dm.extra_sexp(c.get("extra"))])


def compare(c, mo, obs):
    if c.get("shared_enc"):
        # same design up to the spelling of the coding argument in the term names
        obs = [obs[0]] + [[obs[1][0], [[t[0].replace("senc", "Sum").replace("enc", "Treatment")] + t[1:] for t in obs[1][1]],
                           obs[1][2]]] if obs and obs[0] == "ok" else obs
        if obs and obs[0] == "ok":
            for t in obs[1][1]:
                if t[2] is not None:
                    t[2] = [l.replace("senc", "Sum").replace("enc", "Treatment") for l in t[2]]
    return D.compare(c, mo[0], obs)


def describe(c, mo, obs):  # noqa: F811
    return D.describe(c, mo[0] if mo else mo, obs)


def nontrivial(c, mo, obs):  # noqa: F811
    return D.nontrivial(c, mo[0] if mo else mo, obs)


def model_class(c, mo):
    """class of the listed finding KF-C03-2, decided by the extracted model (Design.coding_counts):
    some term does not receive exactly one coding (Model.eval applies encodings[name][0] only)"""
    diag = mo[1]
    if diag[0] != "ok":
        return "one_coding_per_term" if diag[1] in ("Index",) else None
    first, second = diag[1]
    if any(int(n) != 1 for _, n in second):
        return "one_coding_per_term"
    # helper terms inserted for a term with several codings change the set of terms that are coded;
    # the formula's own terms must each have received exactly one coding in the FIRST analysis too,
    # unless every extra coding became a helper term of its own (then the second analysis is clean)
    # KF-C03-3: the numeric part of a numeric-categorical interaction is matched by the joined
    # string of its numeric component names, in the order they are written in that term
    # (only the look-up of the PURE numeric term goes by name; mixed terms are grouped by the set
    # of their numeric components, so two mixed terms spelled differently are fine)
    nums = [[v for v in t if v in ("x", "z")] for t in c["family"]]
    cats = [[v for v in t if v not in ("x", "z")] for t in c["family"]]
    for i, (n1, c1) in enumerate(zip(nums, cats)):
        if len(n1) >= 2 and c1:
            for j, (n2, c2) in enumerate(zip(nums, cats)):
                if i != j and not c2 and sorted(n1) == sorted(n2) and n1 != n2:
                    return "numeric_part_spelling"
    return None


def _classify(formula):
    """syntactic classes of the listed findings"""
    rhs = formula.split("~", 1)[1]
    terms = [t.strip() for t in re.split(r"\+", rhs) if t.strip() not in ("0", "1")]
    sets = [frozenset(re.sub(r"^[A-Za-z]*\(|[,)].*$", "", a) if "(" in a else a for a in D.split_label(t)) for t in terms]
    cats = [frozenset(v for v in s if v in ("f", "g", "h")) for s in sets]
    nums = [tuple(v for v in [re.sub(r"^[A-Za-z]*\(|[,)].*$", "", a) if "(" in a else a for a in D.split_label(t)]
                  if v in ("x", "z")) for t in terms]
    return sets, cats, nums


def _generic(df, c):
    """the same frame with the numeric columns replaced by pseudo-random reals: 'numeric columns in
    general position' holds with probability one (small integers collide within cells)"""
    import zlib
    import numpy as np
    rng = np.random.default_rng(zlib.crc32(c["formula"].encode()) + len(df))
    out = df.copy()
    for col in ("x", "z", "w"):
        if col in out.columns:
            out[col] = rng.normal(size=len(out)) * 3 + rng.uniform(-5, 5)
    return out


def oracle(c):
    import numpy as np
    from formulae import design_matrices
    df = _generic(dm.to_pandas(c["frame"]), c)
    try:
        d = design_matrices(c["formula"], df, extra_namespace=_ns(c))
    except Exception as e:
        return f"{c['formula']!r} is rejected: {type(e).__name__}: {str(e)[:60]}"
    if d.common is None:
        return None
    X = np.asarray(d.common.design_matrix, dtype=float)
    if X.shape[0] != len(df):
        return (f"{c['formula']!r}: the design has {X.shape[0]} rows for {len(df)} observations that are complete in "
                f"every variable the formula uses")
    # the formula's own terms (extra helper terms added by formulae are not part of the model space)
    own = [":".join(t) for t in []]
    names = c.get("names") or [t.strip() for t in c["formula"].split("~", 1)[1].split("+") if t.strip() not in ("0", "1")]
    try:
        R = reference_matrix(c, df, names)
    except Exception:
        return None
    rx = np.linalg.matrix_rank(X)
    rr = np.linalg.matrix_rank(R)
    rj = np.linalg.matrix_rank(np.column_stack([X, R]))
    tag = ""
    if rx != X.shape[1]:
        return f"{tag}{c['formula']!r}: {X.shape[1]} columns of rank {rx} (terms {list(d.common.terms)})"
    if not (rx == rr == rj):
        return (f"{tag}{c['formula']!r}: column space has dimension {rx}, the model space {rr}, joint {rj} "
                f"(terms {list(d.common.terms)})")
    return None
