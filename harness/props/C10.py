"""C10 -- unseen levels and new groups at prediction follow the configured policy."""
import re

import dm
import gen_dm
from props import _design as D
from props._design import describe, nontrivial, unsupported, prepare, CASE_TIMEOUT  # noqa: F401

ID = "C10"
PROP_FILES = ["Properties/C10.v"]
THEOREMS = ["C10_unseen_zero_rows", "C10_unseen_error_iff", "C10_new_group_block", "C10_config_validates"]
ASSUMPTIONS = ["unseen levels are placed in str columns (f, g, h) and integer codes (k)"]
RULE = ("random designs x placements of unseen levels in predictors, effect and grouping variables x the three "
        "modes; non-trivial = design built and at least one unseen cell; distinct = (formula, frame head, mode, placement)")
EXHAUSTIVE = {"quick": False, "thorough": False}

MODES = ["error", "warning", "silent"]


def _formula(rng):
    terms = []
    for _ in range(rng.randint(1, 3)):
        atoms = []
        for _ in range(rng.choice([1, 1, 2, 3])):
            a = rng.choice(["x", "z", "f", "g", "h", "C(k)", "center(x)", "T(g, 'q')", "C(f, Sum)", "w"])
            if a not in atoms and not (a == "k" and "C(k)" in atoms):
                atoms.append(a)
        t = ":".join(atoms)
        if t not in terms:
            terms.append(t)
    rhs = " + ".join(terms)
    if rng.random() < 0.2:
        rhs = "0 + " + rhs
    if rng.random() < 0.6:
        eff = rng.choice(["1", "x", "0 + x", "f", "0 + f", "x + z", "x:f", "1 + x"])
        grp = rng.choice(["g", "g:h", "g + h", "h", "C(k)", "k"])
        rhs += f" + ({eff} | {grp})"
        if rng.random() < 0.3:
            rhs += f" + (z | {rng.choice(['g', 'h'])})"
    return "y ~ " + rhs


def _new_frame(rng, fr):
    n = len(fr["columns"][0]["values"])
    m = rng.randint(2, 8)
    idx = [rng.randrange(n) for _ in range(m)]
    new = dm.select_rows(fr, idx)
    placed = {}
    for c in new["columns"]:
        if c["name"] in ("f", "g", "h") and rng.random() < 0.5:
            rows = sorted(rng.sample(range(m), rng.randint(1, max(1, m // 2))))
            for r in rows:
                c["values"][r] = rng.choice(["NEW", "zzz", "A", "", ""])   # "" is a level like any other
            placed[c["name"]] = rows
        if c["name"] == "k" and rng.random() < 0.3:
            rows = sorted(rng.sample(range(m), 1))
            for r in rows:
                c["values"][r] = rng.choice([9, 0, 0])   # 0 never occurs in training (codes 2, 10, -3, ...)
            placed["k"] = rows
    # the new column as a pandas Categorical that DECLARES the training levels and the unseen ones (a column read
    # from a file with a fixed category list): what is unseen is decided by the values, not by the declaration
    if rng.random() < 0.35:
        for c in new["columns"]:
            if c["name"] in ("f", "g", "h") and c["type"] == "str":
                train = next(x for x in fr["columns"] if x["name"] == c["name"])["values"]
                cats = sorted(set(train) | set(c["values"]) | ({"ZZ-declared-only"} if rng.random() < 0.5 else set()))
                c["type"] = "cat"
                c["categories"] = cats
    # the new frame's index is not 0..m-1 in order (sorted / filtered / shuffled frames are the norm)
    r = rng.random()
    if r < 0.4:
        idx = list(range(m))
        rng.shuffle(idx)
        new["index"] = idx
    elif r < 0.6:
        new["index"] = sorted(rng.sample(range(100), m))
    return new, placed


def gen(rng, tier):
    n = 10000 if tier == "thorough" else 600
    cases = []
    for _ in range(n):
        fr = gen_dm.make_frame(rng)
        new, placed = _new_frame(rng, fr)
        cases.append({"formula": _formula(rng), "frame": fr, "na": "drop", "new": new, "placed": placed,
                      "mode": rng.choice(MODES), "kind": "random"})
    return cases


def key(c):
    return [c["formula"], c["frame"]["columns"][0]["values"][:6], c["mode"], c["placed"]]


def model_cmd(c):
    import core
    return core.sshow(["newdata", c["formula"], dm.frame_sexp(c["frame"]), "drop", [], c["mode"],
                       [dm.frame_sexp(c["new"])]])


def _eval(obj, df, mode):
    """evaluate_new_data under the given mode; returns (result or exception, formulae warnings)"""
    import warnings
    import formulae
    old = formulae.config["EVAL_UNSEEN_CATEGORIES"]
    # the value a configuration file / environment variable / CLI option delivers: an equal string that is
    # not the interned literal of the source code (a policy compared by identity would not recognise it)
    formulae.config["EVAL_UNSEEN_CATEGORIES"] = "".join(list(mode)) if len(df) % 2 == 0 else mode
    try:
        with warnings.catch_warnings(record=True) as w:
            warnings.simplefilter("always")
            try:
                res = obj.evaluate_new_data(df)
            except Exception as e:  # noqa
                res = e
        warned = any("not present in the" in str(x.message) for x in w)
    finally:
        formulae.config["EVAL_UNSEEN_CATEGORIES"] = old
    return res, warned


def impl_obs(c):
    try:
        d = dm.build(c)
    except Exception as e:  # noqa
        return ["err", type(e).__name__, str(e)[:120]]
    df = dm.to_pandas(c["new"])
    out = ["ok", dm.observe_design(d)]
    if d.common is None:
        out.append(["none"])
    else:
        r, w = _eval(d.common, df, c["mode"])
        out.append(["err", type(r).__name__] if isinstance(r, Exception) else ["ok", dm._rows(r.design_matrix), w])
    if d.group is None:
        out.append(["none"])
    else:
        r, w = _eval(d.group, df, c["mode"])
        if isinstance(r, Exception):
            out.append(["err", type(r).__name__])
        else:
            out.append(["ok", dm._rows(r.design_matrix),
                        [[k, v.start, v.stop] for k, v in r.slices.items()],
                        list(r.factors_with_new_levels), w])
    return out


def compare(c, mo, obs):
    if unsupported(mo):
        return None
    if mo[0] != obs[0]:
        return f"model {mo[:2]} / implementation {obs[:3]} on {c['formula']!r}"[:300]
    if mo[0] != "ok":
        return None
    d = dm.compare_design(mo[1], obs[1])
    if d:
        return f"{c['formula']!r} training: {d}"[:400]
    mc, mg = mo[2][0]
    ic, ig = obs[2], obs[3]
    for part, m, i in (("common", mc, ic), ("group", mg, ig)):
        if m[0] == "err" and m[1] == "Unsupported":
            continue
        if m[0] != i[0]:
            return f"{c['formula']!r} mode {c['mode']} {part}: model {m[:2]} impl {i[:2]}"[:300]
        if m[0] != "ok":
            continue
        if not dm.rows_eq(m[1][0], i[1]):
            return f"{c['formula']!r} mode {c['mode']} {part}: new matrices differ"
        if part == "common":
            if (m[1][1] == "true") != bool(i[2]):
                return f"{c['formula']!r} mode {c['mode']}: warning model {m[1][1]} impl {i[2]}"
        else:
            ms = [[s[0], int(s[1]), int(s[2])] for s in m[1][1]]
            if ms != i[2]:
                return f"{c['formula']!r}: slices model {ms} impl {i[2]}"
            if list(m[1][2]) != i[3]:
                return f"{c['formula']!r}: factors_with_new_levels model {m[1][2]} impl {i[3]}"
            if (m[1][3] == "true") != bool(i[4]):
                return f"{c['formula']!r} mode {c['mode']}: group warning model {m[1][3]} impl {i[4]}"
    return None


def _seen_frame(c):
    """the new frame with every unseen cell replaced by a level seen in training"""
    fixed = {"columns": [dict(col, values=list(col["values"])) for col in c["new"]["columns"]]}
    for col in fixed["columns"]:
        if col["name"] in c["placed"]:
            train = next(x for x in c["frame"]["columns"] if x["name"] == col["name"])["values"]
            for r in c["placed"][col["name"]]:
                col["values"][r] = train[0]
    return fixed


def oracle(c):
    import numpy as np
    import formulae
    try:
        d = dm.build(c)
    except Exception:
        return None
    mode = c["mode"]
    df = dm.to_pandas(c["new"])
    dfs = dm.to_pandas(_seen_frame(c))
    placed = c["placed"]
    # ---- common
    if d.common is not None:
        def catvars(name, t):
            """variables that the term uses as categorical predictors"""
            vs = set(getattr(t, "var_names", set()))
            return {v for v in vs if v in ("f", "g", "h") or (v == "k" and "C(k" in name)}

        used = set()
        for name_, t in d.common.terms.items():
            used |= catvars(name_, t)
        unseen_vars = [v for v in placed if v in used]
        res, warned = _eval(d.common, df, mode)
        if mode == "error":
            if unseen_vars and not isinstance(res, ValueError):
                return f"{c['formula']!r}: mode 'error' but unseen level of {unseen_vars} did not raise ValueError ({type(res).__name__})"
            if not unseen_vars and isinstance(res, Exception):
                return f"{c['formula']!r}: mode 'error' raised {type(res).__name__} although no used predictor has an unseen level"
        else:
            if isinstance(res, Exception):
                return f"{c['formula']!r}: mode {mode!r} raised {type(res).__name__}: {str(res)[:80]}"
            if warned != (mode == "warning" and bool(unseen_vars)):
                return f"{c['formula']!r}: mode {mode!r}, unseen in {unseen_vars}: warning emitted = {warned}"
            M = np.asarray(res.design_matrix, dtype=float)
            ref, _ = _eval(d.common, dfs, "error")
            if isinstance(ref, Exception):
                return None
            R = np.asarray(ref.design_matrix, dtype=float)
            for name, t in d.common.terms.items():
                sl = d.common.slices[name]
                tv = catvars(name, t)
                bad_rows = sorted(set(r for v in placed if v in tv for r in placed[v]))
                for i in range(M.shape[0]):
                    if i in bad_rows:
                        if np.any(M[i, sl] != 0):
                            return (f"{c['formula']!r} mode {mode!r}: term {name} involves a variable with an unseen "
                                    f"level on row {i} but its columns are {M[i, sl].tolist()}")
                    elif not np.allclose(M[i, sl], R[i, sl], rtol=1e-9, atol=1e-9, equal_nan=True):
                        return (f"{c['formula']!r} mode {mode!r}: term {name} row {i} is {M[i, sl].tolist()}, "
                                f"without the unseen levels it is {R[i, sl].tolist()}")
    # ---- group
    if d.group is not None and mode != "error":
        res, warned = _eval(d.group, df, mode)
        if isinstance(res, Exception):
            return f"{c['formula']!r}: group matrix in mode {mode!r} raised {type(res).__name__}: {str(res)[:80]}"
        M = np.asarray(res.design_matrix, dtype=float)
        start = 0
        want_new = []
        ref, _ = _eval(d.group, dfs, "error")
        for name, t in d.group.terms.items():
            fvars = [D.ATOMS[cp.name][1] for cp in t.factor.components if cp.name in D.ATOMS]
            if len(fvars) != len(t.factor.components):
                return None
            evars = set(getattr(t.expr, "var_names", set()))
            new_rows = sorted(set(r for v in fvars if v in placed for r in placed[v]))
            eff_unseen = sorted(set(r for v in evars if v in placed for r in placed[v]))
            w0 = d.group.slices[name].stop - d.group.slices[name].start
            p = w0 // len(t.groups)
            w = w0 + (p if new_rows else 0)
            sl = res.slices.get(name)
            if sl is None or sl.start != start or sl.stop != start + w:
                return f"{c['formula']!r}: slice of {name} is {sl}, expected {start}:{start + w} (new group rows {new_rows})"
            if new_rows and t.factor.name not in want_new:
                want_new.append(t.factor.name)
            if not isinstance(ref, Exception):
                R = np.asarray(ref.design_matrix, dtype=float)[:, d.group.slices[name]]
                B = M[:, start:start + w]
                for i in range(M.shape[0]):
                    if i in new_rows:
                        if np.any(B[i, :w0] != 0):
                            return f"{c['formula']!r}: row {i} has an unseen group of {name} but is non-zero in an existing block"
                        # effect values: the row's effect part, which is the non-zero block of the reference row
                        if i not in eff_unseen:
                            refrow = R[i].reshape(len(t.groups), p)
                            eff = refrow[np.abs(refrow).sum(axis=1).argmax()] if np.any(refrow != 0) else refrow[0]
                            if not np.allclose(B[i, w0:], eff, rtol=1e-9, atol=1e-9):
                                return (f"{c['formula']!r}: new-group block of {name} on row {i} is {B[i, w0:].tolist()}, "
                                        f"the effect values are {eff.tolist()}")
                    else:
                        if new_rows and np.any(B[i, w0:] != 0):
                            return f"{c['formula']!r}: row {i} is in a seen group of {name} but the new-group block is non-zero"
                        if i not in eff_unseen and not np.allclose(B[i, :w0], R[i], rtol=1e-9, atol=1e-9):
                            return f"{c['formula']!r}: existing blocks of {name} changed on row {i}"
            start += w
        if list(res.factors_with_new_levels) != want_new:
            return f"{c['formula']!r}: factors_with_new_levels {list(res.factors_with_new_levels)}, expected {want_new}"
        if M.shape[1] != start:
            return f"{c['formula']!r}: group matrix has {M.shape[1]} columns, slices cover {start}"
    # ---- configuration
    before = formulae.config["EVAL_UNSEEN_CATEGORIES"]
    for bad in ("bogus", "", "warn", "err", "ing", "Error", "ERROR", " error", "error ", "warning, ", "error, warning",
                None, 0, True, ("error",)):
        try:
            formulae.config["EVAL_UNSEEN_CATEGORIES"] = bad
        except Exception:  # noqa
            if formulae.config["EVAL_UNSEEN_CATEGORIES"] != before:
                formulae.config["EVAL_UNSEEN_CATEGORIES"] = before
                return f"config refused {bad!r} but changed its value"
            continue
        formulae.config["EVAL_UNSEEN_CATEGORIES"] = before
        return f"config accepted the undocumented value {bad!r}"
    for good in MODES:
        try:
            formulae.config["EVAL_UNSEEN_CATEGORIES"] = good
            if formulae.config["EVAL_UNSEEN_CATEGORIES"] != good:
                return f"config did not store the documented value {good!r}"
        except Exception as e:  # noqa
            return f"config refused the documented value {good!r} ({type(e).__name__})"
        finally:
            formulae.config["EVAL_UNSEEN_CATEGORIES"] = before
    try:
        formulae.config["NO_SUCH_KEY"] = "error"
        return "config accepted an unknown key"
    except KeyError:
        pass
    for key in ("eval_unseen_categories", "Eval_Unseen_Categories", "EVAL_UNSEEN_CATEGORIES "):
        try:
            formulae.config[key] = "silent"
        except KeyError:
            continue
        except Exception as e:  # noqa
            return f"config key {key!r} raises {type(e).__name__} instead of KeyError"
        object.__setattr__(formulae.config, "EVAL_UNSEEN_CATEGORIES", before)
        return f"config accepted the undocumented key {key!r}"
    # every way of setting an option validates: item syntax, attribute syntax, the constructor
    Config = type(formulae.config)
    for how, setter in (("attribute", lambda v: setattr(formulae.config, "EVAL_UNSEEN_CATEGORIES", v)),
                        ("item", lambda v: formulae.config.__setitem__("EVAL_UNSEEN_CATEGORIES", v)),
                        ("constructor", lambda v: Config({"EVAL_UNSEEN_CATEGORIES": v}))):
        for bad in ("Warning", "bogus", ""):
            try:
                setter(bad)
            except Exception:  # noqa
                if formulae.config["EVAL_UNSEEN_CATEGORIES"] != before:
                    formulae.config["EVAL_UNSEEN_CATEGORIES"] = before
                    return f"config ({how} syntax) refused {bad!r} but changed its value"
                continue
            if how != "constructor":
                object.__setattr__(formulae.config, "EVAL_UNSEEN_CATEGORIES", before)
            return f"config ({how} syntax) accepted the undocumented value {bad!r}"
    return None
