"""debug module: plain design correspondence"""
import dm
ID = "DBG"
PROP_FILES = []
def impl_obs(c):
    try:
        return ["ok", dm.observe_design(dm.build(c))]
    except Exception as e:
        return ["err", type(e).__name__, str(e)[:200]]
