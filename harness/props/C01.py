"""C01 -- formula grammar: precedence, associativity, nothing silently ignored."""
import itertools
import json

ID = "C01"
PROP_FILES = ["Properties/C01.v", "Properties/C01_scanner.v", "Properties/C01_text.v", "Properties/C01_pairs.v"]
BINOPS13 = ["|", "==", "!=", "<=", "<", ">=", ">", "-", "+", "*", "/", ":", "**"]
THEOREMS = ["C01_parse_sound", "C01_parse_iff", "C01_grammar_unambiguous", "C01_fuel_enough",
            "C01_grouping_transparent", "C01_example", "C01_refuted_without_eof_check"]
ASSUMPTIONS = [
    "formulas are ASCII (str.isalpha/isdigit are Unicode-aware in the implementation); a dozen non-ASCII texts are "
    "decided by the direct oracle alone",
    "the scanner/parser procedures are tied by correspondence; their tables by coq/Generated/Tie.v",
]
RULE = ("exhaustive strings of k lexemes joined by single spaces over a fixed alphabet, grammar-generated "
        "sentences with random whitespace and redundant parentheses, and random printable-ASCII strings; "
        "a case is non-trivial when the implementation accepts it or rejects it after scanning at "
        "least two tokens; distinct = distinct input strings")
EXHAUSTIVE = {"quick": False, "thorough": False}
CASE_TIMEOUT = 10

ALPHA25 = ["y", "x", "g", "f", "1", "0", "2", "'a'", "(", ")", "[", "]", "{", "}", ",", "+", "-", "*",
           "**", ":", "|", "~", "/", "=", "=="]
ALPHA34 = ALPHA25 + [".", "//", "!", "!=", "<", "<=", ">", ">=", "%", "`q`", "True", "1.5"]
# lexemes of which long runs exercise deep structure
CORE12 = ["y", "x", "f", "1", "(", ")", ",", "+", "*", ":", "~", "-"]


# --------------------------------------------------------------------------- generation
def _sentence(rng, depth, budget=40):
    """a random sentence of the grammar as a list of lexemes (about `budget` lexemes at most)"""
    left = [budget]

    def spend(n=1):
        left[0] -= n

    def atom(d):
        spend()
        r = rng.random()
        if left[0] <= 0 or d <= 0:
            r = r * 0.7
        if r < 0.45:
            return [rng.choice(["x", "z", "g", "f", "w_1", "np.x", "`a b`", "`x+1`",
                                # names that only LOOK like Python literals, in another letter case or with a suffix
                                "true", "false", "none", "TRUE", "NONE", "True_", "nan", "e1", "I", "C"])]
        if r < 0.55:
            return [rng.choice(["1", "0", "2", "3", "1.5", "0.25", ".5", "10"])]
        if r < 0.60:
            return [rng.choice(["'a'", '"b c"', "True", "False", "None"])]
        if r < 0.70:
            return [rng.choice(["x", "g"]), "[", rng.choice(["a", "'a b'", '"q"', "lvl"]), "]"]
        if r < 0.85:
            return ["("] + expr(d - 1) + [")"]
        if r < 0.90:
            return ["{"] + expr(d - 1) + ["}"]
        args = []
        for i in range(rng.randint(0, 3)):
            if i:
                args.append(",")
            if rng.random() < 0.3:
                args += [rng.choice(["k", "df", "ref"]), "="] + level(chain[2:], d - 1)
            else:
                args += expr(d - 1)
        return [rng.choice(["f", "np.log", "C", "center"]), "("] + args + [")"]

    def unary(d):
        out = []
        while rng.random() < 0.15:
            out.append(rng.choice(["+", "-"]))
        return out + atom(d)

    def level(ops_chain, d):
        if not ops_chain:
            return unary(d)
        ops, rest = ops_chain[0], ops_chain[1:]
        out = level(rest, d)
        while left[0] > 0 and rng.random() < 0.3:
            spend()
            out += [rng.choice(ops)] + level(rest, d)
        return out

    chain = [["|"], ["==", "!=", "<=", "<", ">=", ">"], ["+", "-"], ["*", "/"], [":"], ["**"]]

    def expr(d):
        return level(chain if rng.random() < 0.8 else chain[2:], d)

    rhs = level(chain[2:], depth)
    if rng.random() < 0.8:
        return level(chain[4:], 1) + ["~"] + rhs
    return rhs


WS = [" ", "  ", "\t", "\n", " \r\n "]


def _join(rng, lexemes, mode):
    """mode 'min': whitespace only where two lexemes would fuse; 'rand': random whitespace"""
    out = []
    for i, lx in enumerate(lexemes):
        if i:
            prev = lexemes[i - 1]
            need = _fuses(prev, lx)
            if mode == "rand":
                out.append(rng.choice(WS) if (need or rng.random() < 0.6) else "")
            else:
                out.append(" " if need else "")
        out.append(lx)
    if mode == "rand" and rng.random() < 0.3:
        out.insert(0, rng.choice(WS))
    if mode == "rand" and rng.random() < 0.3:
        out.append(rng.choice(WS))
    return "".join(out)


def _fuses(a, b):
    """would the scanner read a+b differently from a followed by b?"""
    if (a[-1].isalnum() or a[-1] in "._") and (b[0].isalnum() or b[0] in "._"):
        return True
    if a[-1] + b[0] in ("//", "**", "!=", "==", "<=", ">="):
        return True
    if a[-1] == "." and b[0].isdigit():
        return True
    if a[-1].isdigit() and b[0] == ".":
        return True
    return False


# one text (at least) for every rejection message of scanner.py / parser.py and for every primary form
FIXED = ["", " ", "1 = 2", "f(x + 1 = 2)", "f(k = 1)", "y[3]", "y[1.5]", "y[True]", "y[a[b]]", "y[x[a]]", "y['a']", "y[a]",
         "y[a", "y[", "y ~ x ~ z", "y ~", "~ x", "(x", "x)", "f(x", "f(x,", "f(,x)", "{x", "x}", "x +", "+ x", "x y",
         "x 1", "1 x", "'abc", "`abc", "x ? z", "x ; z", "x @ z", "_x", "x._y", "1.", ".5", "1.5.2", "1..2", "x.1",
         "a.b.c(x)", "a.b.c", "x ** 2", "x ** -1", "-x", "--x", "+-x", "!x", "x % z", "x // z", "x != z", "x == z",
         "x <= z", "x >= z", "x < z", "x > z", "x | g", "(x | g)", "(1 | g)", "((x))", "{{x}}", "f()", "f(())",
         "f(x)(z)", "f(x)[a]", "x[a](z)", "'a' + x", "True + x", "None", "y ~ 0", "y ~ 1", "y ~ -1", "y ~ 0 + x",
         "y ~ x - 1", "y ~ x + 0", "y ~ x * z - x:z", "y ~ (x + z) ** 2", "y ~ (x + z) ** z", "y ~ x / z", "y ~ x / (z + w)",
         "y ~ a:b:c", "y ~ a*b*c", "y ~ x =", "= x", "y ~ x = z", "y ~ f(x, k = z + 1)", "y ~ f(k = 1, x)",
         "y ~ x + true", "y ~ x + false", "y ~ x + none", "y ~ NONE", "y ~ FALSE + x", "true ~ x", "y ~ ((false))",
         "y ~ `true`",
         # two call terms whose printed names coincide (the name drops the parentheses of the argument) but whose
         # trees differ: both are terms of the formula, '-' removes the one that is written
         "y ~ I((a + b) * c) + I(a + b * c)", "y ~ x + I(a - (b - c)) - I(a - b - c)", "y ~ I(a - b - c) + I(a - (b - c))",
         "y ~ f((a + b) * c):f(a + b * c)", "y ~ I((a + b) * c) + I(a + b * c) - I(a + b * c)",
         "y ~ x + (z ~ w)", "(y ~ x) ~ z", "y ~ (x ~ z)", "((y ~ x)) ~ (z ~ w)", "(y ~ x) + (z ~ w)",
         "y ~ True + x", "y ~ False + x", "y ~ f(true)", "y ~ x[true]", "y ~ inf + nan"]


SPLITTABLE = {"**": ["*", "*"], "==": ["=", "="], "!=": ["!", "="], "<=": ["<", "="], ">=": [">", "="], "//": ["/", "/"]}


def _after_cases(rng, n):
    """pairs of texts that differ only in whitespace INSIDE what is one token in the first text: the second is
    interpreted after the first in the same process (whitespace separates tokens; an interpretation never depends
    on what was interpreted before)"""
    out = [{"s": "y ~ x y", "before": "y ~ xy"}, {"s": "y ~ x + 1 0", "before": "y ~ x + 10"},
           {"s": "y ~ `ab`", "before": "y ~ `a b`"}, {"s": "y ~ `a b`", "before": "y ~ `ab`"},
           {"s": "y ~ f(x = = 1)", "before": "y ~ f(x == 1)"}, {"s": "y ~ (a + b) * * 2", "before": "y ~ (a + b) ** 2"},
           {"s": "y ~ x + 'a b'", "before": "y ~ x + 'ab'"}, {"s": "y ~ np . log(x)", "before": "y ~ np.log(x)"}]
    tries = 0
    while len(out) < n and tries < 50 * n:
        tries += 1
        lx = _sentence(rng, rng.randint(0, 4))
        cand = [i for i, t in enumerate(lx) if t in SPLITTABLE or (len(t) >= 2 and (t[0].isalnum() or t[0] == "_")
                                                                  and all(ch.isalnum() or ch in "._" for ch in t))]
        if not cand:
            continue
        i = rng.choice(cand)
        t = lx[i]
        if t in SPLITTABLE:
            parts = SPLITTABLE[t]
        else:
            k = rng.randint(1, len(t) - 1)
            parts = [t[:k], t[k:]]
        before = _join(rng, lx, "min")
        after = _join(rng, lx[:i] + parts + lx[i + 1:], "min")
        # _join puts a blank where the two pieces would fuse again; force one for pieces like 'np' '.x'
        if "".join(after.split()) != "".join(before.split()) or after == before:
            after = _join(rng, lx[:i], "min") + (" " if i else "") + parts[0] + " " + parts[1] + \
                (" " if i + 1 < len(lx) else "") + _join(rng, lx[i + 1:], "min")
        if "".join(after.split()) == "".join(before.split()) and after != before:
            out.append({"s": after, "before": before})
    return [dict(c, kind="after") for c in out]


# texts with characters outside ASCII (decided by the oracle alone: the model reads bytes and assumes ASCII).  What is
# written is what is read: a name keeps its characters, a character that is neither white space nor part of a token
# is refused.  (text, expectation): number of common terms incl. the intercept, or "reject"
NON_ASCII = [("y ~ `x\u00b2` + x2", 3), ("y ~ x\u00b2 + x2", 3), ("y ~ x\u00a0+ z", "reject"), ("y ~ x\u2003+ z", "reject"),
             ("y ~ x \uff0b z", "reject"), ("dose['\u00b5g'] ~ x", 2), ("y ~ \ufb01t + fit", 3), ("y ~ \u212b + \u00c5", 3),
             ("y ~ f(x, '\u00b5') + f(x, '\u03bc')", 3), ("y ~ `a\u00a0b` + `a b`", 3), ("y ~ \uff58 + x", 3)]


def gen(rng, tier):
    cases = [{"s": t, "kind": "fixed"} for t in FIXED]
    cases += [{"s": t, "kind": "non-ascii", "nonascii": True, "expect": e} for t, e in NON_ASCII]
    cases += _after_cases(rng, 3000 if tier == "thorough" else 300)
    # the complete table of operator pairs (Properties/C01_pairs.v): every ordered pair, tight and spaced
    for o1 in BINOPS13:
        for o2 in BINOPS13:
            cases.append({"s": f"x1{o1}np.log{o2}z_2", "kind": "pairs"})
            cases.append({"s": f"a {o1}  b{o2} c", "kind": "pairs"})
            cases.append({"s": f"y~x1{o1}np.log{o2}z_2", "kind": "pairs-after-tilde"})
    kmax25 = 4 if tier == "thorough" else 3
    for k in range(1, kmax25 + 1):
        for tup in itertools.product(ALPHA25, repeat=k):
            cases.append({"s": " ".join(tup), "kind": f"exh25-{k}"})
    for k in range(1, 3 + (1 if tier == "thorough" else 0)):
        for tup in itertools.product(ALPHA34, repeat=k):
            if any(t in ALPHA34[25:] for t in tup):
                cases.append({"s": " ".join(tup), "kind": f"exh34-{k}"})
    kcore = 6 if tier == "thorough" else 5
    for tup in itertools.product(CORE12, repeat=kcore):
        cases.append({"s": " ".join(tup), "kind": f"core12-{kcore}"})
    # quick: a random sample of the 4-lexeme space as well
    if tier == "quick":
        for _ in range(30000):
            cases.append({"s": " ".join(rng.choice(ALPHA25) for _ in range(4)), "kind": "rnd25-4"})
    n_sent = 100000 if tier == "thorough" else 4000
    for _ in range(n_sent):
        lx = _sentence(rng, rng.randint(0, 6))
        cases.append({"s": _join(rng, lx, rng.choice(["min", "rand", "rand"])), "kind": "sentence",
                      "lexemes": lx})
    # mutated sentences: delete / duplicate / swap one lexeme (mostly invalid)
    for _ in range(n_sent // 2):
        lx = _sentence(rng, rng.randint(0, 4))
        i = rng.randrange(len(lx))
        r = rng.random()
        if r < 0.4:
            lx = lx[:i] + lx[i + 1:]
        elif r < 0.7:
            lx = lx[:i] + [rng.choice(ALPHA34)] + lx[i:]
        else:
            lx = lx[:i] + [lx[i]] + lx[i:]
        if lx:
            cases.append({"s": _join(rng, lx, "rand"), "kind": "mutated"})
    n_chr = 200000 if tier == "thorough" else 6000
    chars = "xyzfg01259 ().,+-*/:|~=<>![]{}'\"`_%\t\nTrueNone"
    for _ in range(n_chr):
        n = rng.randint(1, 14)
        cases.append({"s": "".join(rng.choice(chars) for _ in range(n)), "kind": "chars"})
    return cases


def key(c):
    return c["s"]


def describe(c, mo, obs):
    acc = "accepted" if isinstance(obs, list) and obs and obs[0] == "ok" else "rejected"
    return f"{c.get('kind', 'corpus')}/{acc}"


def nontrivial(c, mo, obs):
    return isinstance(obs, list) and len(obs) > 0 and (obs[0] == "ok" or len(c["s"].split()) >= 2)


# --------------------------------------------------------------------------- model side
def model_cmd(c):
    import core
    if c.get("nonascii"):
        return core.sshow(["c01", "y ~ x"])    # placeholder: the comparison is skipped
    return core.sshow(["c01", c["s"]])


# --------------------------------------------------------------------------- implementation side
def _lit(v):
    if isinstance(v, bool):
        return ["bool", "True" if v else "False"]
    if isinstance(v, int):
        return ["int", str(v)]
    if isinstance(v, float):
        return ["float!", repr(v)]
    if isinstance(v, str):
        return ["str", v]
    if v is None:
        return ["none"]
    return ["?", repr(v)]


def ast_list(e):
    from formulae import expr as E
    if isinstance(e, E.Assign):
        return ["Assign", ast_list(e.name), ast_list(e.value)]
    if isinstance(e, E.Grouping):
        return ["Grouping", ast_list(e.expression)]
    if isinstance(e, E.Binary):
        return ["Binary", ast_list(e.left), e.operator.kind, e.operator.lexeme, ast_list(e.right)]
    if isinstance(e, E.Unary):
        return ["Unary", e.operator.kind, ast_list(e.right)]
    if isinstance(e, E.Call):
        return ["Call", ast_list(e.callee), [ast_list(a) for a in e.args]]
    if isinstance(e, E.Variable):
        return ["Variable", e.name.lexeme, [] if e.level is None else ast_list(e.level)]
    if isinstance(e, E.QuotedName):
        return ["QuotedName", e.expression.lexeme]
    if isinstance(e, E.Literal):
        return ["Literal", _lit(e.value), [] if e.lexeme is None else e.lexeme]
    return ["?", type(e).__name__]


def describe_list(m):
    resp = [] if m.response is None else m.response.term.name
    return [resp, [str(t.name) for t in m.common_terms], [str(t.name) for t in m.group_terms]]


def impl_both(s):
    from formulae.scanner import Scanner
    from formulae.parser import Parser
    from formulae import model_description
    try:
        a = ["ok", ast_list(Parser(Scanner(s).scan()).parse())]
    except Exception as e:  # noqa
        a = ["err", type(e).__name__]
    try:
        d = ["ok", describe_list(model_description(s))]
    except Exception as e:  # noqa
        d = ["err", type(e).__name__]
    return a, d


def impl_obs(c):
    if c.get("before") is not None:
        try:
            from formulae import model_description
            model_description(c["before"])
        except Exception:  # noqa
            pass
    a, d = impl_both(c["s"])
    return ["ok" if a[0] == "ok" else "err", a, d]


def _same(m, i):
    """structural comparison; a model float ("float" ip fp) against an implementation float"""
    if isinstance(m, list) and isinstance(i, list):
        if len(m) == 3 and m[0] == "float" and len(i) == 2 and i[0] == "float!":
            try:
                return float((m[1] or "0") + "." + m[2]) == float(i[1])
            except ValueError:
                return False
        return len(m) == len(i) and all(_same(a, b) for a, b in zip(m, i))
    return m == i


def compare(c, mo, obs):
    """mo = (("ok" ast)|("err" k)) (("ok" desc)|("err" k))"""
    if c.get("nonascii"):
        return None
    if not (isinstance(obs, list) and len(obs) == 3):
        return f"implementation observation malformed: {obs!r}"[:300]
    for name, m, i in (("parse", mo[0], obs[1]), ("describe", mo[1], obs[2])):
        if m[0] != i[0]:
            return f"{name}: model {m[0]} / implementation {i[0]} on {c['s']!r}"
        if m[0] == "ok" and not _same(m[1], i[1]):
            return f"{name}: different result on {c['s']!r}: model {json.dumps(m[1])[:200]} impl {json.dumps(i[1])[:200]}"
    return None


# --------------------------------------------------------------------------- direct oracle
LEVELS = [["PIPE"], ["EQUAL_EQUAL", "BANG_EQUAL", "LESS_EQUAL", "LESS", "GREATER_EQUAL", "GREATER"],
          ["MINUS", "PLUS"], ["STAR", "SLASH"], ["COLON"], ["STAR_STAR"]]
N = len(LEVELS)          # index N = unary, N + 1 = call / primary
ADD = 2


def _oplevel(kind):
    for i, ks in enumerate(LEVELS):
        if kind in ks:
            return i
    return None


def _tokens_of(e, out):
    """the token sequence (kind, value) an AST must have come from; None marks 'I'-call ambiguity"""
    from formulae import expr as E
    if isinstance(e, E.Assign):
        _tokens_of(e.name, out); out.append(("EQUAL", "=")); _tokens_of(e.value, out)
    elif isinstance(e, E.Grouping):
        out.append(("LEFT_PAREN", "(")); _tokens_of(e.expression, out); out.append(("RIGHT_PAREN", ")"))
    elif isinstance(e, E.Binary):
        _tokens_of(e.left, out); out.append((e.operator.kind, e.operator.lexeme)); _tokens_of(e.right, out)
    elif isinstance(e, E.Unary):
        out.append((e.operator.kind, e.operator.lexeme)); _tokens_of(e.right, out)
    elif isinstance(e, E.Call):
        _tokens_of(e.callee, out)
        out.append(("LEFT_PAREN", "("))
        for i, a in enumerate(e.args):
            if i:
                out.append(("COMMA", ","))
            _tokens_of(a, out)
        out.append(("RIGHT_PAREN", ")"))
    elif isinstance(e, E.Variable):
        out.append(("IDENTIFIER", e.name.lexeme))
        if e.level is not None:
            out.append(("LEFT_BRACKET", "["))
            if isinstance(e.level, E.Literal) and e.level.lexeme is None and isinstance(e.level.value, str):
                out.append(("IDENTIFIER", e.level.value))
            else:
                _tokens_of(e.level, out)
            out.append(("RIGHT_BRACKET", "]"))
    elif isinstance(e, E.QuotedName):
        out.append(("BQNAME", e.expression.lexeme))
    elif isinstance(e, E.Literal):
        if e.lexeme is not None:
            out.append(("STRING", e.lexeme))
        elif isinstance(e.value, bool) or e.value is None:
            out.append(("PYTHON_LITERAL", repr(e.value)))
        else:
            out.append(("NUMBER", e.value))
    else:
        out.append(("?", None))


def _tok_match(expected, tokens):
    """expected from the AST against scanned tokens; {e} and I(e) both spell Call(I, [e])"""
    i = j = 0
    while i < len(expected) and j < len(tokens):
        k, v = expected[i]
        t = tokens[j]
        if k == "NUMBER":
            ok = t.kind == "NUMBER" and t.literal == v and type(t.literal) is type(v)
        else:
            ok = t.kind == k and t.lexeme == v
        if ok:
            i += 1; j += 1
            continue
        # brace spelling of I( ... )
        if k == "IDENTIFIER" and v == "I" and t.kind == "LEFT_BRACE" and i + 1 < len(expected) \
                and expected[i + 1][0] == "LEFT_PAREN":
            depth, m = 0, i + 1
            while m < len(expected):
                if expected[m][0] == "LEFT_PAREN":
                    depth += 1
                elif expected[m][0] == "RIGHT_PAREN":
                    depth -= 1
                    if depth == 0:
                        break
                m += 1
            if m >= len(expected):
                return False
            expected = expected[:i] + [("LEFT_BRACE", "{")] + expected[i + 2:m] + [("RIGHT_BRACE", "}")] + expected[m + 1:]
            continue
        return False
    return i == len(expected) and j == len(tokens)


def _level_ok(e, minlevel):
    """e can be derived at precedence level >= minlevel without adding parentheses"""
    from formulae import expr as E
    if isinstance(e, E.Binary):
        if e.operator.kind == "TILDE":
            return False  # only at the very top, handled by _sentence_ok
        l = _oplevel(e.operator.kind)
        if l is None or l < minlevel:
            return False
        return _level_ok(e.left, l) and _level_ok(e.right, l + 1)
    if isinstance(e, E.Unary):
        return minlevel <= N and e.operator.kind in ("PLUS", "MINUS") and _level_ok(e.right, N)
    if isinstance(e, E.Call):
        return _level_ok(e.callee, N + 1) and all(_expr_ok(a) for a in e.args)
    if isinstance(e, E.Grouping):
        return _expr_ok(e.expression)
    if isinstance(e, E.Variable):
        if e.level is None:
            return True
        lv = e.level
        if isinstance(lv, E.Literal):
            return isinstance(lv.value, str)
        return _level_ok(lv, N + 1) and not isinstance(lv, E.Variable)
    if isinstance(e, (E.QuotedName, E.Literal)):
        return True
    return False


def _expr_ok(e):
    """'expression': [target =] [lhs ~] rhs"""
    from formulae import expr as E
    if isinstance(e, E.Assign):
        return isinstance(e.name, E.Variable) and _level_ok(e.name, N + 1) and _level_ok(e.value, ADD)
    if isinstance(e, E.Binary) and e.operator.kind == "TILDE":
        return _level_ok(e.left, 0) and _level_ok(e.right, ADD)
    return _level_ok(e, 0)


def _fullparen(e):
    """fully parenthesised source text of an AST"""
    from formulae import expr as E
    if isinstance(e, E.Assign):
        return f"{_fullparen(e.name)} = ({_fullparen(e.value)})"
    if isinstance(e, E.Grouping):
        return f"({_fullparen(e.expression)})"
    if isinstance(e, E.Binary):
        if e.operator.kind == "TILDE":
            return f"({_fullparen(e.left)}) ~ ({_fullparen(e.right)})"
        return f"(({_fullparen(e.left)}) {e.operator.lexeme} ({_fullparen(e.right)}))"
    if isinstance(e, E.Unary):
        return f"({e.operator.lexeme}({_fullparen(e.right)}))"
    if isinstance(e, E.Call):
        return f"{_fullparen(e.callee)}(" + ", ".join(_fullparen(a) for a in e.args) + ")"
    if isinstance(e, E.Variable):
        if e.level is None:
            return e.name.lexeme
        lv = e.level
        if isinstance(lv, E.Literal) and lv.lexeme is None:
            return f"{e.name.lexeme}[{lv.value}]"
        return f"{e.name.lexeme}[{_fullparen(lv)}]"
    if isinstance(e, E.QuotedName):
        return e.expression.lexeme
    if isinstance(e, E.Literal):
        return e.lexeme if e.lexeme is not None else repr(e.value)
    return "?"


# call terms whose printed names coincide although their argument trees differ (explicit grouping is part of the
# formula: nothing that is written is silently ignored): text -> (number of common terms, components of the last)
SAME_NAME = {"y ~ I((a + b) * c) + I(a + b * c)": (3, 1), "y ~ x + I(a - (b - c)) - I(a - b - c)": (3, 1),
             "y ~ I(a - b - c) + I(a - (b - c))": (3, 1), "y ~ f((a + b) * c):f(a + b * c)": (2, 2),
             "y ~ I((a + b) * c) + I(a + b * c) - I(a + b * c)": (2, 1)}


def oracle(c):
    """the statement of C01 checked on the implementation alone"""
    from formulae.scanner import Scanner
    from formulae.parser import Parser
    from formulae import model_description
    s = c["s"]
    if c.get("nonascii"):
        try:
            m_ = model_description(s)
        except Exception as e:
            if c["expect"] == "reject":
                return None
            return f"{s!r} is a formula over names with non-ASCII letters but is rejected ({type(e).__name__}: {str(e)[:60]})"
        if c["expect"] == "reject":
            return (f"{s!r} holds a character that is neither white space nor part of a token, but is accepted: "
                    f"{describe_list(m_)}")
        names_ = [str(t.name) for t in m_.common_terms]
        if len(names_) != c["expect"] or len(set(names_)) != len(names_):
            return f"{s!r}: common terms {names_}; the {c['expect'] - 1} names written are different names"
    if s in SAME_NAME:
        m_ = model_description(s)
        terms_ = list(m_.common_terms)
        n_, k_ = SAME_NAME[s]
        if len(terms_) != n_ or len(getattr(terms_[-1], "components", [])) != k_:
            return (f"{s!r}: {len(terms_)} common terms {[str(t.name) for t in terms_]}, the last with "
                    f"{len(getattr(terms_[-1], 'components', []))} factor(s); the differently grouped call arguments are "
                    f"different terms: {n_} terms, the last with {k_} factor(s)")
    if c.get("before") is not None:
        try:
            model_description(c["before"])
        except Exception:  # noqa
            pass
    try:
        toks = Scanner(s).scan()
        tree = Parser(list(toks)).parse()
    except Exception:
        # rejected by the front end: the public entry point must reject it too, whatever it interpreted before
        try:
            m = model_description(s)
        except Exception:
            return None
        return (f"{s!r} is not a sentence (scanner/parser reject it) but model_description accepts it"
                + (f" after having interpreted {c['before']!r}" if c.get("before") else "")
                + f": {describe_list(m)}")
    body = [t for t in toks if t.kind != "EOF"]
    # every character of the text is white space between tokens or part of exactly one token: the lexemes,
    # concatenated, are the text without the white space that lies outside string literals and quoted names
    want, quote = [], None
    for ch in s:
        if quote:
            want.append(ch)
            if (quote == "`" and ch == "`") or (quote != "`" and ch in "'\""):
                quote = None
        elif ch in "'\"`":
            quote = ch
            want.append(ch)
        elif ch not in " \t\n\r":
            want.append(ch)
    got_text = "".join(_strip_implicit(body))
    if got_text != "".join(want):
        return f"the lexemes of {s!r} are {got_text!r}: characters were dropped or altered"
    exp = []
    _tokens_of(tree, exp)
    if not _tok_match(exp, body):
        got = " ".join(t.lexeme for t in body)
        return f"accepted formula {s!r} but its AST does not account for every token ({got})"
    if not _expr_ok(tree):
        return f"AST of {s!r} violates the documented precedence/associativity"
    if sum(1 for t in body if t.kind == "TILDE") > 1:
        return f"accepted a formula with more than one '~': {s!r}"
    # whitespace variants of the same token sequence
    src = _strip_implicit(body)
    variants = [" ".join(src), _join_min(src), "  ".join(src) + " ", "\t" + "\n".join(src)]
    ref = ast_list(tree)
    for v in variants:
        try:
            t2 = ast_list(Parser(Scanner(v).scan()).parse())
        except Exception as e:
            return f"whitespace variant {v!r} of accepted {s!r} is rejected ({type(e).__name__})"
        if t2 != ref:
            return f"whitespace variant {v!r} of {s!r} parses differently"
    # the fully parenthesised form (of the token stream the scanner produced, which includes the
    # implicit intercept) is interpreted as the same model
    try:
        m1 = describe_list(model_description(s))
    except Exception:
        return None
    # the public entry point interprets the text, not something remembered from an earlier call
    try:
        from formulae.resolver import Resolver as _R
        from formulae.terms.terms import Model as _M
        d0 = _R(tree).resolve()
        m0 = describe_list(d0 if isinstance(d0, _M) else _M(d0))
    except Exception:
        m0 = None
    if m0 is not None and m0 != m1:
        return (f"model_description({s!r}) = {m1} differs from the resolution of its own parse {m0}"
                + (f" (after {c['before']!r})" if c.get("before") else ""))
    fp = _fullparen(tree)
    if _has_awkward_float(tree):
        return None
    try:
        from formulae.resolver import Resolver
        from formulae.terms.terms import Model
        d = Resolver(Parser(Scanner(fp).scan(add_intercept=False)).parse()).resolve()
        if not isinstance(d, Model):
            d = Model(d)
        m2 = describe_list(d)
    except Exception as e:
        m2 = ["err", type(e).__name__]
    if m1 != m2:
        return f"{s!r} and its fully parenthesised form {fp!r} give different models: {m1} vs {m2}"
    return None


def _has_awkward_float(e):
    """floats whose repr the scanner cannot read back (exponent notation, inf)"""
    from formulae import expr as E
    if isinstance(e, E.Literal):
        return isinstance(e.value, float) and not all(ch.isdigit() or ch == "." for ch in repr(e.value))
    for attr in ("name", "value", "expression", "left", "right", "callee", "level"):
        sub = getattr(e, attr, None)
        if sub is not None and hasattr(sub, "accept") and _has_awkward_float(sub):
            return True
    for a in getattr(e, "args", []) or []:
        if _has_awkward_float(a):
            return True
    return False


def _strip_implicit(body):
    """source lexemes: drop the implicit '1 +' the scanner inserts"""
    lex = [t.lexeme for t in body]
    kinds = [t.kind for t in body]
    if "TILDE" in kinds:
        i = kinds.index("TILDE")
        return lex[:i + 1] + lex[i + 3:]
    return lex[2:]


def _join_min(src):
    out = []
    for i, lx in enumerate(src):
        if i and lx and src[i - 1] and _fuses(src[i - 1], lx):
            out.append(" ")
        out.append(lx)
    return "".join(out)


def _unimplicit(tree):
    """remove the implicit '1 +' from the AST so that the printed text re-acquires it on re-scan"""
    from formulae import expr as E

    def strip(e):
        # leftmost leaf of the additive spine is Literal(1) followed by PLUS
        if isinstance(e, E.Binary) and e.operator.kind in ("PLUS", "MINUS"):
            if isinstance(e.left, E.Literal) and e.left.value == 1 and e.left.lexeme is None \
                    and e.operator.kind == "PLUS" and not isinstance(e.left.value, bool):
                return e.right, True
            l, done = strip(e.left)
            if done:
                return E.Binary(l, e.operator, e.right), True
        return e, False

    if isinstance(tree, E.Binary) and tree.operator.kind == "TILDE":
        r, done = strip(tree.right)
        return E.Binary(tree.left, tree.operator, r) if done else tree
    if isinstance(tree, E.Assign):
        return tree
    r, done = strip(tree)
    return r if done else tree


def shrink_candidates(c):
    s = c["s"]
    parts = s.split()
    out = []
    if len(parts) > 1:
        for i in range(len(parts)):
            out.append({"s": " ".join(parts[:i] + parts[i + 1:]), "kind": "shrunk"})
    else:
        for i in range(len(s)):
            if len(s) > 1:
                out.append({"s": s[:i] + s[i + 1:], "kind": "shrunk"})
    return out


def finding_of(c, findings):
    return None
