"""C08 -- row equivariance and independence from irrelevant frame structure."""
import dm
import gen_dm
from props import _design as D
from props._design import describe, nontrivial, unsupported, prepare, model_cmd, CASE_TIMEOUT  # noqa: F401

ID = "C08"
PROP_FILES = ["Properties/C08.v"]
THEOREMS = ["C08_design_frame_agree", "C08_perm_rows", "C08_fit_perm_invariant"]
ASSUMPTIONS = ["fitted parameters are compared with tolerance 1e-9 (numpy sums in a different order after a permutation)"]
RULE = ("random designs; each is rebuilt on the frame with rows permuted, with non-unique / float / string "
        "indexes, with shuffled columns and with unused columns added or removed; the model sees only the plain "
        "frame; non-trivial = design built; distinct = (formula, frame head, permutation)")
EXHAUSTIVE = {"quick": False, "thorough": False}


def gen(rng, tier):
    n = 6000 if tier == "thorough" else 400
    cases = []
    for _ in range(n):
        fr = gen_dm.make_frame(rng)
        nrows = len(fr["columns"][0]["values"])
        # a numeric column with a large offset and a small spread (time stamps)
        fr["columns"].append(dm.col("t", "float", [f"{7 * 10 ** 6 + rng.randint(0, 280)}/7" for _ in range(nrows)]))
        # an observation-level identifier: one row per level, rows NOT sorted by it
        uid = [f"u{j:02d}" for j in range(nrows)]
        rng.shuffle(uid)
        fr["columns"].append(dm.col("uid", "str", uid))
        perm = list(range(nrows))
        rng.shuffle(perm)
        idx_kind = rng.choice(["dup", "float", "str", "rev", "perm", "perm"])
        colperm = list(range(len(fr["columns"])))
        rng.shuffle(colperm)
        kind = "random"
        if rng.random() < 0.4:
            # missing values in used columns: the rows dropped must not depend on the index labels
            kind = "with-missing"
            for c in fr["columns"]:
                if c["name"] in ("x", "z", "w", "f", "y") and rng.random() < 0.5:
                    for r in rng.sample(range(nrows), rng.randint(1, max(1, nrows // 5))):
                        c["values"][r] = None
        # stateful multi-column transforms see a pandas Series (with that index), not an array
        atoms = gen_dm.NUM_ATOMS + (["bs(x, df=4)", "poly(z, 2)", "bs(w, df=3, degree=2)"] if kind != "with-missing" else [])

        fml = gen_dm.rand_formula(rng, with_group=0.4, num_atoms=atoms)
        if kind != "with-missing" and rng.random() < 0.35:
            # as a term of its own: in a product the ten digits the offset costs would exceed the comparison tolerance
            fml += rng.choice([" + scale(t)", " + standardize(t)", " + center(t)"])
        if rng.random() < 0.07 and "bs(" not in fml and "poly(" not in fml:
            fml += rng.choice([" + (1 | uid)", " + (x | uid)", " + (0 + x | uid)"])
            kind = kind + "/observation-level-group"
        extra_ = None
        if kind == "with-missing" and rng.random() < 0.3:
            # a call argument taken from the caller's namespace; one variant NAMES the row index like it: the row
            # labels are not a variable of the data, whatever they are called
            fml += " + I(x * kk)"
            extra_ = {"kk": 2}
        long_ = None
        if len(cases) % 50 == 7:
            # eight cases in a quick run also carry a long-frame check (see _long_oracle)
            long_ = {"n": rng.choice([10001, 12345, 30001]), "seed": rng.randrange(10 ** 6), "sorted": rng.random() < 0.5,
                     "formula": rng.choice(["y ~ bs(x, df=6) + grp", "y ~ bs(x, df=4, degree=2)", "y ~ 0 + bs(x, df=5):grp",
                                            "y ~ scale(x) + poly(x, 3)"])}
        if rng.random() < 0.05:
            # a formula that mentions NO column of the frame: every column is then an unused one
            fml = "1"
            kind = "no-column-used"
        cases.append({"formula": fml, "frame": fr, "na": rng.choice(["drop", "drop", "error"]) if fml == "1" else "drop",
                      "perm": perm, "index": idx_kind, "colperm": colperm, "kind": kind + ("/long-frame" if long_ else ""),
                      **({"long": long_} if long_ else {}), **({"extra": extra_} if extra_ else {})})
    # six cases also carry a check on a user function whose result is an UNORDERED Categorical with its categories in
    # order of first appearance (see _appear_oracle; nothing is drawn from rng here)
    for j, c_ in enumerate(cases[:6]):
        c_["appear"] = {"seed": 1000 + j, "formula": ["y ~ apc(s)", "y ~ 0 + apc(s)", "y ~ x + apc(s)", "y ~ apc(s):x",
                                                       "y ~ x + (1 | apc(s))", "apc(s) ~ x"][j]}
    return cases


def key(c):
    return [c["formula"], c["frame"]["columns"][0]["values"][:6], c["perm"][:6]]


def _variants(c):
    """(name, frame, row map) -- row map[i] = index in the base frame of row i of the variant"""
    fr = c["frame"]
    n = len(fr["columns"][0]["values"])
    out = []
    perm = c["perm"]
    out.append(("permuted rows", dm.select_rows(fr, perm), perm))
    k = c["index"]
    idx = {"dup": [i % 3 for i in range(n)], "float": [i * 0.5 - 2 for i in range(n)],
           "perm": [(i * 7 + 3) % n if n % 7 else (i * 5 + 3) % n for i in range(n)],
           "str": [f"r{(n - i) % 7}" for i in range(n)], "rev": list(range(n, 0, -1))}[k]
    out.append((f"index {k}", dict(fr, index=idx), list(range(n))))
    if c.get("extra"):
        out.append(("index named like a variable of the caller's namespace", dict(fr, index=idx, index_name="kk"),
                    list(range(n))))
    out.append(("shuffled columns", {"columns": [fr["columns"][j] for j in c["colperm"]]}, list(range(n))))
    used = [col for col in fr["columns"] if col["name"] not in ("junk",)]
    out.append(("unused column removed", {"columns": used}, list(range(n))))
    extra = fr["columns"] + [dm.col("zzz_extra", "str", ["q"] * n), dm.col("aaa_extra", "float", [None] + ["1"] * (n - 1))]
    out.append(("unused columns added (one with a NaN)", {"columns": extra}, list(range(n))))
    # unused columns that are NAMED like the functions the formula calls (C, T, center, ...), with NaNs: a
    # callee is looked up in the environment, never among the columns, so these columns are not mentioned
    import re as _re
    callees = sorted(set(_re.findall(r"([A-Za-z_][A-Za-z_0-9]*)\(", c["formula"])))
    # ... and only called: a bare `Sum` in C(f, Sum) is an ARGUMENT, looked up among the columns first
    callees = [nm for nm in callees if not _re.search(r"(?<![A-Za-z_0-9.])" + nm + r"(?![A-Za-z_0-9(])", c["formula"])]
    named = fr["columns"] + [dm.col(nm, "float", [None if (i + k) % 3 == 0 else str(i) for i in range(n)])
                             for k, nm in enumerate(callees) if nm not in [col["name"] for col in fr["columns"]]]
    if len(named) > len(fr["columns"]):
        out.append(("unused columns named like the called functions (with NaNs)", {"columns": named}, list(range(n))))
    both = dm.select_rows({"columns": [fr["columns"][j] for j in c["colperm"]]}, perm)
    both["index"] = [idx[i] for i in perm]
    out.append(("all together", both, perm))
    return out


def _unpermute(obs, rowmap, kept=None):
    """rows of every matrix of an observation put back in base order; kept = base rows that survive
    the missing-value policy (the variant holds them in the order rowmap lists them)"""
    if kept is None:
        kept = set(range(len(rowmap)))
    order = [b for b in rowmap if b in kept]          # base row of each row of the variant's matrices
    pos = {b: i for i, b in enumerate(order)}

    def fix(rows):
        if len(rows) != len(order):
            return rows                                # a different number of rows: compared as is (will differ)
        return [rows[pos[b]] for b in sorted(pos)]

    resp, common, group = obs
    if resp:
        resp = resp[:3] + [fix(resp[3])] + resp[4:]
    common = [t[:3] + [fix(t[3])] + t[4:] for t in common]
    group = [t[:4] + [fix(t[4])] for t in group]
    return [resp, common, group]


def impl_obs(c):
    try:
        base = ["ok", dm.observe_design(dm.build(c))]
    except Exception as e:  # noqa
        base = ["err", type(e).__name__, str(e)[:120]]
    vs = []
    kept = None
    try:
        from formulae import model_description
        df0 = dm.to_pandas(c["frame"])
        used = [v for v in model_description(c["formula"]).var_names if v in df0.columns]
        inc = df0[used].isna().any(axis=1).to_numpy() if used else []
        kept = set(i for i in range(len(df0)) if not (len(inc) and inc[i]))
    except Exception:
        kept = None
    for name, fr, rowmap in _variants(c):
        try:
            o = dm.observe_design(dm.build(dict(c, frame=fr)))
            vs.append([name, "ok", _unpermute(o, rowmap, kept)])
        except Exception as e:  # noqa
            vs.append([name, "err", type(e).__name__])
    return base + [vs] if base[0] == "ok" else ["err", base[1], base[2], vs]


def compare(c, mo, obs):
    if unsupported(mo):
        return None
    if mo[0] != obs[0]:
        return f"model {mo[:2]} / implementation {obs[:3]} on {c['formula']!r}"[:300]
    if mo[0] != "ok":
        return None
    d = dm.compare_design(mo[1], obs[1])
    if d:
        return f"{c['formula']!r}: {d}"[:400]
    for name, st, o in obs[2]:
        if st != "ok":
            return f"{c['formula']!r}: variant '{name}' is rejected ({o}) but the model (which only sees the plain frame) accepts"
        d = dm.compare_design(mo[1], o)
        if d:
            return f"{c['formula']!r} variant '{name}': {d}"[:400]
    return None


def _same(a, b):
    """two observations are the same design (labels exactly, numbers within tolerance)"""
    if [t[:3] for t in a[1]] != [t[:3] for t in b[1]]:
        return "common term names / kinds / labels differ"
    if [t[:4] for t in a[2]] != [t[:4] for t in b[2]]:
        return "group term names / groups / labels differ"
    if (a[0] == []) != (b[0] == []) or (a[0] and (a[0][:3] != b[0][:3] or a[0][4] != b[0][4])):
        return "response name / labels / levels differ"
    import numpy as np

    def close(x, y):
        x = np.array([[float(v) for v in r] for r in x])
        y = np.array([[float(v) for v in r] for r in y])
        return x.shape == y.shape and np.allclose(x, y, rtol=1e-9, atol=1e-9, equal_nan=True)

    if a[0] and not close(a[0][3], b[0][3]):
        return "response matrix differs"
    for ta, tb in zip(a[1], b[1]):
        if not close(ta[3], tb[3]):
            return f"columns of {ta[0]} differ"
    for ta, tb in zip(a[2], b[2]):
        if not close(ta[4], tb[4]):
            return f"block of {ta[0]} differs"
    return None


def _long_oracle(c):
    """frames of more than ten thousand rows (built here from a seed, not shipped in the case): permuting the rows
    permutes the matrices and leaves the fitted spline knots alone, whatever the number of rows"""
    import numpy as np
    import pandas as pd
    from formulae import design_matrices
    spec = c["long"]
    g = np.random.default_rng(spec["seed"])
    n = spec["n"]
    df = pd.DataFrame({"y": g.normal(size=n), "x": np.sort(g.gamma(2.0, 2.0, size=n)) if spec["sorted"] else g.gamma(2.0, 2.0, size=n),
                       "grp": g.choice(["p", "q", "r"], size=n)})
    perm = g.permutation(n)
    f = spec["formula"]
    try:
        d1 = design_matrices(f, df)
        d2 = design_matrices(f, df.iloc[perm].reset_index(drop=True))
    except Exception as e:
        return f"{f!r} on {n} rows raises {type(e).__name__}: {str(e)[:80]}"
    M1 = np.asarray(d1.common.design_matrix, dtype=float)
    M2 = np.asarray(d2.common.design_matrix, dtype=float)
    if M1.shape != M2.shape or not np.allclose(M2, M1[perm], rtol=1e-9, atol=1e-9):
        bad = float(np.abs(M2 - M1[perm]).max()) if M1.shape == M2.shape else None
        return (f"{f!r} on a frame of {n} rows: permuting the rows does not permute the common matrix "
                f"(largest difference {bad})")
    return None


def _appear_oracle(c):
    """a call whose value is an unordered Categorical with categories in order of first appearance: the levels are
    the sorted observed values, so permuting the rows permutes the matrices and changes no label"""
    import numpy as np
    import pandas as pd
    from formulae import design_matrices
    spec = c["appear"]
    g = np.random.default_rng(spec["seed"])
    n = 12
    vals = list(g.permutation(["q", "m", "b", "t"])) + list(g.choice(["q", "m", "b", "t"], size=n - 4))
    df = pd.DataFrame({"y": g.normal(size=n), "x": g.normal(size=n), "s": vals})
    perm = g.permutation(n)
    while list(pd.unique(df["s"].to_numpy()[perm])) == list(pd.unique(df["s"])):
        perm = g.permutation(n)
    ns = {"apc": (lambda v: pd.Categorical(np.asarray(v), categories=pd.unique(np.asarray(v))))}
    f = spec["formula"]

    def parts(d):
        out = []
        for m_ in (d.response, d.common, d.group):
            if m_ is None:
                out.append(None)
                continue
            M = np.asarray(m_.design_matrix, dtype=float)
            M = M[:, None] if M.ndim == 1 else M
            lab = [str(t) + ":" + str(getattr(m_.terms[t], "labels", None) or getattr(m_.terms[t], "levels", None)) for t in m_.terms] \
                if hasattr(m_, "terms") and isinstance(m_.terms, dict) else [str(getattr(m_, "levels", None))]
            out.append((lab, M))
        return out
    try:
        p1 = parts(design_matrices(f, df, extra_namespace=ns))
        p2 = parts(design_matrices(f, df.iloc[perm].reset_index(drop=True), extra_namespace=ns))
    except Exception as e:
        return f"{f!r} with apc = Categorical in order of appearance raises {type(e).__name__}: {str(e)[:80]}"
    for a, b in zip(p1, p2):
        if (a is None) != (b is None):
            return f"{f!r}: a matrix is present on one row order only"
        if a is None:
            continue
        if a[0] != b[0]:
            return (f"{f!r} (apc(s) = unordered Categorical of s with categories in order of first appearance): permuting "
                    f"the rows changes the labels / levels from {a[0]} to {b[0]}")
        if a[1].shape != b[1].shape or not np.allclose(b[1], a[1][perm], rtol=1e-9, atol=1e-9):
            return f"{f!r} (apc(s) = Categorical in order of appearance): permuting the rows does not permute the matrix"
    return None


def oracle(c):
    if c.get("appear"):
        msg = _appear_oracle(c)
        if msg:
            return msg
    if c.get("long"):
        msg = _long_oracle(c)
        if msg:
            return msg
    o = impl_obs(c)
    if o[0] != "ok":
        # rejected on the plain frame: every variant must be rejected as well
        for name, st, _ in o[3]:
            if st == "ok":
                return f"{c['formula']!r}: rejected on the plain frame but accepted with '{name}'"
        return None
    for name, st, v in o[2]:
        if st != "ok":
            return f"{c['formula']!r}: accepted on the plain frame but '{name}' raises {v}"
        d = _same(o[1], v)
        if d:
            return f"{c['formula']!r}: '{name}' changes the design: {d}"
    return None
