"""C09 -- missing-value policy: drop / error / pass."""
import dm
import gen_dm
from props import _design as D
from props._design import describe, nontrivial, unsupported, prepare, impl_obs, CASE_TIMEOUT  # noqa: F401

ID = "C09"
PROP_FILES = ["Properties/C09.v", "Properties/C09_subtracted.v"]
THEOREMS = ["C09_drop_is_filter", "C09_error_iff", "C09_pass_keeps_rows", "C09_bad_policy"]
ASSUMPTIONS = ["under 'pass' missing values occur in numeric variables only and calls are pointwise"]
RULE = ("random formulas (variables inside calls, interactions, group terms, response) x missingness patterns over "
        "used and unused columns x the three policies (+ an invalid one); non-trivial = some row is incomplete; "
        "distinct = (formula, policy, missing cells)")
EXHAUSTIVE = {"quick": False, "thorough": False}

POINTWISE_NUM = ["x", "z", "w", "I(x + 1)", "{w * 2}", "I(x - w)"]
ANY_NUM = POINTWISE_NUM + ["center(x)", "scale(w)"]
CATS = ["f", "g", "h", "C(f, Sum)", "T(g, 'q')", "o"]


def _formula(rng, pointwise):
    nums = POINTWISE_NUM if pointwise else ANY_NUM
    terms = []
    for _ in range(rng.randint(1, 3)):
        atoms = []
        for _ in range(rng.choice([1, 1, 2])):
            a = rng.choice(nums if rng.random() < 0.55 else CATS)
            if a not in atoms:
                atoms.append(a)
        t = ":".join(atoms)
        if t not in terms:
            terms.append(t)
    rhs = " + ".join(terms)
    if rng.random() < 0.2:
        rhs = "0 + " + rhs
    if rng.random() < 0.3:
        rhs += " + (" + rng.choice(["1", "x", "0 + w"]) + " | " + rng.choice(["g", "h", "g:h"]) + ")"
    return rng.choice(["y", "y", "z", "f"]) + " ~ " + rhs


def gen(rng, tier):
    n = 9000 if tier == "thorough" else 600
    cases = []
    for i in range(n):
        # undocumented values, among them documented ones with stray white space or another letter case
        na = ["drop", "error", "pass", "drop", "pass", "bogus"][i % 6] if i % 20 else \
            ["ignore", "drop ", " pass", "error\n", "Drop", "\tdrop", "PASS", ""][(i // 20) % 8]
        fr = gen_dm.make_frame(rng)
        nrows = len(fr["columns"][0]["values"])
        missing = {}
        cols = ["y", "x", "z", "w", "junk", "n_trials"] + ([] if na == "pass" else ["f", "g", "h"])
        for name in cols:
            if rng.random() < 0.35:
                rows = sorted(rng.sample(range(nrows), rng.randint(1, max(1, nrows // 4))))
                missing[name] = rows
        for c in fr["columns"]:
            if c["name"] in missing:
                for r in missing[c["name"]]:
                    c["values"][r] = None
            # pandas' nullable integer dtype (pd.NA) is a missing value like any other
            if c["name"] in ("z", "n_trials") and rng.random() < 0.35:
                c["type"] = "nint"
        if rng.random() < 0.35:
            # an index with repeated / unordered labels: rows are dropped by POSITION, never by label
            fr["index"] = rng.choice([[j % 3 for j in range(nrows)], [f"s{j // 2}" for j in range(nrows)],
                                      [(j * 7 + 3) % nrows if nrows % 7 else (j * 5 + 3) % nrows for j in range(nrows)]])
        if rng.random() < 0.15:
            # an ordered categorical that declares a category nobody is in (not the last one): the declaration is part of
            # the data, with or without the incomplete rows
            for c in fr["columns"]:
                if c["name"] == "o":
                    cats = list(c["categories"])
                    cats.insert(rng.randrange(0, len(cats)), "never")
                    c["categories"] = cats
        fml = _formula(rng, na == "pass")
        if rng.random() < 0.3:
            import re as _re
            called = sorted(set(_re.findall(r"([A-Za-z_][A-Za-z_0-9]*)\(", fml)))
            called = [nm for nm in called if not _re.search(r"(?<![A-Za-z_0-9.])" + nm + r"(?![A-Za-z_0-9(])", fml)]
            have = [col["name"] for col in fr["columns"]]
            for k_, nm in enumerate(called):
                if nm not in have:
                    # a column that only shares its NAME with a function of the formula is not used by it
                    fr["columns"].append(dm.col(nm, "float", [None if (j + k_) % 4 == 0 else str(j) for j in range(nrows)]))
        if rng.random() < 0.04:
            # a column whose NAME is the empty string, with a missing value (listed finding KF-C09-1 when the
            # formula contains a literal)
            for col in fr["columns"]:
                if col["name"] == "junk":
                    col["name"] = ""
                    col["values"][0] = None
        removed = []
        if rng.random() < 0.12:
            # a variable whose every term is removed again by '-' is not used by the model: its missing values do
            # not matter (x*z - z still uses z through x:z; z - z does not)
            import re as _re2
            cand = [v for v in ("z", "w", "x") if not _re2.search(r"(?<![A-Za-z_0-9])" + v + r"(?![A-Za-z_0-9(])", fml)]
            if cand:
                v = rng.choice(cand)
                fml += rng.choice([f" + {v} - {v}", f" + {v}:f - {v}:f" if "f" in fml.split("~")[1].split() else f" + {v} - {v}"])
                removed.append(v)
                for col in fr["columns"]:
                    if col["name"] == v and all(x_ is not None for x_ in col["values"]):
                        col["values"][rng.randrange(nrows)] = None
                        missing.setdefault(v, []).append(-1)
        case = {"formula": fml, "frame": fr, "na": na, "missing": missing, "kind": na, "removed": removed}
        if na in ("drop", "error") and rng.random() < 0.12:
            # infinities are values, not missing values: a row holding +inf and -inf is complete (the model has
            # no infinite cells: such cases are decided by the oracle alone)
            r0 = rng.randrange(nrows)
            signs = rng.choice([("inf", "-inf"), ("-inf", "inf"), ("inf", "inf")])
            for col in fr["columns"]:
                if col["name"] == "x" and col["values"][r0] is not None:
                    col["values"][r0] = signs[0]
                if col["name"] == "w" and col["values"][r0] is not None:
                    col["values"][r0] = signs[1]
            case["formula"] = fml + " + x + w"
            case["removed"] = [v_ for v_ in removed if v_ not in ("x", "w")]
            case["inf"] = True
            case["kind"] = na + "-inf"
        cases.append(case)
    return cases


def _finite(c):
    fr = {"columns": [dict(col, values=["0" if v in ("inf", "-inf") else v for v in col["values"]])
                      for col in c["frame"]["columns"]]}
    return dict(c, frame=fr)


def model_cmd(c):
    return D.model_cmd(_finite(c) if c.get("inf") else c)


def compare(c, mo, obs):
    if c.get("inf"):
        return None
    return D.compare(c, mo, obs)


def key(c):
    return [c["formula"], c["na"], c["missing"], c["frame"]["columns"][1]["values"][:5]]


def nontrivial(c, mo, obs):
    return bool(c.get("missing"))


def _used(d, df):
    names = set(d.model.var_names)
    return [v for v in names if v in df.columns]


def oracle(c):
    import re as _re
    msg = _oracle(c)
    if msg and any(col["name"] == "" for col in c["frame"]["columns"]) and _re.search(r"\d|'|\"", c["formula"].split("~", 1)[-1]):
        # listed finding KF-C09-1: a literal inside a call records the variable name "", so a column whose name
        # is the empty string counts as used
        return "[class:empty_column_name] " + msg
    return msg


def _oracle(c):
    import numpy as np
    from formulae import design_matrices, model_description
    df = dm.to_pandas(c["frame"])
    f = c["formula"]
    na = c["na"]
    if na not in ("drop", "error", "pass"):
        try:
            design_matrices(f, df, na_action=na)
        except ValueError:
            return None
        except Exception as e:
            return f"{f!r}: na_action={na!r} raises {type(e).__name__} instead of ValueError"
        return f"{f!r}: na_action={na!r} was accepted"
    try:
        model_description(f)
    except Exception:
        return None
    # the variables the formula uses, read off the TEXT (not asked of the implementation): identifiers and
    # backquoted names that are columns, except names that occur only as the callee of a call
    import re as _re
    text = _re.sub(r"'[^']*'|\"[^\"]*\"", " ", f)
    names = set(_re.findall(r"`([^`]*)`", text))
    text = _re.sub(r"`[^`]*`", " ", text)
    for m in _re.finditer(r"(?<![A-Za-z_0-9.])([A-Za-z_][A-Za-z_0-9]*)(?![A-Za-z_0-9])\s*(\()?", text):
        if not m.group(2):
            names.add(m.group(1))
    names -= set(c.get("removed") or [])
    used = [v for v in df.columns if v in names]
    incomplete = df[used].isna().any(axis=1).to_numpy() if used else np.zeros(len(df), dtype=bool)
    # the reference run sees the complete rows of the USED columns only (it must not inherit a fault in the way
    # unused columns are handled)
    complete_df = df.loc[~incomplete, used] if used else df[~incomplete]

    def mats(d):
        out = []
        for part in ("response", "common", "group"):
            o = getattr(d, part)
            out.append(None if o is None else np.asarray(o.design_matrix, dtype=float).reshape(len(o.design_matrix), -1))
        return out

    try:
        ref = design_matrices(f, complete_df) if len(complete_df) else None
    except Exception:
        return None   # the formula is not evaluable even on complete data
    try:
        d = design_matrices(f, df, na_action=na)
        err = None
    except Exception as e:
        d, err = None, e
    if na == "error":
        if incomplete.any():
            if not isinstance(err, ValueError):
                return f"{f!r}: na_action='error' with incomplete rows {np.flatnonzero(incomplete)[:5].tolist()} did not raise ValueError ({type(err).__name__ if err else 'accepted'})"
            return None
        if err is not None:
            return f"{f!r}: na_action='error' raised {type(err).__name__} although no used variable is missing"
        return None
    if ref is None:
        return None
    if err is not None:
        return f"{f!r}: na_action={na!r} raised {type(err).__name__}: {str(err)[:80]} (complete data works)"
    got, want = mats(d), mats(ref)
    # when dropping the incomplete rows removes a level of a categorical variable altogether, the two
    # runs legitimately have different columns: no verdict
    for v in used:
        import pandas as pd
        if not pd.api.types.is_numeric_dtype(df[v]):
            if set(df[v].dropna().astype(str)) != set(complete_df[v].dropna().astype(str)):
                return None
    if na == "drop":
        # counted directly, not through a second run (which would share a fault of the row filter)
        for name, g in zip(("response", "common", "group"), got):
            if g is not None and g.shape[0] != int((~incomplete).sum()):
                return (f"{f!r}: na_action='drop' keeps {g.shape[0]} rows in the {name} matrix, {int((~incomplete).sum())} "
                        f"rows are complete in the used variables {used}")
        for name, g, w in zip(("response", "common", "group"), got, want):
            if (g is None) != (w is None):
                return f"{f!r}: {name} present/absent differs from the run on the filtered data"
            if g is not None and (g.shape != w.shape or not np.allclose(g, w, rtol=1e-9, atol=1e-9, equal_nan=True)):
                return (f"{f!r}: na_action='drop' {name} matrix {g.shape} differs from the run on the data without "
                        f"rows {np.flatnonzero(incomplete)[:6].tolist()} ({w.shape})")
        return None
    # pass: all rows kept; complete rows as under drop; incomplete rows NaN exactly where derived from the missing variable
    keep = np.flatnonzero(~incomplete)
    for name, g, w in zip(("response", "common", "group"), got, want):
        if g is None:
            continue
        if g.shape[0] != len(df):
            return f"{f!r}: na_action='pass' {name} has {g.shape[0]} rows for {len(df)} observations"
        if w is not None and (g[keep].shape != w.shape or not np.allclose(g[keep], w, rtol=1e-9, atol=1e-9, equal_nan=True)):
            return f"{f!r}: na_action='pass' encodes complete rows differently from 'drop' in the {name} matrix"
    if d.common is not None:
        M = got[1]
        for tname, t in d.common.terms.items():
            sl = d.common.slices[tname]
            tv = [v for v in getattr(t, "var_names", set()) if v in df.columns and v != ""]
            miss = df[tv].isna().any(axis=1).to_numpy() if tv else np.zeros(len(df), dtype=bool)
            isnan = np.isnan(M[:, sl]).all(axis=1)
            anynan = np.isnan(M[:, sl]).any(axis=1)
            for i in range(len(df)):
                if miss[i] and not isnan[i]:
                    return f"{f!r}: 'pass' row {i} misses a variable of term {tname} but the columns are {M[i, sl].tolist()}"
                if not miss[i] and anynan[i]:
                    return f"{f!r}: 'pass' row {i} has NaN in term {tname}, which uses no missing variable on that row"
    return None
