"""C05 -- group-specific blocks: group indicators x effect columns, lme4 intercept rules."""
import itertools
import re

import dm
import gen_dm
from props._design import *  # noqa: F401,F403
from props import _design as D

ID = "C05"
PROP_FILES = ["Properties/C05.v", "Properties/C05_rank.v", "Properties/C05_rank_num.v", "Properties/C05_bridge.v"]
THEOREMS = ["C05_group_block", "C05_onehot_kron", "C05_group_labels"]
ASSUMPTIONS = ["fully crossed data for the rank part", "integer-valued numerics"]
RULE = ("effect expressions (intercept, numeric, categorical, transforms, interactions, sums; with and without "
        "'0 +') x grouping expressions (factor, interaction, sum, nested, C(k)) on replicated complete-factorial "
        "frames; non-trivial = design built; distinct = (formula, frame head)")
EXHAUSTIVE = {"quick": True, "thorough": True}

EFFECTS = ["1", "x", "0 + x", "f", "0 + f", "x + z", "0 + x + z", "x:z", "center(x)", "scale(z)", "x:f", "0 + x:f",
           "f + h", "0 + f + h", "f:h", "x + f", "0 + x + f", "1 + x", "C(k)", "0 + C(k)", "x*z", "f*h", "I(x + 1)",
           "0 + bs(x, df=3)", "bs(x, df=3)", "0 + poly(x, 2, raw=True)", "poly(z, 2, raw=True)", "C(c)", "0 + C(c)"]
GROUPS = ["g", "g:h", "g + h", "g/h", "C(k)", "k", "o", "C(c)"]


def gen(rng, tier):
    cases = []
    reps = 6 if tier == "thorough" else 1
    for _ in range(reps):
        for e in EFFECTS:
            for g in GROUPS:
                import re as _re
                used = [v for v in ["f", "g", "h", "o", "k", "c"] if _re.search(r"\b" + v + r"\b", e + " " + g)]
                if any(_re.search(r"\b" + v + r"\b", e) and _re.search(r"\b" + v + r"\b", g) for v in used):
                    continue  # the same variable on both sides is not a crossed design
                cats = used if used else ["g"]
                fr = gen_dm.make_frame(rng, factorial=True, cats=cats, nlev={"f": 2, "g": rng.choice([2, 3]), "h": 2,
                                                                             "k": 3, "o": 3, "c": 3})
                cases.append({"formula": f"y ~ x + ({e} | {g})", "frame": fr, "na": "drop", "kind": "grid",
                              "effect": e, "group": g})
    # the same grouping factor written in different factor orders / reached through different operators
    SAME = [("(1 | g:h)", "(0 + {e} | h:g)"), ("(1 | g/h)", "({e} | h:g)"), ("({e} | h:g)", "(1 | g:h)"),
            ("(1 | g*h)", "(0 + {e} | h:g)"), ("(1 | h:g)", "({e} | g:h)")]
    for _ in range(reps):
        for a, b in SAME:
            for e in ["f", "x", "x + z", "f + x"]:
                fr = gen_dm.make_frame(rng, factorial=True, cats=["f", "g", "h"], nlev={"f": 2, "g": rng.choice([2, 3]), "h": 2})
                cases.append({"formula": f"y ~ x + {a} + {b.format(e=e)}", "frame": fr, "na": "drop", "kind": "same-factor",
                              "effect": e, "group": "g:h"})
    # several group-specific terms on DIFFERENT factors, in both orders: the coding of each effect is decided by
    # the intercept of its own factor only, whatever was decided for the terms written before it
    first = ["(x | g)", "(f | g)", "(1 + z | g)", "(center(x) | g)", "(1 | g) + (x | g)"]
    second = ["(0 + f | h)", "(0 + C(k) | h)", "(0 + f:x | h)", "(0 + f | o)", "(f | h)"]
    for _ in range(reps):
        for a in first:
            for b in second:
                if "(f |" in a and "f" in b.split("|")[0]:
                    continue
                for pair in ((a, b), (b, a)):
                    fr = gen_dm.make_frame(rng, factorial=True, cats=["f", "g", "h"], nlev={"f": 2, "g": rng.choice([2, 3]), "h": 2})
                    cases.append({"formula": "y ~ x + " + " + ".join(pair), "frame": fr, "na": "drop", "kind": "two-factors"})
    # a categorical effect coded by a user-defined Encoding with FRACTIONAL contrasts (Helmert-like): the block holds
    # the effect's values, whatever they are (decided by the oracle alone: the model knows the built-in codings)
    for _ in range(100 if tier == "thorough" else 12):
        fr = gen_dm.make_frame(rng, factorial=True, cats=["f", "g"], nlev={"f": 3, "g": rng.choice([2, 3])})
        eff = rng.choice(["C(f, Helm)", "0 + C(f, Helm)", "C(f, helm)", "0 + C(f, helm)"])
        cases.append({"formula": f"y ~ x + ({eff} | g)", "frame": fr, "na": "drop", "kind": "custom-encoding",
                      "custom": True, "full": eff.startswith("0 +")})
    n = 20000 if tier == "thorough" else 300
    for _ in range(n):
        fr = gen_dm.make_frame(rng)
        f = "y ~ " + rng.choice(["1", "x", "x + f", "0 + z"]) + " + " + gen_dm.rand_group(rng)
        if rng.random() < 0.4:
            f += " + " + gen_dm.rand_group(rng)
        cases.append({"formula": f, "frame": fr, "na": "drop", "kind": "random"})
    return cases


def _cells(df, factor_components):
    """cells of a grouping expression g1:g2 in lexicographic order of sorted levels"""
    lv = [D.levels_of(df, v) for v in factor_components]
    return [":".join(t) for t in itertools.product(*lv)], lv


def _uniform_class(formula):
    """listed finding KF-C05-1: effect expressions for which one flag for all effect terms is not
    what the common-effects analysis would choose"""
    m = re.search(r"\(([^|]*)\|", formula)
    if not m:
        return False
    eff = m.group(1)
    terms = [t.strip() for t in re.split(r"[+*]", eff)]
    cat = [t for t in terms if re.search(r"\b(f|h|o|c|C\(k\))", t)]
    return len(cat) >= 2 or any(":" in t for t in cat) or ("*" in eff and cat)


def _custom_oracle(c):
    import numpy as np
    from props import C17 as _C17
    ns = _C17._custom_ns()
    try:
        d = dm.build(dict(c, extra=ns))
    except Exception as e:
        return f"{c['formula']!r} with a user-defined Encoding raises {type(e).__name__}: {str(e)[:80]}"
    df = dm.to_pandas(c["frame"])
    flv = D.levels_of(df, "f")
    glv = D.levels_of(df, "g")
    H = ns["helm"]._h(len(flv))
    code = np.column_stack([np.full(len(flv), 0.5), H]) if c["full"] else H
    name = [n for n in d.group.terms if n.split("|")[0].startswith("C(f")][0]
    Z = np.asarray(d.group[name], dtype=float)
    p = code.shape[1]
    if Z.shape != (len(df), len(glv) * p):
        return f"{c['formula']!r}: block of {name} has shape {Z.shape}, expected {(len(df), len(glv) * p)}"
    for i in range(len(df)):
        want = np.zeros(len(glv) * p)
        gi = glv.index(str(df["g"].iloc[i]))
        want[gi * p:(gi + 1) * p] = code[flv.index(str(df["f"].iloc[i]))]
        if not np.allclose(Z[i], want, rtol=1e-12, atol=1e-12):
            return (f"{c['formula']!r}: row {i} of {name} is {Z[i].tolist()}, the effect's coding row in the slot of its "
                    f"group gives {want.tolist()}")
    return None


def model_cmd(c):
    if c.get("custom"):
        c = dict(c, formula="y ~ x + (1 | g)")    # placeholder: the comparison is skipped
    return D.model_cmd(c)


def impl_obs(c):
    if c.get("custom"):
        from props import C17 as _C17
        try:
            return ["ok", dm.observe_design(dm.build(dict(c, extra=_C17._custom_ns())))]
        except Exception as e:  # noqa
            return ["err", type(e).__name__, str(e)[:160]]
    return D.impl_obs(c)


def compare(c, mo, obs):
    if c.get("custom"):
        return None
    return D.compare(c, mo, obs)


def oracle(c):
    import numpy as np
    if c.get("custom"):
        return _custom_oracle(c)
    try:
        d = dm.build(c)
    except Exception:
        return None
    if d.group is None:
        return None
    df = dm.to_pandas(c["frame"])
    by_factor = {}
    for name, t in d.group.terms.items():
        Z = np.asarray(d.group[name], dtype=float)
        comps = [cp.name for cp in t.factor.components]
        vars_ = []
        for cn in comps:
            if cn not in D.ATOMS:
                return None
            vars_.append(D.ATOMS[cn][1])
        cells, lv = _cells(df, vars_)
        if list(t.groups) != cells:
            return f"{c['formula']!r} term {name}: groups {list(t.groups)}, expected {cells}"
        ng = len(cells)
        if Z.shape[1] % ng != 0:
            return f"{c['formula']!r} term {name}: {Z.shape[1]} columns for {ng} groups"
        p = Z.shape[1] // ng
        rowcell = [cells.index(":".join(str(df[v].iloc[i]) for v in vars_)) for i in range(len(df))]
        blocks = Z.reshape(len(df), ng, p)
        # the effect columns: the block of the row's own group
        own = np.stack([blocks[i, rowcell[i], :] for i in range(len(df))])
        for i in range(len(df)):
            other = np.delete(blocks[i], rowcell[i], axis=0)
            if np.any(other != 0):
                return f"{c['formula']!r} term {name}: row {i} is non-zero outside the slots of its group"
        # effect values do not depend on the group: compare with the label denotation
        labs = [str(l).split("|", 1)[0] for l in t.labels][:p]
        err = D.check_labels_columns(labs if labs != ["1"] else ["Intercept"], own, df,
                                     f"{c['formula']!r} effect columns of {name}")
        if err:
            return err
        # the coding rule for a single categorical effect: complete indicators unless the SAME grouping factor
        # also has an intercept term (whatever other factors have)
        ename = name.split("|", 1)[0]
        if ename in D.ATOMS and D.ATOMS[ename][0] == "cat" and len(t.expr.components) == 1:
            nlev_e = len(D.levels_of(df, D.ATOMS[ename][1]))
            has_icpt = any(n2.split("|", 1)[0] == "1" and set(t2.factor.name.split(":")) == set(t.factor.name.split(":"))
                           for n2, t2 in d.group.terms.items())
            want_p = nlev_e - 1 if has_icpt else nlev_e
            if p != want_p:
                return (f"{c['formula']!r} term {name}: {p} effect columns per group, the coding rule gives {want_p} "
                        f"({nlev_e} levels, intercept of the same factor {'present' if has_icpt else 'absent'})")
        by_factor.setdefault(t.factor.name, []).append((name, Z, own, ng, rowcell))
    # rank: the columns of one grouping factor are independent and span group x effect-cell means
    if c.get("kind") in ("grid", "same-factor"):
        # rank statements are about numeric columns in general position: redo the design on the same
        # frame with the numeric columns replaced by pseudo-random reals
        import zlib
        from formulae import design_matrices as _dmx
        g = np.random.default_rng(zlib.crc32(c["formula"].encode()) + len(df))
        df = df.copy()
        for col in ("x", "z", "w"):
            df[col] = g.normal(size=len(df)) * 3 + g.uniform(-5, 5)
        try:
            d = _dmx(c["formula"], df)
        except Exception:
            return None
        by_factor = {}
        for name, t in d.group.terms.items():
            Z = np.asarray(d.group[name], dtype=float)
            vars_ = [D.ATOMS[cp.name][1] for cp in t.factor.components]
            cells, _ = _cells(df, vars_)
            rowcell = [cells.index(":".join(str(df[v].iloc[i]) for v in vars_)) for i in range(len(df))]
            by_factor.setdefault(t.factor.name, []).append((name, Z, None, len(cells), rowcell))
        # group the terms by grouping factor regardless of the order its components are written in
        merged = {}
        for fac, lst in by_factor.items():
            merged.setdefault(":".join(sorted(fac.split(":"))), []).extend(lst)
        by_factor = merged
        for fac, lst in by_factor.items():
            if c.get("kind") == "same-factor" and fac != "g:h":
                continue  # the effect expression of this stratum belongs to the factor g:h
            Zall = np.column_stack([z for _, z, _, _, _ in lst])
            rank = np.linalg.matrix_rank(Zall)
            ng = lst[0][3]
            rowcell = lst[0][4]
            # model space: group indicators x common-effects design of the effect expression
            from formulae import design_matrices
            eff = c["effect"]
            try:
                X = np.asarray(design_matrices("y ~ " + eff, df).common.design_matrix, dtype=float)
            except Exception:
                continue
            J = np.zeros((len(df), ng))
            J[np.arange(len(df)), rowcell] = 1
            full = np.column_stack([J[:, [g]] * X for g in range(ng)])
            want = np.linalg.matrix_rank(full)
            tag = "[class:group_uniform_coding] " if _uniform_class(c["formula"]) else ""
            if rank != Zall.shape[1]:
                return f"{tag}{c['formula']!r}: the {Zall.shape[1]} columns of grouping factor {fac} have rank {rank}"
            if rank != want or np.linalg.matrix_rank(np.column_stack([Zall, full])) != want:
                return (f"{tag}{c['formula']!r}: columns of grouping factor {fac} span dimension {rank}, "
                        f"group-by-cell means of the effect expression need {want}")
    return None
