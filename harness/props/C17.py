"""C17 -- matrix containers are internally consistent."""
import dm
import gen_dm
from props import _design as D
from props._design import describe, nontrivial, unsupported, prepare, CASE_TIMEOUT  # noqa: F401
from props import C10 as _C10

ID = "C17"
PROP_FILES = ["Properties/C17.v"]
THEOREMS = ["C17_slices_contiguous", "C17_hstack_width", "C17_new_group_slices"]
ASSUMPTIONS = ["term names in the generated formulas are distinct call texts / identifiers"]
RULE = ("random designs and the objects derived from them by chains of 1-3 evaluate_new_data calls with and "
        "without unseen groups; non-trivial = design built; distinct = (formula, frame head, chain)")
EXHAUSTIVE = {"quick": False, "thorough": False}


def gen(rng, tier):
    n = 8000 if tier == "thorough" else 500
    cases = []
    for _ in range(n):
        sum_group = rng.random() < 0.08
        fr = gen_dm.make_frame(rng, nlev={"h": 2} if sum_group else None)
        f = gen_dm.rand_formula(rng, with_group=0.6, response=rng.choice(["y", "y", "f", "o", "f['b']", "prop(succ, n_trials)"]))
        if sum_group:
            # a contrast-coded grouping factor (full sum coding of two levels: the omitted level's row is [1, -1]): a
            # seen group is a seen group, the matrix on new data widens only for groups that are really new
            f = f.split(" + (")[0] + rng.choice([" + (1 | S(h))", " + (x | S(h))", " + (0 + x | S(h)) + (1 | g)"])
        chain = []
        placed_all = []
        for _ in range(rng.randint(1, 3)):
            new, placed = _C10._new_frame(rng, fr)
            # unseen levels only in grouping variables g, h (mode silent) so that common terms using them stay legal
            chain.append(new)
            placed_all.append(sorted(placed))
        kind = "random"
        if rng.random() < 0.5:
            # missing values in columns the formula does not use: every observation is retained
            import re as _re
            names = set(_re.findall(r"[A-Za-z_][A-Za-z_0-9]*", f))
            nrows = len(fr["columns"][0]["values"])
            for col in fr["columns"]:
                if col["name"] not in names and col["type"] in ("float", "str", "int") and not col.get("dtype"):
                    for r in rng.sample(range(nrows), rng.randint(1, 3)):
                        col["values"][r] = None
            kind = "unused-missing"
        cases.append({"formula": f, "frame": fr, "na": "drop", "chain": chain, "kind": kind, "placed": placed_all})
    for _ in range(100 if tier == "thorough" else 12):
        fr = gen_dm.make_frame(rng)
        for col in fr["columns"]:
            if col["name"] in ("f", "g"):
                col["values"] = [{"a": "ctl", "b": "ctl ", "p": " lo", "q": "lo"}.get(v, v) for v in col["values"]]
        f = "y ~ " + rng.choice(["f", "0 + f", "f:x", "x + (1 | g)", "g + (x | f)", "0 + f:g", "S(f)", "C(g, Treatment)"])
        cases.append({"formula": f, "frame": fr, "na": "drop", "chain": [], "kind": "padded-level"})
    # a level that is literally named 'mean' next to the [mean] column of a full-rank Sum coding
    for _ in range(200 if tier == "thorough" else 20):
        fr = gen_dm.make_frame(rng)
        for col in fr["columns"]:
            if col["name"] == "f":
                # 'mean' sorts first here, so it is a kept level under the default omission of the last one
                col["values"] = ["mean" if v == "a" else "z" + v for v in col["values"]]
        f = "y ~ " + rng.choice(["0 + S(f)", "0 + C(f, Sum)", "x + S(f)", "0 + S(f):g", "x + (0 + S(f) | g)", "0 + f",
                                 "S(f, 'mean')", "0 + C(f, Sum('mean'))"])
        cases.append({"formula": f, "frame": fr, "na": "drop", "chain": [], "kind": "mean-level"})
    # all-integer matrices holding integers beyond 2**53 (identifiers, nanosecond counts): every view is exact
    for _ in range(60 if tier == "thorough" else 8):
        fr = gen_dm.make_frame(rng)
        nrows = len(fr["columns"][0]["values"])
        big = [2 ** 53 + 1, 1700000000123456789, 7, -(2 ** 53) - 3, 2 ** 62 + 1]
        for col in fr["columns"]:
            if col["name"] == "z":
                col["values"] = [big[j % len(big)] + j // len(big) for j in range(nrows)]
                col.pop("dtype", None)
        f = rng.choice(["z ~ x + f", "z ~ 1", "y ~ 0 + z", "y ~ z + f", "z ~ f + (1 | g)", "y ~ f + (0 + z | g)", "z ~ z:f"])
        new, _ = _C10._new_frame(rng, fr)
        cases.append({"formula": f, "frame": fr, "na": "drop", "chain": [new], "kind": "big-integers"})
    # user-defined codings (subclasses of formulae.categorical.Encoding, the documented extension point) whose
    # contrast matrices hold fractions: every view of a container shows the same numbers (decided by the oracle:
    # the model knows the built-in codings only)
    for _ in range(300 if tier == "thorough" else 30):
        fr = gen_dm.make_frame(rng)
        f = "y ~ " + rng.choice(["C(f, Helm)", "0 + C(g, Helm)", "x + C(h, helm)", "C(f, Helm):x", "0 + C(f, helm):g",
                                 "C(f, Helm) + (1 | g)", "x + (0 + C(h, helm) | g)", "0 + C(o, Helm) + w"])
        new, _ = _C10._new_frame(rng, fr)
        cases.append({"formula": f, "frame": fr, "na": "drop", "chain": [new], "kind": "custom-encoding", "custom": True})
    return cases


def _custom_ns():
    import numpy as np
    from formulae.categorical import ContrastMatrix, Encoding

    class Helmert(Encoding):
        @staticmethod
        def _h(k):
            m = np.zeros((k, max(k - 1, 0)))
            for j in range(1, k):
                m[:j, j - 1] = -1.0 / (j + 1)
                m[j, j - 1] = j / (j + 1.0)
            return m

        def code_with_intercept(self, levels):
            k = len(levels)
            return ContrastMatrix(np.column_stack([np.full(k, 0.5), self._h(k)]), ["half"] + [f"H{j}" for j in range(1, k)])

        def code_without_intercept(self, levels):
            return ContrastMatrix(self._h(len(levels)), [f"H{j}" for j in range(1, len(levels))])

    return {"Helm": Helmert, "helm": Helmert()}


def _build(c):
    if c.get("custom"):
        return dm.build(dict(c, extra=_custom_ns()))
    return dm.build(c)


def key(c):
    return [c["formula"], c["frame"]["columns"][0]["values"][:6], [n["columns"][5]["values"][:4] for n in c["chain"]]]


def model_cmd(c):
    import core
    if c.get("custom"):
        c = dict(c, formula="y ~ x")   # placeholder: the comparison with the model is skipped for these cases
    return core.sshow(["newdata", c["formula"], dm.frame_sexp(c["frame"]), "drop", [], "silent",
                       [dm.frame_sexp(n) for n in c["chain"]]])


def impl_obs(c):
    try:
        d = _build(c)
    except Exception as e:  # noqa
        return ["err", type(e).__name__, str(e)[:120]]
    out = ["ok", dm.observe_design(d), []]
    for new in c["chain"]:
        df = dm.to_pandas(new)
        row = []
        for part in ("common", "group"):
            obj = getattr(d, part)
            if obj is None:
                row.append(["none"])
                continue
            r, _ = _C10._eval(obj, df, "silent")
            if isinstance(r, Exception):
                row.append(["err", type(r).__name__])
            elif part == "common":
                row.append(["ok", dm._rows(r.design_matrix)])
            else:
                row.append(["ok", dm._rows(r.design_matrix), [[k, v.start, v.stop] for k, v in r.slices.items()],
                            list(r.factors_with_new_levels)])
        out[2].append(row)
    return out


def compare(c, mo, obs):
    if unsupported(mo) or c.get("custom"):
        return None
    if mo[0] != obs[0]:
        return f"model {mo[:2]} / implementation {obs[:3]} on {c['formula']!r}"[:300]
    if mo[0] != "ok":
        return None
    d = dm.compare_design(mo[1], obs[1])
    if d:
        return f"{c['formula']!r} training: {d}"[:400]
    for k, (mn, inn) in enumerate(zip(mo[2], obs[2])):
        for part, m, i in (("common", mn[0], inn[0]), ("group", mn[1], inn[1])):
            if m[0] == "err" and m[1] == "Unsupported":
                continue
            if m[0] != i[0]:
                return f"{c['formula']!r} chain[{k}] {part}: model {m[:2]} impl {i[:2]}"[:300]
            if m[0] != "ok":
                continue
            if not dm.rows_eq(m[1][0], i[1]):
                return f"{c['formula']!r} chain[{k}] {part}: matrices differ"
            if part == "group":
                ms = [[s[0], int(s[1]), int(s[2])] for s in m[1][1]]
                if ms != i[2]:
                    return f"{c['formula']!r} chain[{k}]: slices model {ms} impl {i[2]}"
                if list(m[1][2]) != i[3]:
                    return f"{c['formula']!r} chain[{k}]: factors_with_new_levels model {m[1][2]} impl {i[3]}"
    return None


def _check_container(obj, what, nrows, labels=None, mean_level=False):
    import numpy as np
    M = np.asarray(obj.design_matrix)
    if M.ndim != 2:
        return f"{what}: design_matrix has {M.ndim} dimensions"
    if M.shape[0] != nrows:
        return f"{what}: {M.shape[0]} rows for {nrows} observations"
    start = 0
    if list(obj.slices.keys()) != list(obj.terms.keys()):
        return f"{what}: slices {list(obj.slices)} do not follow the terms {list(obj.terms)}"
    for name, sl in obj.slices.items():
        if sl.start != start or sl.stop < sl.start or sl.step not in (None, 1):  # a term may have no column
            return f"{what}: slice of {name} is {sl}, expected to start at {start}"
        if not np.array_equal(obj[name], M[:, sl], equal_nan=True):
            return f"{what}: obj[{name!r}] differs from design_matrix[:, slice]"
        start = sl.stop
    if start != M.shape[1]:
        return f"{what}: slices cover {start} of {M.shape[1]} columns"
    try:
        obj["<no such term>"]
        return f"{what}: an unknown term name was accepted"
    except ValueError:
        pass
    if not np.array_equal(np.asarray(obj), M, equal_nan=True):
        return f"{what}: numpy conversion differs from design_matrix"
    # np.array(obj) makes a copy: the same numbers in the same dtype (an integer matrix stays exact)
    A = np.array(obj)
    if A.dtype != M.dtype or not np.array_equal(A, M, equal_nan=True) or (M.dtype.kind in "iu" and A.tolist() != M.tolist()):
        return f"{what}: np.array(obj) is {A.dtype} {A.reshape(-1)[:3].tolist()}..., design_matrix is {M.dtype} {M.reshape(-1)[:3].tolist()}..."
    for fn in (str, repr):
        try:
            txt = fn(obj)
        except Exception as e:
            return f"{what}: {fn.__name__}() raises {type(e).__name__}: {str(e)[:60]}"
        if f"shape {M.shape}" not in txt:
            return f"{what}: {fn.__name__}() does not report the shape {M.shape}"
    if labels is not None:
        if len(labels) != M.shape[1]:
            return f"{what}: {len(labels)} labels for {M.shape[1]} columns"
        if len(set(labels)) != len(labels):
            dup = sorted(l for l in set(labels) if labels.count(l) > 1)[:3]
            # listed finding KF-C17-2: the [mean] column of a full-rank Sum coding collides with a level
            # that is literally named 'mean'
            tag = "[class:level_named_mean] " if all("[mean]" in l for l in dup) and mean_level else ""
            return f"{tag}{what}: column labels are not unique: {dup}"
    return None


def oracle(c):
    import numpy as np
    try:
        d = _build(c)
    except Exception as e:
        if c.get("custom"):
            return f"{c['formula']!r} with a user-defined Encoding raises {type(e).__name__}: {str(e)[:80]}"
        return None
    df0 = dm.to_pandas(c["frame"])
    n = len(df0)
    f = c["formula"]
    mean_level = any("mean" in [str(v) for v in col["values"]] for col in c["frame"]["columns"]
                     if col["type"] in ("str", "cat", "ordcat"))
    resp, common, group = d
    if (resp is not d.response) or (common is not d.common) or (group is not d.group):
        return f"{f!r}: tuple unpacking does not return the three members"
    for fn in (str, repr):
        try:
            fn(d)
        except Exception as e:
            return f"{f!r}: {fn.__name__}(design) raises {type(e).__name__}"
    if d.response is not None:
        R = np.asarray(d.response.design_matrix)
        if R.shape[0] != n:
            return f"{f!r}: response has {R.shape[0]} rows for {n} observations"
        if not np.array_equal(np.asarray(d.response), R):
            return f"{f!r}: numpy conversion of the response differs"
        A = np.array(d.response)
        if A.dtype != R.dtype or (R.dtype.kind in "iu" and A.tolist() != R.tolist()):
            return f"{f!r}: np.array(response) is {A.dtype} {A.reshape(-1)[:3].tolist()}, design_matrix is {R.dtype} {R.reshape(-1)[:3].tolist()}"
        try:
            txt = str(d.response)
            if f"shape: {R.shape}" not in txt:
                return f"{f!r}: str(response) does not report the shape"
            rdf = d.response.as_dataframe()
        except Exception as e:
            return f"{f!r}: response view raises {type(e).__name__}: {str(e)[:60]}"
        if rdf.shape[0] != n or not np.array_equal(np.asarray(rdf).reshape(R.shape), R):
            return f"{f!r}: response.as_dataframe() differs from design_matrix"
    if d.common is not None:
        try:
            cdf = d.common.as_dataframe()
        except Exception as e:
            return f"{f!r}: common.as_dataframe() raises {type(e).__name__}: {str(e)[:60]}"
        err = _check_container(d.common, f"{f!r} common", n, [str(x) for x in cdf.columns], mean_level)
        if err:
            return err
        if not np.array_equal(np.asarray(cdf), np.asarray(d.common.design_matrix), equal_nan=True):
            return f"{f!r}: common.as_dataframe() differs from design_matrix"
    if d.group is not None:
        labs = [l for t in d.group.terms.values() for l in t.labels]
        err = _check_container(d.group, f"{f!r} group", n, labs, mean_level)
        if err:
            return err
    for k, new in enumerate(c["chain"]):
        df = dm.to_pandas(new)
        for part in ("common", "group"):
            obj = getattr(d, part)
            if obj is None:
                continue
            r, _ = _C10._eval(obj, df, "silent")
            if isinstance(r, Exception):
                continue
            err = _check_container(r, f"{f!r} {part} after evaluate_new_data #{k + 1}", len(df))
            if err:
                return err
            if part == "group" and c.get("placed") is not None and k < len(c["placed"]):
                # no unseen value in any grouping variable: nothing is a new group, the matrix keeps its training width
                gvars = set()
                for t in obj.terms.values():
                    for cp in t.factor.components:
                        a = D.ATOMS.get(cp.name)
                        gvars.add(a[1] if a else "?")
                if "?" not in gvars and not (gvars & set(c["placed"][k])):
                    if list(r.factors_with_new_levels) or np.asarray(r.design_matrix).shape[1] != np.asarray(obj.design_matrix).shape[1]:
                        return (f"{f!r}: new frame #{k + 1} has no unseen value in the grouping variables {sorted(gvars)} but "
                                f"factors_with_new_levels = {list(r.factors_with_new_levels)} and the group matrix has "
                                f"{np.asarray(r.design_matrix).shape[1]} columns (training: {np.asarray(obj.design_matrix).shape[1]})")
            if part == "common":
                try:
                    rdf2 = r.as_dataframe()
                except Exception as e:
                    return f"{f!r}: as_dataframe() of the common matrix on new data raises {type(e).__name__}"
                if not np.array_equal(np.asarray(rdf2), np.asarray(r.design_matrix), equal_nan=True):
                    return f"{f!r}: as_dataframe() of the common matrix on new data differs from its design_matrix"
            # deriving again from the derived object gives the same thing
            r2, _ = _C10._eval(r, df, "silent")
            if not isinstance(r2, Exception):
                err = _check_container(r2, f"{f!r} {part} after two evaluate_new_data calls", len(df))
                if err:
                    return err
                if not np.array_equal(np.asarray(r2.design_matrix), np.asarray(r.design_matrix), equal_nan=True):
                    return f"{f!r}: {part} re-evaluated from a derived object differs"
    return None
