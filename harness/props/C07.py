"""C07 -- designs are isolated: no state leaks across evaluations, designs or calls."""
import itertools

import dm
import gen_dm
from props import C10 as _C10

ID = "C07"
PROP_FILES = ["Properties/C07.v"]
THEOREMS = ["C07_history_refines", "C07_designs_append_only", "C07_bad_config_refused"]
ASSUMPTIONS = ["'fresh process-state' of the oracle = objects rebuilt from scratch inside the same worker process "
               "after restoring the default configuration (the correspondence additionally compares the whole "
               "history with the model, which has no hidden state)"]
RULE = ("histories over a pool of 14 formulas x 4 frames of the operations build-design, evaluate-common, "
        "evaluate-group and set-config: random histories of length <= 12 and (thorough) all histories of length "
        "<= 3 over a reduced pool; non-trivial = at least one evaluation of an earlier design; distinct = history")
EXHAUSTIVE = {"quick": False, "thorough": False}
CASE_TIMEOUT = 120

FORMULAS = ["y ~ x + f", "y ~ center(x) + g", "y ~ scale(z):f + (1 | g)", "y ~ 0 + f:g + (x | h)",
            "y ~ C(k) + center(x + w) + (0 + x | g)", "y ~ f*h + (1 | g) + (z | g)", "y ~ T(g, 'q') + scale(center(z))",
            "y ~ poly(x, 2) + f + (1 | h)", "y ~ bs(z, df=4) + (center(x) | g)", "y ~ S(f):x + o", "f ~ x + g",
            "y ~ standardize(w) + C(f, Sum) + (1 | g:h)",
            # interactions whose lower-order margins are absent: formulae inserts helper terms of several factors
            "y ~ f:g:h", "y ~ x + f:h:g:x"]
MODES = ["error", "warning", "silent", "bogus", "warn", "", "err"]
# a formula that calls a user function taken from extra_namespace; builds that use it pass one of two
# different definitions of tr, and every build of a history receives the SAME Environment object as env=
TR = len(FORMULAS)
FORMULAS = FORMULAS + ["y ~ tr(x) + f"]
# the same with a DOTTED callee (xp.f): what the dotted name means is looked up in the namespace of each call
TRD = len(FORMULAS)
FORMULAS = FORMULAS + ["y ~ xp.f(x) + f"]
NAMESPACES = {"A": "lambda v: v * 2 + 1", "B": "lambda v: v * v", "C": None}
# formulas naming encoding OBJECTS of the caller's namespace (one Treatment() and one Sum() per history,
# shared by all its builds): using an object for one design must not change what it does for the next
ENC = list(range(len(FORMULAS), len(FORMULAS) + 4))
FORMULAS = FORMULAS + ["y ~ C(g, enc) + x", "y ~ C(f, enc) + C(g, senc)", "y ~ 0 + C(h, enc)", "y ~ x + C(g, senc)"]
# a formula reading a numpy array (spline knots, not in ascending order) from the caller's namespace: the array
# is the caller's object and must come back unchanged
KN = len(FORMULAS)
FORMULAS = FORMULAS + ["y ~ bs(x, knots=kn) + f"]
OUTSIDE = [TR, TRD] + ENC + [KN]


def _pool(rng):
    base = gen_dm.make_frame(rng, n=14)
    n = 14
    frames = [base]
    frames.append(dm.select_rows(base, [rng.randrange(n) for _ in range(6)]))
    f3 = dm.select_rows(base, [rng.randrange(n) for _ in range(5)])
    for c in f3["columns"]:
        if c["name"] in ("x", "w"):
            c["values"] = [str(rng.randint(-30, 30)) for _ in c["values"]]
        if c["name"] == "z":
            c["values"] = [rng.randint(1, 40) for _ in c["values"]]
        if c["name"] == "g":
            c["values"][0] = "NEWGROUP"
    frames.append(f3)
    other = gen_dm.make_frame(rng, n=9)
    frames.append(other)
    return frames


def _history(rng, length):
    ops = []
    nbuilt = 0
    for _ in range(length):
        r = rng.random()
        if nbuilt == 0 or r < 0.3:
            ops.append(["build", rng.randrange(len(FORMULAS)), rng.choice([0, 0, 3])])
            nbuilt += 1
        elif r < 0.6:
            ops.append(["common", rng.randrange(nbuilt), rng.randrange(4)])
        elif r < 0.85:
            ops.append(["group", rng.randrange(nbuilt), rng.randrange(4)])
        else:
            ops.append(["config", rng.choice(MODES)])
    return ops


def gen(rng, tier):
    cases = []
    n = 1500 if tier == "thorough" else 120
    for _ in range(n):
        cases.append({"frames": _pool(rng), "ops": _history(rng, rng.randint(2, 12)), "kind": "random"})
    # histories whose builds share one caller-supplied Environment and differ in extra_namespace
    for i in range(200 if tier == "thorough" else 30):
        ops = []
        for _ in range(rng.randint(2, 4)):
            ops.append(["build", rng.choice([TR, TRD]), rng.choice([0, 3]), rng.choice(["A", "B", "A", "B", "C"])])
            if rng.random() < 0.5:
                ops.append(["common", len([o for o in ops if o[0] == "build"]) - 1, rng.randrange(4)])
        cases.append({"frames": _pool(rng), "ops": ops, "kind": "shared-env", "shared_env": True})
    for i in range(200 if tier == "thorough" else 30):
        ops = []
        for _ in range(rng.randint(2, 4)):
            ops.append(["build", rng.choice(ENC), rng.choice([0, 2, 3])])
            if rng.random() < 0.4:
                ops.append(["common", len([o for o in ops if o[0] == "build"]) - 1, rng.randrange(4)])
        cases.append({"frames": _pool(rng), "ops": ops, "kind": "shared-encoder"})
    for i in range(100 if tier == "thorough" else 12):
        ops = [["build", KN, rng.choice([0, 3])]]
        if rng.random() < 0.5:
            ops.append(["common", 0, rng.randrange(4)])
        if rng.random() < 0.5:
            ops.append(["build", KN, 0])
        cases.append({"frames": _pool(rng), "ops": ops, "kind": "namespace-array"})
    # a training column whose mean is EXACTLY zero (v, -v pairs; z - its own mean for scale): a learnt parameter
    # equal to 0.0 is a learnt parameter, later frames are encoded with it and never re-learn it
    for i in range(60 if tier == "thorough" else 10):
        frames = _pool(rng)
        half = [rng.randint(1, 9) for _ in range(7)]
        sym = [str(v) for v in half] + [str(-v) for v in half]
        rng.shuffle(sym)
        for col in frames[0]["columns"]:
            if col["name"] == "x":
                col["values"] = sym
            if col["name"] == "w":
                col["values"] = [str(-int(v)) if "/" not in v else "0" for v in sym]   # x + w == 0 or x: mean 0 too
        ops = [["build", rng.choice([1, 4, 8]), 0], ["common", 0, rng.choice([2, 3])], ["common", 0, rng.choice([1, 2, 3])],
               [rng.choice(["common", "group"]), 0, rng.choice([1, 3])]]
        cases.append({"frames": frames, "ops": ops, "kind": "zero-mean"})
    # frames that hold EXACTLY the columns the formula uses (nothing to trim away), with missing values: the
    # caller's frame is still the caller's -- values, rows and index are the same after any number of designs
    for i in range(40 if tier == "thorough" else 8):
        frames = _pool(rng)
        fidx = rng.choice([0, 1, 9])
        keep = {0: ["y", "x", "f"], 1: ["y", "x", "g"], 9: ["y", "f", "x", "o"]}[fidx]
        frames[0] = {"columns": [dict(c_, values=list(c_["values"])) for c_ in frames[0]["columns"] if c_["name"] in keep]}
        for c_ in frames[0]["columns"]:
            if c_["name"] == "x":
                for r_ in rng.sample(range(len(c_["values"])), 3):
                    c_["values"][r_] = None
        ops = [["build", fidx, 0], ["build", fidx, 0], ["common", 1, 0], ["build", fidx, 0]]
        cases.append({"frames": frames, "ops": ops, "kind": "exact-columns"})
    # the SAME frame object evaluated again after the policy changed: every evaluation answers for the policy in
    # force now (frame 2 holds an unseen level of g)
    for i in range(40 if tier == "thorough" else 8):
        fidx = rng.choice([1, 3, 5, 6])
        seq = rng.choice([["silent", "error", "warning"], ["warning", "error"], ["silent", "error"], ["warning", "silent", "error"]])
        ops = [["build", fidx, 0]]
        for mode in seq:
            ops += [["config", mode], ["common", 0, 2]]
        ops += [["group", 0, 2]] if fidx in (3, 5) else []
        cases.append({"frames": _pool(rng), "ops": ops, "kind": "same-frame-new-policy"})
    # a share of short histories is additionally compared with a brand-new interpreter per operation
    for i in range(60 if tier == "thorough" else 12):
        ops = [["build", rng.choice([7, 8, 1, 4, 6, 12, 13]), 0], ["build", rng.choice([7, 8, 1, 4, 6, 12, 13]), 3],
               [rng.choice(["common", "group"]), 1, rng.randrange(4)]]
        cases.append({"frames": _pool(rng), "ops": ops, "kind": "fresh-process", "fresh_process": True})
    if tier == "thorough":
        frames = _pool(rng)
        alphabet = [["build", 1, 0], ["build", 5, 0], ["common", 0, 1], ["common", 0, 2], ["group", 0, 2],
                    ["common", 1, 1], ["config", "silent"], ["config", "error"]]
        for k in (2, 3):
            for seq in itertools.product(alphabet, repeat=k):
                cases.append({"frames": frames, "ops": [["build", 5, 0]] + [list(o) for o in seq], "kind": f"exh{k}"})
    return cases


def key(c):
    return [c["ops"], c["frames"][0]["columns"][0]["values"][:4]]


def describe(c, mo, obs):
    return f"{c['kind']}/len{len(c['ops'])}"


def nontrivial(c, mo, obs):
    return any(o[0] in ("common", "group") for o in c["ops"])


def model_cmd(c):
    import core
    ops = [[o[0]] + [str(x) for x in o[1:3]] for o in c["ops"]]
    return core.sshow(["c07", FORMULAS, [dm.frame_sexp(f) for f in c["frames"]], ops])


def _public_view(d):
    import json
    v = [dm.observe_design(d)]
    for part in (d.common, d.group):
        if part is None:
            v.append(None)
            continue
        sl = [[str(k), int(x.start), int(x.stop)] for k, x in part.slices.items()]
        refused = False
        try:
            part["no such term in any design"]
        except Exception:  # noqa
            refused = True
        v.append([sl, list(part.terms), refused])
    # the per-term training blocks the design keeps (terms[name].data; expr and factor of a group term)
    blocks = []
    for part in (d.response, d.common, d.group):
        if part is None:
            continue
        terms = [part.term.term] if part is d.response else list(part.terms.values())
        for t in terms:
            for obj in (t, getattr(t, "expr", None), getattr(t, "factor", None)):
                dat = getattr(obj, "data", None)
                if dat is not None:
                    try:
                        blocks.append(dm._rows(dat))
                    except Exception:  # noqa
                        blocks.append(str(type(dat)))
    v.append(blocks)
    return json.loads(json.dumps(v))


def _execute(c, fresh_each=False):
    """runs the history; returns the outputs (same shapes as the model's) and side-effect reports"""
    import numpy as np
    import formulae
    from formulae import design_matrices
    dfs = [dm.to_pandas(f) for f in c["frames"]]
    copies = [d.copy(deep=True) for d in dfs]
    formulae.config["EVAL_UNSEEN_CATEGORIES"] = "error"
    from formulae.categorical import Sum, Treatment
    encoders = {"enc": Treatment(), "senc": Sum()}
    arrays = []
    designs, outs, trained, views = [], [], [], []
    problems = []
    from formulae.environment import Environment
    shared = Environment.capture(0) if c.get("shared_env") else 0
    try:
        for o in c["ops"]:
            if o[0] == "build":
                try:
                    ns = None
                    if len(o) > 3 and NAMESPACES.get(o[3]):
                        import types as _types
                        ns = {"tr": eval(NAMESPACES[o[3]]), "xp": _types.SimpleNamespace(f=eval(NAMESPACES[o[3]]))}
                    if o[1] in ENC:
                        ns = dict(ns or {}, **encoders)
                    if o[1] == KN:
                        xs = sorted(float(v) for v in dfs[o[2]]["x"])
                        lo, hi = xs[0], xs[-1]
                        kn = np.array([lo + (hi - lo) * q for q in (0.75, 0.25, 0.5)])   # descending then up
                        arrays.append((kn, kn.copy()))
                        ns = dict(ns or {}, kn=kn)
                    d = design_matrices(FORMULAS[o[1]], dfs[o[2]], env=shared, extra_namespace=ns)
                    if o[1] in (TR, TRD) and len(o) > 3 and NAMESPACES.get(o[3]):
                        # what the user function of THIS call computes, whatever earlier calls were given under that name
                        tname = "tr(x)" if o[1] == TR else "xp.f(x)"
                        want = np.asarray(eval(NAMESPACES[o[3]])(dfs[o[2]]["x"].to_numpy(dtype=float)), dtype=float)
                        got = np.asarray(d.common[tname], dtype=float).reshape(-1)
                        if got.shape != want.shape or not np.allclose(got, want, rtol=1e-12, atol=1e-12):
                            problems.append(f"design built with namespace {o[3]} ({NAMESPACES[o[3]]}): the column {tname} holds "
                                            f"{got[:3].tolist()}..., that function gives {want[:3].tolist()}...")
                    designs.append(d)
                    trained.append([None if p is None else np.array(p.design_matrix, copy=True)
                                    for p in (d.response, d.common, d.group)])
                    outs.append(["design", ["ok", dm.observe_design(d)]])
                    views.append(_public_view(d))
                except Exception as e:  # noqa
                    designs.append(e)
                    trained.append(None)
                    views.append(None)
                    outs.append(["design", ["err", type(e).__name__]])
            elif o[0] in ("common", "group"):
                if o[1] >= len(designs):
                    outs.append(["bad"])
                    continue
                d = designs[o[1]]
                if isinstance(d, Exception):
                    outs.append([o[0], ["err", type(d).__name__]])
                    continue
                obj = d.common if o[0] == "common" else d.group
                if obj is None:
                    outs.append([o[0], ["err", "AttributeError"]])
                    continue
                mode = formulae.config["EVAL_UNSEEN_CATEGORIES"]
                r, warned = _C10._eval(obj, dfs[o[2]], mode)
                if isinstance(r, Exception):
                    outs.append([o[0], ["err", type(r).__name__]])
                elif o[0] == "common":
                    outs.append(["common", ["ok", dm._rows(r.design_matrix), warned]])
                else:
                    outs.append(["group", ["ok", dm._rows(r.design_matrix),
                                           [[k, v.start, v.stop] for k, v in r.slices.items()],
                                           list(r.factors_with_new_levels), warned]])
            else:
                try:
                    formulae.config["EVAL_UNSEEN_CATEGORIES"] = o[1]
                    outs.append(["config", True])
                except ValueError:
                    outs.append(["config", False])
        # side effects
        for i, (a, b) in enumerate(zip(dfs, copies)):
            if not (a.equals(b) and list(a.columns) == list(b.columns) and list(a.dtypes) == list(b.dtypes)
                    and a.index.equals(b.index)):
                problems.append(f"the caller's DataFrame #{i} was modified")
        for i, (d, t) in enumerate(zip(designs, trained)):
            if t is None:
                continue
            for name, p, m in zip(("response", "common", "group"), (d.response, d.common, d.group), t):
                if p is not None and not np.array_equal(np.asarray(p.design_matrix), m, equal_nan=True):
                    problems.append(f"the {name} training matrix of design #{i} changed after it was built")
        for kn, before in arrays:
            if not np.array_equal(kn, before):
                problems.append(f"a numpy array of the caller's namespace was modified: {before.tolist()} -> {kn.tolist()}")
        # what a design answers through its public accessors (term names, slices, common[name], group[name],
        # labels, levels) is the same at the end of the history as when it was built
        for i, (d, v) in enumerate(zip(designs, views)):
            if v is not None and _public_view(d) != v:
                problems.append(f"what design #{i} returns through its accessors (slices / [name] / labels) "
                                f"changed after it was built")
    finally:
        formulae.config["EVAL_UNSEEN_CATEGORIES"] = "error"
    return outs, problems


def impl_obs(c):
    outs, problems = _execute(c)
    return ["ok", outs, problems]


def compare(c, mo, obs):
    if len(mo) != len(obs[1]):
        return f"history {c['ops']}: {len(mo)} model outputs, {len(obs[1])} implementation outputs"
    tr_designs = set()
    nb = 0
    for o in c["ops"]:
        if o[0] == "build":
            if o[1] in OUTSIDE:
                tr_designs.add(nb)
            nb += 1
    for k, (m, i) in enumerate(zip(mo, obs[1])):
        op = c["ops"][k]
        if (op[0] == "build" and op[1] in OUTSIDE) or (op[0] in ("common", "group") and op[1] in tr_designs):
            continue  # calls a user function: outside the model, decided by the oracle
        if m[0] != i[0]:
            return f"op {k} {op}: model {m[0]} implementation {i[0]}"
        if m[0] == "bad":
            continue
        if m[0] == "config":
            if (m[1] == "true") != bool(i[1]):
                return f"op {k} {op}: config accepted model {m[1]} implementation {i[1]}"
            continue
        mr, ir = m[1], i[1]
        if mr[0] == "err" and mr[1] == "Unsupported":
            continue
        if mr[0] != ir[0]:
            return f"op {k} {op}: model {mr[:2]} implementation {ir[:2]}"
        if mr[0] != "ok":
            continue
        if m[0] == "design":
            d = dm.compare_design(mr[1], ir[1])
            if d:
                return f"op {k} {op}: {d}"[:300]
        elif m[0] == "common":
            if not dm.rows_eq(mr[1][0], ir[1]):
                return f"op {k} {op} in history {c['ops'][:k + 1]}: common matrices differ"
            if (mr[1][1] == "true") != bool(ir[2]):
                return f"op {k} {op}: warning model {mr[1][1]} implementation {ir[2]}"
        else:
            if not dm.rows_eq(mr[1][0], ir[1]):
                return f"op {k} {op} in history {c['ops'][:k + 1]}: group matrices differ"
            if [[s[0], int(s[1]), int(s[2])] for s in mr[1][1]] != ir[2]:
                return f"op {k} {op}: slices differ"
    return None


def _execute_in_new_process(single):
    """runs a (short) history in a brand-new interpreter: no state of this worker can leak into it"""
    import json
    import os
    import subprocess
    import sys
    code = ("import sys, json; sys.path[:0] = %r; from props import C07; "
            "c = json.loads(sys.stdin.read()); o, p = C07._execute(c); print('@@' + json.dumps(o))"
            % ([p for p in sys.path if p and ("harness" in p or p == os.environ.get("VERIF_REPO", "/repo") or "repo" in p or "evalwt" in p or "seed" in p)],))
    env = dict(os.environ)
    # a new interpreter of a real user has its own string-hash seed (and its own object addresses): what a design
    # is must not depend on either
    env["PYTHONHASHSEED"] = str(1 + len(json.dumps(single)) % 211)
    r = subprocess.run([sys.executable, "-c", code], input=json.dumps(single), capture_output=True, text=True,
                       timeout=120, env=env)
    for line in r.stdout.splitlines():
        if line.startswith("@@"):
            return json.loads(line[2:])
    raise RuntimeError("fresh process failed: " + r.stderr[-300:])


def oracle(c):
    """each operation re-executed on freshly built objects must return what it returned in the history"""
    outs, problems = _execute(c)
    if problems:
        return f"history {c['ops']}: {problems[0]}"
    mode = "error"
    builds = []
    for k, o in enumerate(c["ops"]):
        if o[0] == "build":
            builds.append(o)
            single = dict(c, ops=[o])
        elif o[0] in ("common", "group"):
            if o[1] >= len(builds):
                continue
            single = dict(c, ops=[["config", mode], builds[o[1]], [o[0], 0, o[2]]])
        else:
            if o[1] in ("error", "warning", "silent"):
                mode = o[1]
            continue
        fresh, _ = _execute(single)
        if fresh[-1] != outs[k]:
            return (f"operation {k} {o} returned something else inside the history {c['ops'][:k + 1]} than when "
                    f"executed on freshly built objects")
        if c.get("fresh_process"):
            import json
            fresh2 = _execute_in_new_process(single)
            if json.loads(json.dumps(outs[k])) != fresh2[-1]:
                return (f"operation {k} {o} returned something else in this process (after the history "
                        f"{c['ops'][:k + 1]} and whatever ran before) than in a fresh interpreter")
    # determinism
    again, _ = _execute(c)
    if again != outs:
        return f"history {c['ops']}: executing it twice gives different results"
    return None


def shrink_candidates(c):
    out = []
    ops = c["ops"]
    for i in range(len(ops)):
        cand = ops[:i] + ops[i + 1:]
        # keep design indexes meaningful: only drop non-build operations or trailing builds
        if ops[i][0] != "build" or not any(o[0] in ("common", "group") for o in ops[i + 1:]):
            out.append(dict(c, ops=cand))
    return out
