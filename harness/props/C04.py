"""C04 -- every design-matrix column holds exactly what its label says."""
import re

import dm
import gen_dm
from props._design import *  # noqa: F401,F403
from props import _design as D

ID = "C04"
PROP_FILES = ["Properties/C04.v", "Properties/C04_matrix.v", "Properties/C04_whole.v", "Properties/C04_group_whole.v"]
THEOREMS = ["C04_labelled_product", "C04_treatment_indicator", "C04_labels_columns_count"]
ASSUMPTIONS = ["integer-valued numeric columns (products exact in float64)",
               "levels are str / Categorical / ordered Categorical / small integers via C()"]
RULE = ("random formulas over numeric, treatment-coded and sum-coded atoms (main effects, interactions of arity "
        "<= 3 in random factor order, group-specific terms) on random frames with unequal level counts; "
        "non-trivial = design built by both sides; distinct = (formula, first y values)")
EXHAUSTIVE = {"quick": False, "thorough": False}


def _term(rng):
    arity = rng.choice([1, 1, 2, 2, 3])
    atoms = []
    for _ in range(arity):
        r = rng.random()
        pool = D.NUM_ATOMS if r < 0.35 else (D.TREAT_ATOMS if r < 0.85 else D.SUM_ATOMS)
        a = rng.choice(pool)
        if a not in atoms:
            atoms.append(a)
    return ":".join(atoms)


def _formula(rng):
    terms = []
    for _ in range(rng.randint(1, 4)):
        t = _term(rng)
        if t not in terms:
            terms.append(t)
    rhs = " + ".join(terms)
    if rng.random() < 0.3:
        rhs = "0 + " + rhs
    if rng.random() < 0.35:
        eff = rng.choice(["1", "x", "0 + x", "f", "0 + f", "x + z", "x:f", "0 + h", "C(k)", "z:w", "0 + f:h",
                          # multi-column numeric effects: one label per column of the basis and per group
                          "0 + poly(x, 2, raw=True)", "bs(x, df=3)", "0 + bs(z, df=4)"])
        grp = rng.choice(["g", "g:h", "g + h", "C(k)", "h", "k", "o", "f:h", "g/h"])
        rhs += f" + ({eff} | {grp})"
    resp = rng.choice(["y", "y", "y", "f", "o", "z"])
    return f"{resp} ~ {rhs}"


def gen(rng, tier):
    n = 30000 if tier == "thorough" else 1200
    cases = []
    for _ in range(n):
        fr = gen_dm.make_frame(rng)
        kind = "random"
        if rng.random() < 0.25:
            # incomplete rows are removed by POSITION; what is left still holds what its labels say
            nrows = len(fr["columns"][0]["values"])
            for col in fr["columns"]:
                if col["name"] in ("x", "w", "y") and rng.random() < 0.6:
                    for r in rng.sample(range(nrows), rng.randint(1, max(1, nrows // 6))):
                        col["values"][r] = None
            if rng.random() < 0.6:
                fr["index"] = [j % 4 for j in range(nrows)]
            kind = "with-missing"
        case = {"formula": _formula(rng), "frame": fr, "na": "drop", "kind": kind}
        if rng.random() < 0.2:
            # the same formula text is used for ANOTHER data set (other level counts) after the design was built
            # and before it is looked at: what a design's labels say is about its own data
            case["again"] = gen_dm.make_frame(rng)
            case["kind"] = kind + "/looked-at-later"
        cases.append(case)
    # explicit levels= on an ORDERED categorical whose declared order is another one: levels= is the order asked for
    for _ in range(200 if tier == "thorough" else 20):
        fr = gen_dm.make_frame(rng)
        olv = gen_dm.frame_levels(fr, "o")
        perm = olv[:]
        while perm == olv and len(olv) > 1:
            rng.shuffle(perm)
        call, coding = rng.choice([("C(o, levels=olv)", "treatment"), ("T(o, levels=olv)", "treatment"), ("S(o, levels=olv)", "sum"),
                                   ("C(o, Sum, levels=olv)", "sum")])
        shape = rng.choice(["{a}", "0 + {a}", "x + {a}", "0 + {a} + x", "{a} + (1 | g)"])
        cases.append({"formula": "y ~ " + shape.format(a=call), "frame": fr, "na": "drop", "kind": "levels-on-ordered",
                      "extra": {"olv": perm}, "olv": perm, "atom": call, "coding": coding, "full": shape.startswith("0 + {a}")})
    fixed = ["y ~ f:g", "y ~ g:f", "y ~ 0 + f:g:h", "y ~ x:f", "y ~ f:x", "y ~ 0 + h:x:f", "y ~ f/g", "y ~ 0 + (f + g)*h",
             "y ~ (0 + f | g + h) + (1 | g)", "y ~ (x | g:h)", "y ~ C(k):o", "y ~ o + c", "f ~ x", "y ~ (f | C(k))"]
    for f in fixed:
        cases.append({"formula": f, "frame": gen_dm.make_frame(rng), "na": "drop", "kind": "fixed"})
    # a spline basis with no column at all (df=0, degree=0, no intercept): listed finding KF-C04-2
    for f in ["y ~ bs(x, df=0, degree=0)", "y ~ z + bs(x, df=0, degree=0)", "y ~ x + (bs(z, df=0, degree=0) | g)"]:
        cases.append({"formula": f, "frame": gen_dm.make_frame(rng), "na": "drop", "kind": "zero-width"})
    # a multi-column numeric component that is NOT the last factor of an interaction: labels and columns in written order
    for f in ["y ~ poly(x, 2, raw=True):f", "y ~ 0 + bs(x, df=3):f", "y ~ f:poly(x, 2, raw=True)",
              "y ~ 0 + poly(x, 2, raw=True):f:z", "y ~ bs(z, df=4):x", "y ~ x + (0 + poly(x, 2, raw=True):f | g)"]:
        for _ in range(2):
            cases.append({"formula": f, "frame": gen_dm.make_frame(rng), "na": "drop", "kind": "matrix-in-interaction"})
    return cases


def oracle(c):
    msg = _oracle(c)
    if msg and re.search(r"bs\([^()]*df=0[^()]*degree=0", c["formula"]):
        return "[class:zero_width_spline] " + msg
    return msg


def _oracle(c):
    import numpy as np
    try:
        d = dm.build(c)
    except Exception:
        return None  # rejected formulas are not this property's business
    if c.get("again"):
        try:
            dm.build(dict(c, frame=c["again"]))
        except Exception:  # noqa
            pass
    df = dm.to_pandas(c["frame"])
    if c.get("kind", "").startswith("with-missing"):
        # the observations a design is about: complete in the variables the formula uses (read off the text)
        names = set(re.findall(r"[A-Za-z_][A-Za-z_0-9]*", c["formula"]))
        used = [v for v in df.columns if v in names]
        df = df[~df[used].isna().any(axis=1).to_numpy()].reset_index(drop=True)
    if d.common is not None:
        try:
            cdf = d.common.as_dataframe()
        except Exception as e:
            return f"common.as_dataframe() raises {type(e).__name__}: {str(e)[:80]} for {c['formula']!r}"
        labels = [str(x) for x in cdf.columns]
        if not np.array_equal(np.asarray(cdf), np.asarray(d.common.design_matrix)):
            return "as_dataframe() and design_matrix differ"
        err = D.check_labels_columns(labels, d.common.design_matrix, df, f"{c['formula']!r} common")
        if err:
            return err
        # level order of single-factor terms
        for name, t in d.common.terms.items():
            if name in D.ATOMS and D.ATOMS[name][0] == "cat":
                lv = D.levels_of(df, D.ATOMS[name][1])
                got = [re.fullmatch(r".*\[([^\[\]]*)\]", l).group(1) for l in t.labels]
                got = [g for g in got if g != "mean"]
                pos = [lv.index(g) if g in lv else -1 for g in got]
                if -1 in pos or pos != sorted(pos) or len(set(pos)) != len(pos) or len(got) < len(lv) - 1:
                    return f"{c['formula']!r}: levels of {name} are {got}, expected order {lv}"
    if c.get("olv") and d.common is not None and c["atom"] in d.common.terms:
        t = d.common.terms[c["atom"]]
        got = [re.fullmatch(r".*\[([^\[\]]*)\]", str(l)).group(1) for l in t.labels]
        olv = [str(x) for x in c["olv"]]
        if c["full"]:
            want = olv if c["coding"] == "treatment" else ["mean"] + olv[:-1]
        else:
            want = olv[1:] if c["coding"] == "treatment" else olv[:-1]
        if got != want:
            return (f"{c['formula']!r} with levels={olv} on an ordered categorical declared {D.levels_of(df, 'o')}: columns "
                    f"{got}, the order asked for gives {want}")
        M = np.asarray(d.common[c["atom"]], dtype=float)
        vals = [str(v) for v in df["o"].tolist()]
        for j, l in enumerate(got):
            if l == "mean":
                continue
            omit = olv[-1]
            wantcol = np.array([1.0 if v == l else (-1.0 if (c["coding"] == "sum" and v == omit) else 0.0) for v in vals])
            if not np.array_equal(M[:, j], wantcol):
                return f"{c['formula']!r} levels={olv}: the column labelled {l!r} is not the {c['coding']} column of that level"
    if d.group is not None:
        for name, t in d.group.terms.items():
            err = D.check_labels_columns([str(x) for x in t.labels], d.group[name], df,
                                         f"{c['formula']!r} group term {name}")
            if err:
                return err
    if d.response is not None:
        t = d.response.term.term
        name = d.response.name
        if name in D.ATOMS and D.ATOMS[name][0] in ("cat", "num") and t.components[0].reference is None:
            try:
                rdf = d.response.as_dataframe()
            except Exception as e:
                return f"response.as_dataframe() raises {type(e).__name__} for {c['formula']!r}"
            err = D.check_labels_columns([str(x) for x in rdf.columns], d.response.design_matrix, df,
                                         f"{c['formula']!r} response")
            if err:
                return err
    return None


def shrink_candidates(c):
    out = []
    f = c["formula"]
    lhs, rhs = f.split("~", 1)
    parts = [p.strip() for p in re.split(r" \+ (?![^(]*\))", rhs.strip())]
    if len(parts) > 1:
        for i in range(len(parts)):
            out.append(dict(c, formula=f"{lhs.strip()} ~ {' + '.join(parts[:i] + parts[i + 1:])}"))
    n = len(c["frame"]["columns"][0]["values"])
    if n > 6:
        for idx in (list(range(n // 2)), list(range(n // 2, n)), list(range(0, n, 2))):
            out.append(dict(c, frame=dm.select_rows(c["frame"], idx)))
    return out
