"""C06 -- evaluating new data reproduces the training encoding."""
import re

import dm
import gen_dm
from props import _design as D
from props._design import describe, nontrivial, unsupported, prepare, CASE_TIMEOUT  # noqa: F401

ID = "C06"
PROP_FILES = ["Properties/C06.v", "Properties/C06_pass.v"]
THEOREMS = ["C06_new_is_rowwise", "C06_selection_commutes", "C06_state_unchanged"]
ASSUMPTIONS = ["rational arithmetic in the model, float64 in the implementation (tolerance 1e-9 relative)",
               "stateful transforms: center, scale/standardize, poly, bs (their contracts are C14's business)"]
RULE = ("random formulas with nested/interacting stateful transforms, C/T/S codings, levels=, ordered "
        "categoricals and group terms; for each design: every single row (up to 12), random subsets, "
        "permutations and repetitions of the training rows; non-trivial = design built; distinct = (formula, frame head, multisets)")
EXHAUSTIVE = {"quick": False, "thorough": False}

NUM = ["x", "z", "w", "center(x)", "scale(z)", "standardize(w)", "scale(center(z))", "center(x + w)", "I(x + 1)",
       "center(x):scale(z)", "poly(x, 2)", "poly(z, 3)", "poly(w, 2, raw=True)", "bs(x, df=4)", "bs(z, df=5, intercept=True)"]
CAT = ["f", "g", "h", "o", "c", "C(k)", "C(f, Sum)", "T(g, 'q')", "S(h)", "C(f, levels=lv)", "C(o)",
       "C(g, Treatment('q'))", "binary(f)", "B(g, 'q')", "C(c, Sum('mm'))"]


def _formula(rng):
    terms = []
    for _ in range(rng.randint(1, 3)):
        arity = rng.choice([1, 1, 2])
        atoms = []
        for _ in range(arity):
            a = rng.choice(NUM if rng.random() < 0.5 else CAT)
            if a not in atoms:
                atoms.append(a)
        t = ":".join(atoms)
        if t not in terms:
            terms.append(t)
    rhs = " + ".join(terms)
    if rng.random() < 0.2:
        rhs = "0 + " + rhs
    r = rng.random()
    if r < 0.35:
        rhs += " + " + gen_dm.rand_group(rng)
    elif r < 0.43:
        rhs += " + " + gen_dm.rand_group_pair(rng)
    elif r < 0.5:
        # a grouping factor that is a CALL returning numbers / booleans: it is a factor (frozen levels) at training, it
        # is the same factor at prediction
        rhs += " + " + rng.choice(["(1 | g:I(k > 2))", "(x | I(z > 6))", "(1 | I(k > 2))", "(0 + x | h:I(z > 6))",
                                   "(1 | I(z > 6):g)"])
    return "y ~ " + rhs


def _multisets(rng, n, tier):
    out = [[i] for i in range(min(n, 12 if tier == "thorough" else 3))]
    out.append(list(range(n)))
    perm = list(range(n))
    rng.shuffle(perm)
    out.append(perm)
    k = rng.randint(1, max(1, n // 2))
    out.append(sorted(rng.sample(range(n), k)))
    out.append([rng.randrange(n) for _ in range(rng.randint(2, n + 3))])
    out.append([rng.randrange(n)] * 3)
    return out


def gen(rng, tier):
    n = 8000 if tier == "thorough" else 500
    cases = []
    for _ in range(n):
        fr = gen_dm.make_frame(rng)
        nrows = len(fr["columns"][0]["values"])
        f = _formula(rng)
        # orthogonal polynomials of degree d need d + 1 distinct abscissae (0/0 otherwise: C14's business)
        for var, deg in re.findall(r"poly\((\w+), (\d)\)", f):
            vals = next(col["values"] for col in fr["columns"] if col["name"] == var)
            if len(set(vals)) < int(deg) + 2:
                f = f.replace(f"poly({var}, {deg})", var)
        extra = {}
        if rng.random() < 0.12:
            xs_ = sorted(set(next(col["values"] for col in fr["columns"] if col["name"] == "z")))
            if len(xs_) >= 5:
                # two interior data values as knots; the boundary knots come from the TRAINING data
                extra["kn"] = [xs_[len(xs_) // 3], xs_[(2 * len(xs_)) // 3]]
                f = f + rng.choice([" + bs(z, knots=kn)", " + f:bs(z, knots=kn)", " + (bs(z, knots=kn) | g)"])
        if "lv" in f:
            lv = gen_dm.frame_levels(fr, "f")
            rng.shuffle(lv)
            extra["lv"] = lv
        case = {"formula": f, "frame": fr, "na": "drop", "extra": extra, "kind": "random",
                "idx": _multisets(rng, nrows, tier)}
        if rng.random() < 0.1:
            # a design built with na_action='pass' keeps its incomplete rows (NaN entries): evaluating those same rows
            # again gives those same rows, as many as were asked for (pointwise formulas: a stateful transform fitted on
            # data with a NaN has no parameters to speak of)
            case["formula"] = rng.choice(["y ~ x + f", "y ~ x:f + w", "y ~ I(x + 1) + g + (x | h)", "y ~ 0 + f:x + (1 | g)",
                                          "y ~ w + {x * 2} + C(k)"])
            case["na"] = "pass"
            case["extra"] = {}
            case["kind"] = "pass"
            for col in fr["columns"]:
                if col["name"] in ("x", "w"):
                    for r_ in rng.sample(range(nrows), rng.randint(1, max(1, nrows // 4))):
                        col["values"][r_] = None
        if case["kind"] == "random" and rng.random() < 0.06:
            # a training column whose mean is EXACTLY zero (v, -v pairs): a fitted parameter equal to 0.0 is a fitted
            # parameter; single rows and subsets (whose own mean is not zero) are encoded with it
            half = [rng.randint(1, 9) for _ in range(nrows // 2)]
            sym = [str(v) for v in half] + [str(-v) for v in half] + (["0"] if nrows % 2 else [])
            rng.shuffle(sym)
            for col in fr["columns"]:
                if col["name"] == "x":
                    col["values"] = sym
            case["formula"] = rng.choice(["y ~ center(x) + f", "y ~ center(x):f + g", "y ~ scale(x) + (center(x) | g)",
                                          "y ~ 0 + standardize(x) + center(x)", "y ~ center(center(x)) + h"])
            case["extra"] = {}
            case["kind"] = "zero-mean"
        cases.append(case)
    return cases


def key(c):
    return [c["formula"], c["frame"]["columns"][0]["values"][:6], [i[:5] for i in c["idx"][-3:]]]


def model_cmd(c):
    import core
    news = [dm.frame_sexp(dm.select_rows(c["frame"], idx)) for idx in c["idx"]]
    return core.sshow(["newdata", c["formula"], dm.frame_sexp(c["frame"]), c.get("na", "drop"), dm.extra_sexp(c.get("extra")),
                       "error", news])


def _new_obs(d, df):
    out = []
    for part in ("common", "group"):
        obj = getattr(d, part)
        if obj is None:
            out.append(["none"])
            continue
        try:
            out.append(["ok", dm._rows(obj.evaluate_new_data(df).design_matrix)])
        except Exception as e:  # noqa
            out.append(["err", type(e).__name__])
    return out


def impl_obs(c):
    try:
        d = dm.build(c)
    except Exception as e:  # noqa
        return ["err", type(e).__name__, str(e)[:120]]
    out = ["ok", dm.observe_design(d), []]
    for idx in c["idx"]:
        out[2].append(_new_obs(d, dm.to_pandas(dm.select_rows(c["frame"], idx))))
    return out


def compare(c, mo, obs):
    if unsupported(mo):
        return None
    if mo[0] != obs[0]:
        return f"model {mo[:2]} / implementation {obs[:3]} on {c['formula']!r}"[:300]
    if mo[0] != "ok":
        return None
    d = dm.compare_design(mo[1], obs[1])
    if d:
        return f"{c['formula']!r} training: {d}"[:400]
    for k, (mn, inn) in enumerate(zip(mo[2], obs[2])):
        for part, m, i in (("common", mn[0], inn[0]), ("group", mn[1], inn[1])):
            if m[0] == "err" and m[1] == "Unsupported":
                continue
            if m[0] != i[0]:
                return f"{c['formula']!r} rows {c['idx'][k][:8]} {part}: model {m[:2]} impl {i[:2]}"[:300]
            if m[0] == "ok" and not dm.rows_eq(m[1][0], i[1]):
                return f"{c['formula']!r} rows {c['idx'][k][:8]} {part}: matrices differ"
    return None


def _class(formula):
    if re.search(r"levels=|C\(o", formula):
        return "box_levels_recheck"
    if re.search(r"binary\(\w+\)|B\(\w+\)", formula):
        return "binary_stateless"
    if re.search(r"binary\(|B\(", formula):
        return "binary_stateless"
    return None


def oracle(c):
    import numpy as np
    try:
        d = dm.build(c)
    except Exception:
        return None
    cls = _class(c["formula"])
    tag = f"[class:{cls}] " if cls else ""
    # the training state must be frozen in the design itself: build the same formula again on
    # different data (other levels, other numeric values) before evaluating the first design
    try:
        from formulae import design_matrices
        other = dm.to_pandas(c["frame"]).copy()
        n = len(other)
        for col in other.columns:
            if other[col].dtype.kind in "if" and col != "k":
                other[col] = other[col] * 3 + 7
        other = other.iloc[: max(2, n // 2)]
        design_matrices(c["formula"], other, extra_namespace=dict(c.get("extra") or {}))
    except Exception:
        pass
    for idx in c["idx"]:
        df = dm.to_pandas(dm.select_rows(c["frame"], idx))
        for part in ("common", "group"):
            obj = getattr(d, part)
            if obj is None:
                continue
            train = np.asarray(obj.design_matrix, dtype=float)
            try:
                new = np.asarray(obj.evaluate_new_data(df).design_matrix, dtype=float)
            except Exception as e:
                return (f"{tag}{c['formula']!r}: evaluating the {part} matrix on training rows {idx[:8]} raises "
                        f"{type(e).__name__}: {str(e)[:80]}")
            want = train[idx, :]
            if new.shape != want.shape:
                return f"{tag}{c['formula']!r}: {part} matrix on rows {idx[:8]} has shape {new.shape}, training rows {want.shape}"
            if not np.allclose(new, want, rtol=1e-9, atol=1e-9, equal_nan=True):
                i, j = np.argwhere(~np.isclose(new, want, rtol=1e-9, atol=1e-9, equal_nan=True))[0]
                return (f"{tag}{c['formula']!r}: {part} matrix on training rows {idx[:8]}: entry ({i},{j}) is {new[i, j]}, "
                        f"the training matrix has {want[i, j]}")
    return None


def shrink_candidates(c):
    out = []
    for k in range(len(c["idx"])):
        out.append(dict(c, idx=[c["idx"][k]]))
    f = c["formula"]
    lhs, rhs = f.split("~", 1)
    parts = [p.strip() for p in re.split(r" \+ (?![^(]*\))", rhs.strip())]
    if len(parts) > 1:
        for i in range(len(parts)):
            out.append(dict(c, formula=f"{lhs.strip()} ~ {' + '.join(parts[:i] + parts[i + 1:])}"))
    return out
