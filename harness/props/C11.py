"""C11 -- name resolution order and evaluation environment."""
import itertools

ID = "C11"
PROP_FILES = ["Properties/C11.v"]
THEOREMS = ["C11_first_match_wins", "C11_undefined_iff", "C11_argument_order", "C11_callee_order",
            "C11_undefined_raises", "C11_capture_depth", "C11_callee_ignores_data", "C11_example"]
ASSUMPTIONS = ["CPython frame objects (f_locals / f_globals of the frame k levels up) are modelled as a stack of "
               "(locals, globals) pairs; the correspondence builds real nested callers",
               "the built-in scope is exercised by temporarily adding entries to formulae.transforms.TRANSFORMS"]
RULE = ("exhaustive: all 2^5 subsets of scopes defining the name x role (argument, callee, dotted callee, doubly and triply dotted callee with decoy siblings, a callee named like a Python built-in (round), "
        "backquoted argument, keyword-argument value (also when the keyword label IS the name), argument of a nested call) x env depth 0..3 (and one depth beyond the stack) through four nested callers "
        "with their own locals and globals; non-trivial = every case; distinct = case")
EXHAUSTIVE = {"quick": True, "thorough": True}
CASE_TIMEOUT = 30

SCOPES = ["data", "builtin", "local", "global", "extra"]
NFRAMES = 4
VAL = {"data": 1.0, "builtin": 2.0, "extra": 5.0}


def gen(rng, tier):
    cases = []
    # kwarg: the name is the VALUE of a keyword argument; nested: it is an argument of a call inside a call
    # kwarg-index: the name is `index` (what pandas calls the row labels) and one row of the frame is incomplete, so
    # the data handed to the terms is a trimmed frame: the row labels are not a variable
    for role in ("arg", "callee", "callee-py", "dotted", "dotted2", "dotted3", "bq", "kwarg", "kwarg-same", "nested",
                 "kwarg-index"):
        for r in range(0, 6):
            for subset in itertools.combinations(SCOPES, r):
                if role == "bq" and "local" in subset:
                    continue  # a local variable cannot have a non-syntactic name
                for depth in (0, 1, 2, 3, 10000):
                    cases.append({"role": role, "defined": list(subset), "depth": depth})
    # the built-in encodings (Sum, Treatment) are built-ins like the transforms: a user binding of the name
    # Sum in locals / globals / extra_namespace never replaces the one C(g, Sum) means
    for r in range(0, 4):
        for subset in itertools.combinations(["local", "global", "extra"], r):
            for depth in (0, 1, 3):
                cases.append({"role": "enc", "defined": ["builtin"] + list(subset), "depth": depth})
    # a binding to None is a binding: the first scope that defines the name wins even then
    for r in range(1, 5):
        for subset in itertools.combinations(["builtin", "local", "global", "extra"], r):
            for depth in (0, 2):
                cases.append({"role": "arg-none", "defined": list(subset), "depth": depth})
    # ONE Environment object handed to several calls as env=, each with its own extra_namespace (or none): every
    # call sees its own extra_namespace only (decided by the oracle; the model's calls have no shared object)
    # names with characters that Unicode normalisation would rewrite (x\u00b2 -> x2, micro sign -> Greek mu): the name
    # written in the formula is the name that is looked up (decided by the oracle; the model reads ASCII)
    for which in ("both-columns", "column-and-extra", "unbound", "callee"):
        cases.append({"role": "unicode-name", "defined": [], "depth": 0, "which": which})
    # a namespace KEY that spells a whole dotted callee ("tools.f"): a dotted callee is resolved through its head and
    # attribute access, never through such a key (decided by the oracle; the model's names hold no dots)
    for which in ("dotkey-head-bound", "dotkey-head-unbound", "dotkey-deep"):
        cases.append({"role": "unicode-name", "defined": [], "depth": 0, "which": which})
    for steps in ([5.0, 6.0], [5.0, None], [None, 5.0, None], [5.0, 6.0, 7.0, None], [7.0, 7.0, None, 6.0]):
        cases.append({"role": "env-object", "defined": [], "depth": 0, "steps": steps})
    return cases


def key(c):
    return c


def describe(c, mo, obs):
    return f"{c['role']}/depth{c['depth']}/{'resolved' if obs and obs[0] == 'ok' else 'raises'}"


def nontrivial(c, mo, obs):
    return True


def _name(c):
    return {"unicode-name": "nm", "kwarg-index": "index", "env-object": "nm", "arg": "nm", "callee": "nm", "dotted": "mod", "bq": "my nm", "arg-none": "nm", "kwarg": "nm",
            "nested": "nm", "dotted2": "mod", "dotted3": "mod", "kwarg-same": "nm", "enc": "Sum", "callee-py": "round"}[c["role"]]


def expected(c):
    """the documented order: data (arguments only), built-ins, locals, globals, extra_namespace"""
    if c["depth"] >= NFRAMES:
        return ["err", "Value"]
    order = ["data", "builtin", "local", "global", "extra"]
    if c["role"] in ("callee", "callee-py", "dotted", "dotted2", "dotted3"):
        order = order[1:]
    if c["role"] == "enc":
        return ["ok", "1.0"]
    if c["role"] == "arg-none":
        # the first defining scope binds None: sel(x, None) returns x, whose first entry is 1.0
        return ["ok", "1.0"] if any(s in c["defined"] for s in order) else ["err", "Key"]
    for s in order:
        if s in c["defined"]:
            if s == "local":
                return ["ok", str(10.0 + c["depth"])]
            if s == "global":
                return ["ok", str(20.0 + c["depth"])]
            return ["ok", str(VAL[s])]
    return ["err", "Key"]


def _run_envobject(c):
    import numpy as np
    import pandas as pd
    from formulae import design_matrices
    from formulae.environment import Environment
    df = pd.DataFrame({"y": np.arange(5, dtype=float), "x": np.arange(5, dtype=float) + 1})

    def caller():
        env = Environment.capture(0)
        out = []
        for step in c["steps"]:
            ns = None if step is None else {"nm": (lambda x, _k=step: x * 0 + _k)}
            try:
                d = design_matrices("y ~ nm(x)", df, env=env, extra_namespace=ns)
                out.append(float(np.asarray(d.common["nm(x)"]).reshape(-1)[0]))
            except KeyError:
                out.append("Key")
        return out
    return caller()


def _run_unicode(c):
    import numpy as np
    import pandas as pd
    from formulae import design_matrices
    n = 4
    y = np.arange(n, dtype=float)
    ident = (lambda v: np.asarray(v, dtype=float))
    w = c["which"]
    if w.startswith("dotkey"):
        import types
        df = pd.DataFrame({"y": y, "x": [1.0, 2.0, 3.0, 4.0]})
        if w == "dotkey-head-bound":
            ns = {"tools": types.SimpleNamespace(f=(lambda v: v * 2)), "tools.f": (lambda v: v * 100)}
            d = design_matrices("y ~ tools.f(x)", df, extra_namespace=ns)
            return [float(v) for v in np.asarray(d.common["tools.f(x)"]).reshape(-1)]
        if w == "dotkey-deep":
            inner = types.SimpleNamespace(f=(lambda v: v * 2))
            ns = {"tools": types.SimpleNamespace(sub=inner), "tools.sub.f": (lambda v: v * 100), "sub.f": (lambda v: v * 7)}
            d = design_matrices("y ~ tools.sub.f(x)", df, extra_namespace=ns)
            return [float(v) for v in np.asarray(d.common["tools.sub.f(x)"]).reshape(-1)]
        try:
            design_matrices("y ~ tools.f(x)", df, extra_namespace={"tools.f": (lambda v: v * 100)})
        except KeyError:
            return "Key"
        return "resolved"
    if w == "both-columns":
        df = pd.DataFrame({"y": y, "x\u00b2": [25.0, 36.0, 49.0, 64.0], "x2": [5.0, 6.0, 7.0, 8.0]})
        d = design_matrices("y ~ ident(x\u00b2)", df, extra_namespace={"ident": ident})
        return [float(v) for v in np.asarray(d.common["ident(x\u00b2)"]).reshape(-1)]
    if w == "column-and-extra":
        df = pd.DataFrame({"y": y, "\u00b5": [10.0, 20.0, 30.0, 40.0]})
        d = design_matrices("y ~ ident(\u00b5)", df, extra_namespace={"ident": ident, "\u03bc": np.array([-1.0, -2.0, -3.0, -4.0])})
        return [float(v) for v in np.asarray(d.common["ident(\u00b5)"]).reshape(-1)]
    if w == "callee":
        df = pd.DataFrame({"y": y, "x": [1.0, 2.0, 3.0, 4.0]})
        d = design_matrices("y ~ f\u00b2(x)", df, extra_namespace={"f\u00b2": (lambda v: v * 2), "f2": (lambda v: v * 3)})
        return [float(v) for v in np.asarray(d.common["f\u00b2(x)"]).reshape(-1)]
    df = pd.DataFrame({"y": y, "x": [1.0, 2.0, 3.0, 4.0]})
    try:
        design_matrices("y ~ ident(x\u00b2)", df, extra_namespace={"ident": ident, "x2": np.ones(n)})
    except KeyError:
        return "Key"
    return "resolved"


UNICODE_WANT = {"both-columns": [25.0, 36.0, 49.0, 64.0], "column-and-extra": [10.0, 20.0, 30.0, 40.0], "unbound": "Key",
                "callee": [2.0, 4.0, 6.0, 8.0], "dotkey-head-bound": [2.0, 4.0, 6.0, 8.0], "dotkey-deep": [2.0, 4.0, 6.0, 8.0],
                "dotkey-head-unbound": "Key"}


def model_cmd(c):
    import core
    if c["role"] in ("env-object", "unicode-name"):
        c = {"role": "callee", "defined": [], "depth": 0}   # placeholder: the comparison is skipped
    name = _name(c)
    d = c["defined"]

    def obj(v):
        if c["role"] == "dotted2":
            return ["mod", [["sub", ["mod", [["nm", ["m", str(v)]]]]]]]
        if c["role"] == "dotted3":
            # mod.sub.deep.nm is the callee; siblings one level up carry other values
            return ["mod", [["sub", ["mod", [["deep", ["mod", [["nm", ["m", str(v)]]]]], ["nm", ["m", "-1.0"]]]]],
                            ["deep", ["mod", [["nm", ["m", "-2.0"]]]]], ["nm", ["m", "-3.0"]]]]
        return ["mod", [["nm", ["m", str(v)]]]] if c["role"] == "dotted" else ["m", str(v)]

    data = [[name, obj(VAL["data"])]] if "data" in d else []
    builtins = [[name, obj(VAL["builtin"])]] if "builtin" in d else []
    extra = [[name, obj(VAL["extra"])]] if "extra" in d else []
    stack = []
    for j in range(NFRAMES):
        lo = [[name, obj(10.0 + j)]] if "local" in d else []
        gl = [[name, obj(20.0 + j)]] if "global" in d else []
        stack.append([lo, gl])
    if c["role"] == "enc":
        # model: the built-in binding is marked 1.0, every user binding 0.0
        builtins = [[name, ["m", "1.0"]]]
        extra = [[name, ["m", "0.0"]]] if "extra" in d else []
        stack = [[[[name, ["m", "0.0"]]] if "local" in d else [], [[name, ["m", "0.0"]]] if "global" in d else []]
                 for _ in range(NFRAMES)]
        data = []
    if c["role"] == "arg-none":
        order = ["builtin", "local", "global", "extra"]
        first = next(s for s in order if s in d)

        def mark(scope, v):
            return ["m", "1.0" if scope == first else str(v)]
        builtins = [[name, mark("builtin", VAL["builtin"])]] if "builtin" in d else []
        extra = [[name, mark("extra", VAL["extra"])]] if "extra" in d else []
        stack = []
        for j in range(NFRAMES):
            lo = [[name, mark("local", 10.0 + j)]] if "local" in d else []
            gl = [[name, mark("global", 20.0 + j)]] if "global" in d else []
            stack.append([lo, gl])
        data = []
    role = "arg" if c["role"] in ("arg", "bq", "arg-none", "kwarg", "kwarg-same", "nested", "enc", "kwarg-index") else "callee"
    path = {"dotted": ["mod", "nm"], "dotted2": ["mod", "sub", "nm"]}.get(c["role"], [name])
    if c["role"] == "dotted3":
        path = ["mod", "sub", "deep", "nm"]
    return core.sshow(["c11", role, str(c["depth"]), path, data, builtins, stack, extra])


def _run(c):
    import types
    import numpy as np
    import pandas as pd
    import formulae.transforms as T
    from formulae import design_matrices
    n = 5
    name = _name(c)
    d = c["defined"]
    role = c["role"]

    none_first = None
    if role == "arg-none":
        none_first = next(sc for sc in ["builtin", "local", "global", "extra"] if sc in d)

    def val(v, scope=None):
        if role == "enc":
            from formulae.categorical import Treatment
            return Treatment      # a user object called Sum that would give another coding
        if role == "arg-none":
            return None if scope == none_first else float(v)
        if role == "kwarg-index":
            return float(v)        # a scalar: the frame loses a row, an array of the original length would not fit
        if role in ("arg", "bq", "kwarg", "kwarg-same", "nested"):
            return np.full(n, float(v))
        fn = (lambda x, _v=float(v): x * 0 + _v)
        def module(nm_, **attrs):
            # a real module object (what `import mod` binds): the most common head of a dotted callee
            m = types.ModuleType(nm_)
            m.__dict__.update(attrs)
            return m
        if role == "dotted2":
            return module("mod", sub=module("mod.sub", nm=fn))
        if role == "dotted3":
            def const(k):
                return lambda x: x * 0 + k
            return types.SimpleNamespace(
                sub=types.SimpleNamespace(deep=types.SimpleNamespace(nm=fn), nm=const(-1.0)),
                deep=types.SimpleNamespace(nm=const(-2.0)), nm=const(-3.0))
        return module("mod", nm=fn) if role == "dotted" else fn

    cols = {"y": np.arange(n, dtype=float), "x": np.arange(n, dtype=float) + 1}
    if "data" in d:
        cols[name] = np.full(n, VAL["data"])
    if role == "kwarg-index":
        cols["x"] = cols["x"].copy()
        cols["x"][2] = np.nan      # one incomplete row: na_action='drop' trims the frame
    if role == "enc":
        cols["gq"] = ["r", "p", "q", "r", "p"]
    df = pd.DataFrame(cols)
    formula = {"arg": "y ~ I(nm)", "callee": "y ~ nm(x)", "callee-py": "y ~ round(x)", "dotted": "y ~ mod.nm(x)", "dotted2": "y ~ mod.sub.nm(x)", "dotted3": "y ~ mod.sub.deep.nm(x)", "bq": "y ~ I(`my nm`)",
               "arg-none": "y ~ sel_(x, nm)", "kwarg": "y ~ keep_(x, w=nm)", "kwarg-index": "y ~ keep_(x, w=index)", "kwarg-same": "y ~ same_(x, nm=nm)", "enc": "y ~ 0 + C(gq, Sum)",
               "nested": "y ~ keep_(x, w=keep_(x, nm))"}[role]
    extra = {name: val(VAL["extra"], "extra")} if "extra" in d else None
    if role == "arg-none":
        extra = dict(extra or {})
        extra["sel_"] = lambda a, b: a if b is None else a * 0 + b
    if role in ("kwarg", "nested", "kwarg-same", "kwarg-index"):
        extra = dict(extra or {})
        extra["keep_"] = lambda a, w: np.asarray(a) * 0 + np.asarray(w)
        extra["same_"] = lambda a, nm: np.asarray(a) * 0 + np.asarray(nm)
    # nested callers, each with its own globals and locals
    inner = None
    for j in range(NFRAMES):
        g = {"__builtins__": __builtins__, "design_matrices": design_matrices, "df": df, "formula": formula,
             "extra": extra, "depth": c["depth"], "inner": inner}
        if "global" in d:
            g[name] = val(20.0 + j, "global")
        body = "    nm_local_marker = 0\n"
        if "local" in d and role != "bq":
            g["_lv"] = val(10.0 + j, "local")
            body += f"    {name} = _lv\n"
        if j == 0:
            body += "    return design_matrices(formula, df, env=depth, extra_namespace=extra)\n"
        else:
            body += "    return inner()\n"
        exec(f"def caller():\n{body}", g)
        inner = g["caller"]
    saved = T.TRANSFORMS.get(name, None)
    had = name in T.TRANSFORMS
    if "builtin" in d and role != "enc":
        T.TRANSFORMS[name] = val(VAL["builtin"], "builtin")
    try:
        # the outermost caller is NFRAMES - 1 levels above the immediate caller of design_matrices
        dm_ = inner()
    finally:
        if "builtin" in d and role != "enc":
            if had:
                T.TRANSFORMS[name] = saved
            else:
                del T.TRANSFORMS[name]
    term = list(dm_.common.terms)[-1]
    return float(np.asarray(dm_.common[term]).reshape(-1)[0])


def impl_obs(c):
    if c["role"] == "unicode-name":
        try:
            return ["ok", _run_unicode(c)]
        except Exception as e:  # noqa
            return ["err", type(e).__name__, str(e)[:60]]
    if c["role"] == "env-object":
        try:
            return ["ok", _run_envobject(c)]
        except Exception as e:  # noqa
            return ["err", type(e).__name__, str(e)[:60]]
    try:
        return ["ok", str(_run(c))]
    except KeyError:
        return ["err", "Key"]
    except ValueError as e:
        return ["err", "Value", str(e)[:60]]
    except Exception as e:  # noqa
        return ["err", type(e).__name__, str(e)[:60]]


def compare(c, mo, obs):
    if c["role"] in ("env-object", "unicode-name"):
        return None
    if mo[0] != obs[0]:
        return f"{c}: model {mo} implementation {obs}"
    if mo[0] == "ok" and float(mo[1]) != float(obs[1]):
        return f"{c}: model resolves to {mo[1]}, implementation to {obs[1]}"
    if mo[0] == "err" and mo[1] != obs[1] and not (mo[1] == "Attr" and obs[1] == "AttributeError"):
        return f"{c}: model error {mo[1]}, implementation {obs[1:]}"
    return None


def oracle(c):
    got = impl_obs(c)
    if c["role"] == "unicode-name":
        want = UNICODE_WANT[c["which"]]
        if got[0] != "ok" or got[1] != want:
            if c["which"].startswith("dotkey"):
                return (f"{c}: a dotted callee resolved to {got[1:]}; resolving its head and taking attributes gives {want} "
                        f"(a namespace key that spells the dotted text is not a binding of the head)")
            return (f"{c}: the name written in the formula (with a character Unicode normalisation would rewrite) resolved "
                    f"to {got[1:]}, the binding of exactly that name gives {want}")
        return None
    if c["role"] == "env-object":
        want = ["Key" if s_ is None else float(s_) for s_ in c["steps"]]
        if got[0] != "ok":
            return f"{c}: calls sharing one Environment object raise {got[1:]}"
        if got[1] != want:
            return (f"{c}: successive calls with one Environment object as env= and extra_namespace binding nm to "
                    f"{c['steps']} resolved nm to {got[1]}, each call must see its own extra_namespace only: {want}")
        return None
    want = expected(c)
    if want[0] == "ok":
        if got[0] != "ok":
            return f"{c}: the name is defined in {c['defined']} but evaluation raises {got[1:]}"
        if float(got[1]) != float(want[1]):
            return f"{c}: resolved to marker {got[1]}, the documented order gives {want[1]}"
    else:
        if got[0] == "ok":
            return f"{c}: expected an error ({want[1]}) but the name resolved to {got[1]}"
    return None
