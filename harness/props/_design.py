"""Common parts of the design-matrix property modules."""
import json
import re

import dm

CASE_TIMEOUT = 30

# atoms the oracles understand: name -> (kind, variable, coding, reference/omitted level or None)
ATOMS = {
    "x": ("num", "x"), "z": ("num", "z"), "w": ("num", "w"), "bq": ("num", "bq"),
    "I(x + 1)": ("expr", "x + 1"), "{w * 2}": ("expr", "w * 2"), "I(w * 2)": ("expr", "w * 2"),
    "I(z ** 2)": ("expr", "z ** 2"), "I(x - z)": ("expr", "x - z"),
    "f": ("cat", "f", "treatment", None), "g": ("cat", "g", "treatment", None),
    "h": ("cat", "h", "treatment", None), "o": ("cat", "o", "treatment", None),
    "c": ("cat", "c", "treatment", None), "k": ("cat", "k", "treatment", None),
    "C(k)": ("cat", "k", "treatment", None), "C(g, Treatment)": ("cat", "g", "treatment", None),
    "T(f)": ("cat", "f", "treatment", None), "C(o)": ("cat", "o", "treatment", None),
    "C(f, Treatment('b'))": ("cat", "f", "treatment", "b"), "T(g, 'q')": ("cat", "g", "treatment", "q"),
    "C(k, Treatment(2))": ("cat", "k", "treatment", "2"),
    "C(f, Sum)": ("cat", "f", "sum", None), "S(h)": ("cat", "h", "sum", None),
    "C(h, Sum('v'))": ("cat", "h", "sum", "v"), "S(f, 'a')": ("cat", "f", "sum", "a"),
    "I(f)": ("cat", "f", "treatment", None), "I(g)": ("cat", "g", "treatment", None),
    "I(o)": ("cat", "o", "treatment", None), "I(c)": ("cat", "c", "treatment", None),
    "C(C(f))": ("cat", "f", "treatment", None), "C(C(h), Sum)": ("cat", "h", "sum", None),
    # an UNORDERED Categorical whose declared categories are not sorted, inside C / T / S: levels are sorted
    "C(c)": ("cat", "c", "treatment", None), "T(c)": ("cat", "c", "treatment", None), "S(c)": ("cat", "c", "sum", None),
    "C(c, Sum)": ("cat", "c", "sum", None),
}
NUM_ATOMS = [a for a, v in ATOMS.items() if v[0] in ("num", "expr") and a != "I(w * 2)"]
TREAT_ATOMS = [a for a, v in ATOMS.items() if v[0] == "cat" and v[2] == "treatment" and a != "k"]
SUM_ATOMS = [a for a, v in ATOMS.items() if v[0] == "cat" and v[2] == "sum"]


def prepare(c):
    """corpus / witness cases may describe their frame by a generator spec instead of literally"""
    if "frame" not in c and "frame_spec" in c:
        import random
        import gen_dm
        spec = dict(c["frame_spec"])
        rng = random.Random(spec.pop("seed", 0))
        c = dict(c, frame=gen_dm.make_frame(rng, **spec))
    c.setdefault("na", "drop")
    return c


def model_cmd(c):
    return dm.design_cmd(c)


def impl_obs(c):
    try:
        return ["ok", dm.observe_design(dm.build(c))]
    except Exception as e:  # noqa
        return ["err", type(e).__name__, str(e)[:160]]


def unsupported(mo):
    return isinstance(mo, list) and len(mo) >= 2 and mo[0] == "err" and mo[1] == "Unsupported"


def compare(c, mo, obs):
    if unsupported(mo):
        return None
    if not isinstance(obs, list) or not obs:
        return f"malformed observation {obs!r}"[:200]
    if mo[0] != obs[0]:
        return f"model {mo[:2]} / implementation {obs[:3]} on {c['formula']!r}"[:400]
    if mo[0] == "ok":
        d = dm.compare_design(mo[1], obs[1])
        if d:
            return f"{c['formula']!r}: {d}"[:500]
    return None


def describe(c, mo, obs):
    st = "unsupported-by-model" if unsupported(mo) else ("accepted" if obs and obs[0] == "ok" else "rejected")
    return f"{c.get('kind', 'corpus')}/{st}"


def nontrivial(c, mo, obs):
    return bool(obs) and obs[0] == "ok" and not unsupported(mo)


def key(c):
    return [c["formula"], c.get("na"), c["frame"]["columns"][0]["values"][:6], c.get("tag")]


# --------------------------------------------------------------------------- label denotation
def levels_of(df, var):
    s = df[var]
    if hasattr(s.dtype, "ordered") and s.dtype.ordered:
        return [str(x) for x in s.dtype.categories.tolist()]
    vals = sorted(set(s.tolist()))
    return [str(v) for v in vals]


def _piece_value(piece, df, i, cache):
    """value that the label piece denotes on row i, or raises KeyError for an unknown piece"""
    if piece == "Intercept" or piece == "1":
        return 1
    if piece in ATOMS:
        a = ATOMS[piece]
        if a[0] == "num":
            return df[a[1]].iloc[i]
        if a[0] == "expr":
            key = ("expr", piece)
            if key not in cache:
                cache[key] = eval(a[1], {}, {v: df[v].to_numpy() for v in ("x", "z", "w")})
            return cache[key][i]
    mp = re.fullmatch(r"poly\((x|z|w), (\d+), raw=True\)\[(\d+)\]", piece)
    if mp and int(mp.group(3)) < int(mp.group(2)):
        # column k of a raw polynomial basis is the (k + 1)-th power of the variable
        return float(df[mp.group(1)].iloc[i]) ** (int(mp.group(3)) + 1)
    m = re.fullmatch(r"(.*)\[([^\[\]]*)\]", piece)
    if not m or m.group(1) not in ATOMS:
        raise KeyError(piece)
    a = ATOMS[m.group(1)]
    level = m.group(2)
    val = str(df[a[1]].iloc[i])
    if a[2] == "treatment":
        return 1 if val == level else 0
    lv = levels_of(df, a[1])
    omit = a[3] if a[3] is not None else lv[-1]
    if level == "mean":
        return 1
    if val == level:
        return 1
    if val == omit:
        return -1
    return 0


def split_label(label):
    """pieces of a common-term label: split at ':' outside brackets/parentheses"""
    out, depth, cur = [], 0, ""
    for ch in label:
        if ch in "([{":
            depth += 1
        elif ch in ")]}":
            depth -= 1
        if ch == ":" and depth == 0:
            out.append(cur)
            cur = ""
        else:
            cur += ch
    out.append(cur)
    return out


def denote(label, df, i, cache):
    """value a (common or group-specific) column label denotes on row i"""
    if "|" in label:
        eff, grp = label.split("|", 1)
        v = denote(eff, df, i, cache)
        for p in split_label(grp):
            v = v * _piece_value(p, df, i, cache)
        return v
    v = 1
    for p in split_label(label):
        v = v * _piece_value(p, df, i, cache)
    return v


def check_labels_columns(labels, matrix, df, what):
    """every column equals what its label denotes; returns an error string or None"""
    import numpy as np
    matrix = np.asarray(matrix, dtype=float)
    if matrix.ndim == 1:
        matrix = matrix[:, None]
    if len(labels) != matrix.shape[1]:
        return f"{what}: {len(labels)} labels for {matrix.shape[1]} columns"
    if matrix.shape[0] != len(df):
        return f"{what}: {matrix.shape[0]} rows for {len(df)} observations"
    cache = {}
    for j, lab in enumerate(labels):
        for i in range(len(df)):
            try:
                want = float(denote(lab, df, i, cache))
            except KeyError:
                return None  # a label the oracle has no denotation for: no verdict
            got = matrix[i, j]
            if abs(want - got) > 1e-9 * (1 + abs(want)):
                return f"{what}: column {j} labelled {lab!r} holds {got} on row {i}, the label denotes {want}"
    return None
