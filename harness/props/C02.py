"""C02 -- the term algebra expands operators by Wilkinson-Rogers / lme4 set semantics."""
import itertools
import json

from props.C01 import describe_list

ID = "C02"
PROP_FILES = ["Properties/C02.v", "Properties/C02_keywords.v", "Properties/C02_operands.v"]
THEOREMS = ["C02_resolve_refines", "C02_resolve_total_on_documented", "C02_refuted_factor_order"]
ASSUMPTIONS = [
    "term identity follows the implementation: ordered component lists (a:b and b:a differ, finding KF-C02-3)",
    "the operator dispatch of terms.py is tied by correspondence; the resolver's operator table by Tie.v",
]
RULE = ("exhaustive fully parenthesised operator trees over atoms a b c f(x) f(x, 2) and operators + - : * /, "
        "effect sums x grouping forms, ** forms, top-level signed sums, random deeper trees; non-trivial = "
        "the specification semantics is defined for the formula (documented language); distinct = distinct strings")
EXHAUSTIVE = {"quick": True, "thorough": True}
CASE_TIMEOUT = 10

ATOMS = ["a", "b", "c", "f(x)", "f(x, 2)"]
# call atoms that differ only in the VALUE of a keyword argument are different atoms
KW_ATOMS = ["h(x, k=1)", "h(x, k=2)", "a", "h(x, m=1)"]
# ... and call atoms that differ only in the ORDER of their keyword arguments are one atom (Python passes keyword
# arguments by name); KF-C02-11
KWPERM_ATOMS = ["h(x, k=1, m=2)", "h(x, m=2, k=1)", "a", "h(x, k=2, m=1)"]
# ... while the order of the OPERANDS of an operator inside a call argument is part of the atom
OPERAND_ATOMS = ["I(x - z)", "I(z - x)", "a", "I(x / z)", "I(z / x)", "{x ** 2}", "{2 ** x}", "I(x < z)", "I(z < x)"]
OPS = ["+", "-", ":", "*", "/"]


def _trees(n, atoms, ops):
    """all fully parenthesised trees with exactly n binary nodes"""
    if n == 0:
        return list(atoms)
    out = []
    for k in range(n):
        for l in _trees(k, atoms, ops):
            for r in _trees(n - 1 - k, atoms, ops):
                for o in ops:
                    out.append(f"({l} {o} {r})")
    return out


def _rand_tree(rng, depth):
    if depth == 0 or rng.random() < 0.25:
        r = rng.random()
        if r < 0.8:
            return rng.choice(["a", "b", "c", "d", "f(x)", "f(x, 2)", "g(a + 1, k=b)", "`a b`", "h(x, k=1)", "h(x, k=2)",
                               "bs(x, df=3)", "bs(x, df=4)"])
        return rng.choice(["a:b", "b:a", "a:b:c"])
    r = rng.random()
    if r < 0.08 and depth <= 2:
        return f"({' + '.join(rng.choice(['a', 'b', 'c', 'd', 'f(x)', 'a:b']) for _ in range(rng.randint(1, 4)))})**{rng.choice([2, 2, 3, 4])}"
    o = rng.choice(["+", "+", "+", "-", ":", "*", "/"])
    l, rr = _rand_tree(rng, depth - 1), _rand_tree(rng, depth - 1)
    if rng.random() < 0.5:
        return f"({l} {o} {rr})"
    return f"{l} {o} {rr}"


def _weight(text):
    import re as _re
    pw = len(_re.findall(r"\*\*", text))
    return (text.count("*") - 2 * pw) + 2 * pw + text.count("/")


def _rand_sum(rng, depth):
    return " + ".join(_rand_tree(rng, max(0, depth - 1)) for _ in range(rng.randint(1, 4)))


def gen(rng, tier):
    cases = []

    def add(s, kind):
        cases.append({"s": s, "kind": kind})

    nmax = 2
    for n in range(0, nmax + 1):
        for t in _trees(n, ATOMS, OPS):
            add(f"y ~ {t}", f"tree{n}")
    if tier == "thorough":
        for t in _trees(3, ["a", "b", "f(x, 2)"], OPS):
            add(f"y ~ {t}", "tree3")
    for n in range(1, 3):
        for t in _trees(n, KW_ATOMS, OPS):
            if t.count("h(") >= 2:
                add(f"y ~ {t}", f"kwtree{n}")
    for n in range(1, 3):
        for t in _trees(n, KWPERM_ATOMS, OPS):
            if t.count("h(") >= 2:
                add(f"y ~ {t}", f"kwperm{n}")
    for t in _trees(1, OPERAND_ATOMS, OPS):
        if t.count("(") >= 2 + (1 if t.startswith("(") else 0) and "a" not in t.replace("a)", ""):
            add(f"y ~ {t}", "operand-order1")
    for a_, b_ in [("I(x - z)", "I(z - x)"), ("I(x / z)", "I(z / x)"), ("{x ** 2}", "{2 ** x}"), ("I(x < z)", "I(z < x)")]:
        for tmpl in ["{a} + w - {b}", "{a} + {b} - {a}", "({a} + {b}):w", "({a} | g) + ({b} | g)", "({a} + {b})**2", "w / ({a} + {b})"]:
            add("y ~ " + tmpl.format(a=a_, b=b_), "operand-order2")
    for e in ["h(x, k=1, m=2) + h(x, m=2, k=1)", "h(x, k=1, m=2) + h(x, m=2, k=1) - h(x, k=1, m=2)"]:
        for g in ["g", "h(g, k=1, m=2) + h(g, m=2, k=1)"]:
            add(f"y ~ ({e} | {g})", "kwperm-effect")
    for e in ["h(x, k=1) + h(x, k=2)", "0 + h(x, k=1) + h(x, k=2)", "h(x, k=1) + h(x, m=1)"]:
        for g in ["g", "g + h2", "h(g, k=1) + h(g, k=2)"]:
            add(f"y ~ ({e} | {g})", "kweffect")
    add("y ~ (h(x, k=1) + h(x, k=2) + a)**2", "power")
    # effect sums crossed with grouping forms
    items = ["x", "f", "x:f", "0", "1"]
    groupings = ["g", "g:h", "g + h", "g/h", "g*h"]
    for k in range(1, 4):
        for its in itertools.product(items, repeat=k):
            for signs in itertools.product(["+", "-"], repeat=k - 1):
                e = its[0]
                for s, it in zip(signs, its[1:]):
                    e += f" {s} {it}"
                for lead in ["", "-"]:
                    if lead == "-" and its[0] not in ("1",):
                        continue
                    for g in groupings:
                        add(f"y ~ ({lead}{e} | {g})", f"effect{k}")
    # powers
    for n_atoms in range(1, 5):
        for n in range(1, 5):
            add(f"y ~ ({' + '.join(['a', 'b', 'c', 'd'][:n_atoms])})**{n}", "power")
    add("y ~ (a + b:c)**2", "power")
    # the factors of a power are ATOMS (a variable and calls on that same variable are different atoms): the order
    # of the interactions is bounded by the number of terms, not by the number of variable names
    for e in ["(f(x) + f(x, 2))**2", "(a + f(a) + h(a, k=1))**3", "(a + f(a))**2", "(f(x) + f(x, 2) + h(x, k=1))**3",
              "(a + b + f(a - b))**3"]:
        add("y ~ " + e, "power-atoms")
    add("y ~ (a + b + f(x))**3", "power")
    add("y ~ a**2", "power")
    add("y ~ (a:b)**3", "power")
    # top-level signed sums
    tops = ["a", "b", "a:b", "0", "1", "(1|g)", "(a|g)"]
    for k in range(1, 4):
        for its in itertools.product(tops, repeat=k):
            for signs in itertools.product(["+", "-"], repeat=k - 1):
                e = its[0]
                for s, it in zip(signs, its[1:]):
                    e += f" {s} {it}"
                add(f"y ~ {e}", f"top{k}")
                if its[0] == "1":
                    add(f"y ~ -{e}", f"top{k}")
    for f in ["y ~ a + -1", "y ~ -1 + a", "y ~ a + b - 1", "y ~ 0 + a + 1", "a + b", "y ~ a*b*c", "y ~ a/b/c",
              "y ~ (a + b)/(c + d)", "y ~ a:(b + c)", "y ~ (a + b):(c + d)", "y ~ a*b - a:b", "y ~ a*b - a",
              "y ~ (a + b + c)**2 - a:b", "y ~ x + (x|g) + (0 + z|g)", "y ~ (x*z|g)", "y ~ (x + z|g:h)",
              "y ~ a + a", "y ~ a:a", "y ~ a*a", "y ~ a/a", "y ~ a:b:a", "p(y, n) ~ x", "y['lvl'] ~ x", "y[lvl] ~ x",
              "y ~ `a b`*c", "y ~ 'a'", "y ~ a + 2",
              # a '~' inside a back-quoted name or a string is not the formula's tilde: one-sided formulas keep their
              # default intercept
              "`pre~post`*c", "f(g, 'a~b') + a", "a + (a|`site~id`)", "0 + `y~x` + c", "`y~x`", "y ~ `pre~post` + a",
              "a + b", "0 + a", "(a|g)", "a*b - 1"]:
        add(f, "fixed")
    n_rand = 50000 if tier == "thorough" else 3000
    for _ in range(n_rand):
        rhs = _rand_tree(rng, rng.randint(1, 6))
        # the number of terms grows exponentially with the number of products / powers / nestings: expressions with
        # more than a dozen of them expand to thousands of terms (the implementation's quadratic de-duplication
        # then takes minutes, which a loaded machine turns into a per-case timeout, not a verdict)
        while _weight(rhs) > 12:
            rhs = _rand_tree(rng, rng.randint(1, 6))
        if rng.random() < 0.3:
            eff = rng.choice(["x", "0 + x", "x + z", "1", "x*z", "0 + x + z", "1 + x"])
            rhs += f" + ({eff} | {rng.choice(groupings)})"
        if rng.random() < 0.15:
            rhs = rng.choice(["0 + ", "1 + ", "-1 + "]) + rhs
        add(f"y ~ {rhs}", "random")
    return cases


def key(c):
    return c["s"]


def model_cmd(c):
    import core
    return core.sshow(["describe", c["s"]])


def impl_obs(c):
    from formulae import model_description
    try:
        return ["ok", describe_list(model_description(c["s"]))]
    except Exception as e:  # noqa
        return ["err", type(e).__name__]


def compare(c, mo, obs):
    if not isinstance(obs, list) or not obs:
        return f"malformed observation {obs!r}"
    if mo[0] != obs[0]:
        return f"model {mo[0]} / implementation {obs[0]} on {c['s']!r} ({obs})"
    if mo[0] == "ok":
        m = [mo[1][0] if mo[1][0] != [] else [], list(mo[1][1]), list(mo[1][2])]
        if m != obs[1]:
            return f"different description on {c['s']!r}: model {m} impl {obs[1]}"
    return None


# --------------------------------------------------------------------------- specification semantics
ICPT = "<1>"


class Undefined(Exception):
    """the specification gives no meaning to this expression (outside the documented language)"""


def _strip(e):
    from formulae import expr as E
    while isinstance(e, E.Grouping):
        e = e.expression
    return e


def _canon(name):
    """one spelling per call atom: keyword arguments are passed by name, so their order is not part of the atom"""
    import ast
    name = str(name)
    if "=" not in name:
        return name
    try:
        tree = ast.parse(name, mode="eval")
    except SyntaxError:
        return name
    for n in ast.walk(tree):
        if isinstance(n, ast.Call):
            n.keywords.sort(key=lambda k: k.arg or "")
    return ast.unparse(tree)


def _atom_name(e):
    """factor name of an atomic expression, None if not atomic"""
    from formulae import expr as E
    from formulae.terms.call_resolver import CallResolver
    if isinstance(e, E.Variable):
        return e.name.lexeme
    if isinstance(e, E.QuotedName):
        return e.expression.lexeme[1:-1]
    if isinstance(e, E.Call):
        return _canon(CallResolver(e).resolve())
    if isinstance(e, E.Literal) and isinstance(e.value, str):
        return e.value
    return None


def _int_literal(e):
    from formulae import expr as E
    e = _strip(e)
    if isinstance(e, E.Literal) and isinstance(e.value, int) and not isinstance(e.value, bool) and e.lexeme is None:
        return e.value
    if isinstance(e, E.Unary) and e.operator.kind == "MINUS":
        v = _int_literal(e.right)
        return None if v is None else -v
    if isinstance(e, E.Unary) and e.operator.kind == "PLUS":
        return _int_literal(e.right)
    return None


def sem(e):
    """(common: set of frozenset of factor names, group: set of (effect, grouping)) -- no intercept
    literals allowed here"""
    from formulae import expr as E
    e = _strip(e)
    name = _atom_name(e)
    if name is not None:
        return {frozenset([name])}, set()
    if isinstance(e, E.Unary) and e.operator.kind == "PLUS":
        return sem(e.right)
    if not isinstance(e, E.Binary):
        raise Undefined()
    k = e.operator.kind
    if k in ("PLUS", "MINUS"):
        return sem_sum(e, None)
    if k == "PIPE":
        eff, g0 = sem_sum(e.left, {ICPT})
        if g0 or not eff:
            raise Undefined()
        gc, gg = sem(e.right)
        if gg:
            raise Undefined()
        return set(), {(t, g) for t in eff for g in gc}
    if k == "STAR_STAR":
        n = _int_literal(e.right)
        if n is None or n < 1:
            raise Undefined()
        lc, lg = sem(e.left)
        if lg:
            raise Undefined()
        terms = sorted(lc, key=sorted)
        out = set()
        for r in range(1, n + 1):
            for comb in itertools.combinations(terms, r):
                out.add(frozenset().union(*comb))
        return out, set()
    lc, lg = sem(e.left)
    rc, rg = sem(e.right)
    if lg or rg:
        raise Undefined()
    if k == "COLON":
        return {a | b for a in lc for b in rc}, set()
    if k == "STAR":
        return lc | rc | {a | b for a in lc for b in rc}, set()
    if k == "SLASH":
        allf = frozenset().union(*lc) if lc else frozenset()
        return lc | {allf | b for b in rc}, set()
    raise Undefined()


def _items(e):
    """additive items of a sum, left to right: [(sign, operand)]"""
    from formulae import expr as E
    if isinstance(e, E.Binary) and e.operator.kind in ("PLUS", "MINUS"):
        return _items(e.left) + [("+" if e.operator.kind == "PLUS" else "-", e.right)]
    return [("+", e)]


def sem_sum(e, init):
    """a sum processed left to right; init = {ICPT} where an implicit intercept is present (top-level
    right-hand side, effect side of |), None elsewhere (intercept literals then have no meaning)"""
    e = _strip(e)
    common = set(init) if init is not None else set()
    group = set()
    for sign, op in _items(e):
        lit = _int_literal(op)
        if lit is not None:
            if init is None:
                raise Undefined()
            if lit == 1 and sign == "+":
                common.add(ICPT)
            elif (lit == 1 and sign == "-") or (lit in (0, -1) and sign == "+"):
                common.discard(ICPT)
            else:
                raise Undefined()
            continue
        c, g = sem(op)
        if sign == "+":
            common |= c
            group |= g
        else:
            common -= c
            group -= g
    return common, group


def spec_of(tree):
    """specification of a whole formula: (response, common, group) or Undefined"""
    from formulae import expr as E
    resp = None
    rhs = tree
    if isinstance(tree, E.Binary) and tree.operator.kind == "TILDE":
        l = _strip(tree.left)
        n = _atom_name(l)
        if n is None:
            raise Undefined()
        resp = n
        rhs = tree.right
    # the scanner has inserted the implicit "1 +" in front of the right-hand side: remove it
    items = _items(rhs)
    first = items[0][1]
    if _int_literal(first) != 1 or not hasattr(first, "value"):
        raise Undefined()
    rebuilt = items[1:]
    common, group = {ICPT}, set()
    for sign, op in rebuilt:
        lit = _int_literal(op)
        if lit is not None:
            if lit == 1 and sign == "+":
                common.add(ICPT)
            elif (lit == 1 and sign == "-") or (lit in (0, -1) and sign == "+"):
                common.discard(ICPT)
            else:
                raise Undefined()
            continue
        c, g = sem(op)
        if sign == "+":
            common |= c
            group |= g
        else:
            common -= c
            group -= g
    return resp, common, group


def _impl_sets(m):
    from formulae.terms.terms import Intercept, Term
    common = set()
    for t in m.common_terms:
        if isinstance(t, Intercept):
            common.add(ICPT)
        elif isinstance(t, Term):
            common.add(frozenset(_canon(c.name) for c in t.components))
        else:
            common.add("<neg>")
    group = set()
    for t in m.group_terms:
        ef = ICPT if isinstance(t.expr, Intercept) else frozenset(_canon(c.name) for c in t.expr.components)
        gf = frozenset(_canon(c.name) for c in t.factor.components)
        group.add((ef, gf))
    resp = None if m.response is None else m.response.term.name
    return resp, common, group


def _fmt(s):
    return sorted(":".join(sorted(x)) if isinstance(x, frozenset) else str(x) for x in s)


def oracle(c):
    from formulae.scanner import Scanner
    from formulae.parser import Parser
    from formulae import model_description
    s = c["s"]
    try:
        # the implicit intercept is inserted HERE, by the documented rule (after the formula's tilde token, or in front
        # of a one-sided formula), not by the scanner under test: a '~' inside a quoted name or a string is no tilde
        from formulae.token import Token
        toks = list(Scanner(s).scan(add_intercept=False))
        tildes = [i for i, t_ in enumerate(toks) if t_.kind == "TILDE"]
        if len(tildes) > 1:
            return None
        at = tildes[0] + 1 if tildes else 0
        toks = toks[:at] + [Token("NUMBER", "1", 1), Token("PLUS", "+")] + toks[at:]
        tree = Parser(toks).parse()
    except Exception:
        return None  # not a formula at all (C01's business)
    # the specification is applied to the tree the DOCUMENTED grammar gives the text (left-associative levels
    # | < comparisons < + - < * / < : < **); a tree that groups the operators otherwise is already a failure
    from props import C01 as _C01
    if not _C01._expr_ok(tree):
        return f"{s!r}: the operators are not grouped by the documented precedence and left associativity"
    try:
        resp, common, group = spec_of(tree)
    except Undefined:
        return None
    cls = classify(tree)
    tag = f"[class:{cls[0]}] " if cls else ""
    try:
        m = model_description(s)
    except Exception as e:
        return (f"{tag}documented formula {s!r} is rejected ({type(e).__name__}: {str(e)[:80]}); "
                f"specification: common={_fmt(common)} group={sorted(map(str, group))}")
    iresp, icommon, igroup = _impl_sets(m)
    if len(list(m.common_terms)) != len(icommon) or len(list(m.group_terms)) != len(igroup):
        return (f"{tag}{s!r}: the model lists a term twice (terms are a set): common "
                f"{[str(t.name) for t in m.common_terms]}, group {[str(t.name) for t in m.group_terms]}")
    if iresp != resp:
        return f"{tag}{s!r}: response {iresp!r}, specification {resp!r}"
    if icommon != common:
        return f"{tag}{s!r}: common terms {_fmt(icommon)}, specification {_fmt(common)}"
    if igroup != group:
        return f"{tag}{s!r}: group terms {sorted(map(str, igroup))}, specification {sorted(map(str, group))}"
    return None


def describe(c, mo, obs):
    return f"{c.get('kind', 'corpus')}/{'accepted' if obs and obs[0] == 'ok' else 'rejected'}"


def nontrivial(c, mo, obs):
    return True


def shrink_candidates(c):
    # replace a parenthesised subtree by an atom / drop an additive item
    s = c["s"]
    out = []
    depth = 0
    starts = []
    for i, ch in enumerate(s):
        if ch == "(":
            starts.append(i)
        elif ch == ")" and starts:
            j = starts.pop()
            if i - j > 3 and s[j - 1:j].isalpha() is False:
                for a in ("a", "b"):
                    out.append({"s": s[:j] + a + s[i + 1:], "kind": "shrunk"})
    return out[:60]


def classify(tree):
    """decidable classes of the listed findings (KNOWN_FINDINGS.json), evaluated on the AST"""
    from formulae import expr as E

    found = []
    top = [True]   # still on the additive spine of the top-level right-hand side

    def walk(e):
        if isinstance(e, E.Grouping):
            was = top[0]
            top[0] = False
            walk(e.expression)
            top[0] = was
        elif isinstance(e, E.Binary):
            if e.operator.kind == "PIPE":
                its = _items(_strip(e.left))
                if any(_int_literal(op) is not None for _, op in its[1:]):
                    found.append("effect_literal_not_leading")
                bare(its)
            if e.operator.kind == "STAR_STAR" and _int_literal(e.right) == 1:
                found.append("power_one")
            if e.operator.kind in ("PLUS", "MINUS") and not top[0]:
                def is_pipe(x):
                    x = _strip(x)
                    return isinstance(x, E.Binary) and x.operator.kind == "PIPE"
                if is_pipe(e.left) != is_pipe(e.right):
                    found.append("nested_group_term")
            was = top[0]
            if e.operator.kind not in ("PLUS", "MINUS"):
                top[0] = False
            walk(e.left)
            walk(e.right)
            top[0] = was
        elif isinstance(e, E.Unary):
            walk(e.right)

    def bare(its):
        # the running value is a bare Intercept / NegatedIntercept object (not yet a Model) and the
        # next item is subtracted from it: neither class defines that subtraction
        state = None
        for i, (sign, op) in enumerate(its):
            lit = _int_literal(op)
            if lit is not None:
                kind = "I" if lit == 1 else "N"
                if state is None and (sign == "+" or i == 0):
                    state = kind
                elif state == kind and sign == "+":
                    pass
                else:
                    state = "M"
                continue
            if sign == "-" and state in ("I", "N") and i >= 1:
                found.append("bare_intercept_minus_term")
            break

    rhs = tree.right if isinstance(tree, E.Binary) and tree.operator.kind == "TILDE" else tree
    walk(rhs)
    bare(_items(rhs))
    return found
