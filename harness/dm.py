"""Shared helpers for the design-matrix properties: frames as JSON, conversion to pandas and to the
driver's S-expressions, observation of a DesignMatrices object, tolerant comparison with the model."""
import math
from fractions import Fraction

TOL = 1e-9


# --------------------------------------------------------------------------- frames
def col(name, typ, values, categories=None):
    c = {"name": name, "type": typ, "values": list(values)}
    if categories is not None:
        c["categories"] = list(categories)
    return c


def to_pandas(frame):
    import numpy as np
    import pandas as pd
    data = {}
    for c in frame["columns"]:
        v = c["values"]
        t = c["type"]
        if t == "int":
            if any(x is None for x in v):
                data[c["name"]] = pd.array([np.nan if x is None else float(x) for x in v], dtype="float64")
            else:
                # "dtype": a narrower integer dtype the values fit in (the model sees the same integers)
                data[c["name"]] = np.array(v, dtype=c.get("dtype", "int64"))
        elif t == "nint":
            # pandas' nullable integer dtype: missing cells are pd.NA
            data[c["name"]] = pd.array([None if x is None else int(x) for x in v], dtype="Int64")
        elif t == "float":
            data[c["name"]] = np.array([np.nan if x is None else (float(x) if x in ("inf", "-inf") else float(Fraction(x)))
                                        for x in v], dtype="float64")
        elif t == "datetime":
            data[c["name"]] = pd.to_datetime(pd.Series(v, dtype="object"))
        elif t == "str":
            data[c["name"]] = np.array([np.nan if x is None else x for x in v], dtype=object)
        elif t == "cat":
            data[c["name"]] = pd.Categorical(v, categories=c.get("categories"), ordered=False)
        elif t == "ordcat":
            data[c["name"]] = pd.Categorical(v, categories=c["categories"], ordered=True)
        else:
            raise ValueError(t)
    df = pd.DataFrame(data)
    if frame.get("index") is not None:
        df.index = frame["index"]
    if frame.get("index_name") is not None:
        df.index.name = frame["index_name"]
    return df


def _cell(x):
    if x is None:
        return "nan"
    f = Fraction(x)
    return str(f.numerator) if f.denominator == 1 else f"{f.numerator}/{f.denominator}"


def frame_sexp(frame):
    out = []
    for c in frame["columns"]:
        t = c["type"]
        if t == "datetime":
            continue  # never used by a formula: the model has no such column type
        if t in ("int", "float", "nint"):
            isint = "int" if (t in ("int", "nint") and not any(x is None for x in c["values"])) else "float"
            out.append([c["name"], ["num", isint, [_cell(x) for x in c["values"]]]])
        else:
            cats = list(c["categories"]) if t == "ordcat" else []
            out.append([c["name"], ["str", cats, [[] if x is None else x for x in c["values"]]]])
    return out


def extra_sexp(extra):
    out = []
    for k, v in (extra or {}).items():
        if isinstance(v, list):
            out.append([k, ["strlist"] + [str(x) for x in v]])
        elif isinstance(v, int):
            out.append([k, ["int", str(v)]])
        elif isinstance(v, str):
            out.append([k, ["str", v]])
        else:
            out.append([k, ["opaque"]])
    return out


def select_rows(frame, idx):
    return {"columns": [dict(c, values=[c["values"][i] for i in idx]) for c in frame["columns"]]}


# --------------------------------------------------------------------------- implementation side
def _rows(a):
    import numpy as np
    a = np.asarray(a, dtype=float)
    if a.ndim == 1:
        a = a[:, None]
    return [[("nan" if math.isnan(x) else repr(float(x))) for x in r] for r in a]


def _labels(fn):
    try:
        l = fn()
        return None if l is None else [str(x) for x in l]
    except Exception:
        return None


def observe_design(dm):
    resp = []
    if dm.response is not None:
        t = dm.response.term.term
        resp = [dm.response.name, str(dm.response.kind), _labels(lambda: t.labels), _rows(dm.response.design_matrix),
                None if dm.response.levels is None else [str(x) for x in dm.response.levels]]
    common = []
    if dm.common is not None:
        for name, t in dm.common.terms.items():
            lv = None
            try:
                if len(getattr(t, "components", [])) == 1 and t.components[0].contrast_matrix is not None:
                    lv = [str(x) for x in t.components[0].contrast_matrix.labels]
            except Exception:
                lv = None
            common.append([name, str(t.kind), _labels(lambda: t.labels), _rows(dm.common[name]), lv])
    group = []
    if dm.group is not None:
        for name, t in dm.group.terms.items():
            group.append([name, str(t.kind), [str(g) for g in t.groups], _labels(lambda: t.labels) or [],
                          _rows(dm.group[name])])
    return [resp, common, group]


def build(case):
    """design_matrices on the case's formula / frame; returns the DesignMatrices (may raise)"""
    from formulae import design_matrices
    df = to_pandas(case["frame"])
    extra = dict(case.get("extra") or {})
    return design_matrices(case["formula"], df, na_action=case.get("na", "drop"), extra_namespace=extra)


# --------------------------------------------------------------------------- comparison
def _num_eq(m, i):
    """m: model cell ('nan' or 'n/d'), i: implementation cell ('nan' or float repr)"""
    if m == "nan" or i == "nan":
        return m == i
    a = float(Fraction(m))
    b = float(i)
    return abs(a - b) <= TOL * (1.0 + abs(a))


def rows_eq(mr, ir):
    if len(mr) != len(ir):
        return False
    for a, b in zip(mr, ir):
        if len(a) != len(b):
            return False
        for x, y in zip(a, b):
            if not _num_eq(x, y):
                return False
    return True


def _opt(m):
    """model option: [] = None, ['some', l] = Some l"""
    if m == []:
        return None
    return list(m[1])


def compare_design(md, obs):
    """md = model (response common group) as parsed sexp; obs = observe_design output"""
    mresp, mcommon, mgroup = md
    iresp, icommon, igroup = obs
    if (mresp == []) != (iresp == []):
        return "response presence differs"
    if mresp != []:
        if mresp[0] != iresp[0] or mresp[1] != iresp[1]:
            return f"response name/kind: model {mresp[:2]} impl {iresp[:2]}"
        if _opt(mresp[2]) != iresp[2]:
            return f"response labels: model {_opt(mresp[2])} impl {iresp[2]}"
        if not rows_eq(mresp[3], iresp[3]):
            return "response matrix differs"
        if _opt(mresp[4]) != iresp[4]:
            return f"response levels: model {_opt(mresp[4])} impl {iresp[4]}"
    if [t[0] for t in mcommon] != [t[0] for t in icommon]:
        return f"common term names: model {[t[0] for t in mcommon]} impl {[t[0] for t in icommon]}"
    for mt, it in zip(mcommon, icommon):
        if mt[1] != it[1]:
            return f"kind of {mt[0]}: model {mt[1]} impl {it[1]}"
        if _opt(mt[2]) != it[2]:
            return f"labels of {mt[0]}: model {_opt(mt[2])} impl {it[2]}"
        if not rows_eq(mt[3], it[3]):
            return f"columns of {mt[0]} differ"
    if [t[0] for t in mgroup] != [t[0] for t in igroup]:
        return f"group term names: model {[t[0] for t in mgroup]} impl {[t[0] for t in igroup]}"
    for mt, it in zip(mgroup, igroup):
        if mt[1] != it[1]:
            return f"kind of {mt[0]}: model {mt[1]} impl {it[1]}"
        if list(mt[2]) != it[2]:
            return f"groups of {mt[0]}: model {mt[2]} impl {it[2]}"
        if list(mt[3]) != it[3]:
            return f"labels of {mt[0]}: model {mt[3]} impl {it[3]}"
        if not rows_eq(mt[4], it[4]):
            return f"block of {mt[0]} differs"
    return None


def design_cmd(case):
    import core
    return core.sshow(["design", case["formula"], frame_sexp(case["frame"]), case.get("na", "drop"),
                       extra_sexp(case.get("extra"))])
