#!/usr/bin/env python3
"""Layer-A tie: regenerate the declarative tables of /repo/formulae into coq/Generated/Generated.v.

Fail closed: every recogniser accepts one fixed source shape; anything else raises TranslateError,
which the checks report as a broken tie.  Only Python's `ast` module is used.

Tables (see DESIGN.md section 2):
  T1 parser.py     descent chain of binary levels, operand level of '~' and '=', unary kinds,
                   whether Parser.parse checks for end of input
  T2 scanner.py    single-character tokens, two-character tokens, whitespace, quotes,
                   python literal names, extra identifier characters
  T3 resolver.py   token kind -> Python operator used on the term algebra
  T4 call_resolver.py  BINARY_OPERATORS / UNARY_OPERATORS composed with LazyOperator.SYMBOLS
  T5 transforms.py TRANSFORMS registry (name -> object), bodies of S and T
  T6 config.py / categorical.py / matrices.py  Config.FIELDS, ENCODINGS, accepted na_action values
"""
import ast
import os
import sys


class TranslateError(Exception):
    pass


def _src(repo, rel):
    with open(os.path.join(repo, rel)) as fh:
        return ast.parse(fh.read(), rel)


def _cls(mod, name):
    for n in mod.body:
        if isinstance(n, ast.ClassDef) and n.name == name:
            return n
    raise TranslateError(f"class {name} not found")


def _fn(node, name):
    for n in node.body:
        if isinstance(n, ast.FunctionDef) and n.name == name:
            return n
    raise TranslateError(f"function {name} not found")


def _body(fn):
    """function body without a leading docstring"""
    b = fn.body
    if b and isinstance(b[0], ast.Expr) and isinstance(getattr(b[0], "value", None), ast.Constant) \
            and isinstance(b[0].value.value, str):
        b = b[1:]
    return b


def _strs(node):
    """a string constant or a list/tuple of string constants -> list of str"""
    if isinstance(node, ast.Constant) and isinstance(node.value, str):
        return [node.value]
    if isinstance(node, (ast.List, ast.Tuple)) and all(
        isinstance(e, ast.Constant) and isinstance(e.value, str) for e in node.elts
    ):
        return [e.value for e in node.elts]
    raise TranslateError(f"expected string constants, got {ast.dump(node)}")


def _self_call(node, name=None):
    """self.<name>(args) -> (name, args)"""
    if (isinstance(node, ast.Call) and isinstance(node.func, ast.Attribute)
            and isinstance(node.func.value, ast.Name) and node.func.value.id == "self"):
        if name is None or node.func.attr == name:
            return node.func.attr, node.args
    raise TranslateError(f"expected self.{name or '<method>'}(...), got {ast.dump(node)}")


# ------------------------------------------------------------------ T1
def _binary_level(fn):
    """expr = self.N(); while self.match([..]): operator = self.previous(); right = self.N();
       expr = Binary(expr, operator, right); return expr"""
    b = _body(fn)
    if len(b) != 3:
        raise TranslateError(f"{fn.name}: unexpected statement count")
    a0, wh, ret = b
    if not (isinstance(a0, ast.Assign) and len(a0.targets) == 1 and isinstance(a0.targets[0], ast.Name)
            and a0.targets[0].id == "expr"):
        raise TranslateError(f"{fn.name}: first statement")
    nxt, args = _self_call(a0.value)
    if args:
        raise TranslateError(f"{fn.name}: next level takes arguments")
    if not isinstance(wh, ast.While) or wh.orelse:
        raise TranslateError(f"{fn.name}: no while loop")
    _, margs = _self_call(wh.test, "match")
    if len(margs) != 1:
        raise TranslateError(f"{fn.name}: match arity")
    kinds = _strs(margs[0])
    wb = wh.body
    ok = (
        len(wb) == 3
        and isinstance(wb[0], ast.Assign) and wb[0].targets[0].id == "operator"
        and _self_call(wb[0].value, "previous")[1] == []
        and isinstance(wb[1], ast.Assign) and wb[1].targets[0].id == "right"
        and _self_call(wb[1].value)[0] == nxt and _self_call(wb[1].value)[1] == []
        and isinstance(wb[2], ast.Assign) and wb[2].targets[0].id == "expr"
        and isinstance(wb[2].value, ast.Call) and isinstance(wb[2].value.func, ast.Name)
        and wb[2].value.func.id == "Binary"
        and [getattr(x, "id", None) for x in wb[2].value.args] == ["expr", "operator", "right"]
    )
    if not ok:
        raise TranslateError(f"{fn.name}: loop body is not the left-associative fold")
    if not (isinstance(ret, ast.Return) and isinstance(ret.value, ast.Name) and ret.value.id == "expr"):
        raise TranslateError(f"{fn.name}: return")
    return nxt, kinds


def t1_parser(repo):
    cls = _cls(_src(repo, "formulae/parser.py"), "Parser")
    # tilde: expr = self.L(); if self.match("TILDE"): operator = ...; right = self.R(); expr = Binary(...)
    tb = _body(_fn(cls, "tilde"))
    left, _ = _self_call(tb[0].value)
    if not (isinstance(tb[1], ast.If) and _strs(_self_call(tb[1].test, "match")[1][0]) == ["TILDE"]):
        raise TranslateError("tilde: shape")
    right_of_tilde = _self_call(tb[1].body[1].value)[0]
    ab = _body(_fn(cls, "assignment"))
    if _self_call(ab[0].value)[0] != "tilde":
        raise TranslateError("assignment: does not start with tilde")
    if not (isinstance(ab[1], ast.If) and _strs(_self_call(ab[1].test, "match")[1][0]) == ["EQUAL"]):
        raise TranslateError("assignment: shape")
    right_of_assign = _self_call(ab[1].body[0].value)[0]
    if right_of_assign != right_of_tilde:
        raise TranslateError("assignment and tilde use different operand levels")
    eb = _body(_fn(cls, "expression"))
    if not (len(eb) == 1 and isinstance(eb[0], ast.Return) and _self_call(eb[0].value)[0] == "assignment"):
        raise TranslateError("expression: shape")
    chain, names, cur = [], [], left
    while cur != "unary":
        if cur in names or len(names) > 20:
            raise TranslateError("descent chain loops")
        nxt, kinds = _binary_level(_fn(cls, cur))
        names.append(cur)
        chain.append(kinds)
        cur = nxt
    if right_of_tilde not in names:
        raise TranslateError("operand level of ~ is not in the chain")
    # unary: if self.match(["PLUS","MINUS"]): operator = previous; right = self.unary(); return Unary(..)
    ub = _body(_fn(cls, "unary"))
    if not (isinstance(ub[0], ast.If) and isinstance(ub[1], ast.Return)
            and _self_call(ub[1].value)[0] == "call"):
        raise TranslateError("unary: shape")
    unary_kinds = _strs(_self_call(ub[0].test, "match")[1][0])
    if _self_call(ub[0].body[1].value)[0] != "unary":
        raise TranslateError("unary: operand is not unary")
    # parse: either `return self.expression()` or the same followed by an end-of-input check
    pb = _body(_fn(cls, "parse"))
    if len(pb) == 1 and isinstance(pb[0], ast.Return) and _self_call(pb[0].value)[0] == "expression":
        checks_eof = False
    elif (len(pb) == 3 and isinstance(pb[0], ast.Assign) and _self_call(pb[0].value)[0] == "expression"
          and isinstance(pb[1], ast.If) and isinstance(pb[1].test, ast.UnaryOp)
          and isinstance(pb[1].test.op, ast.Not) and _self_call(pb[1].test.operand)[0] == "at_end"
          and len(pb[1].body) == 1 and isinstance(pb[1].body[0], ast.Raise) and not pb[1].orelse
          and isinstance(pb[2], ast.Return) and isinstance(pb[2].value, ast.Name)
          and pb[2].value.id == pb[0].targets[0].id):
        checks_eof = True
    else:
        raise TranslateError("parse: unrecognised body")
    return {"chain": chain, "addition_index": names.index(right_of_tilde),
            "unary_kinds": unary_kinds, "parse_checks_eof": checks_eof}


# ------------------------------------------------------------------ T2
def t2_scanner(repo):
    mod = _src(repo, "formulae/scanner.py")
    cls = _cls(mod, "Scanner")
    st = _body(_fn(cls, "scan_token"))
    if not (isinstance(st[0], ast.Assign) and _self_call(st[0].value)[0] == "advance"):
        raise TranslateError("scan_token: first statement")
    node = st[1]
    single, double, quotes, white = [], [], None, None
    special = {}  # char -> description of the special branch
    while True:
        if not isinstance(node, ast.If):
            raise TranslateError("scan_token: not an if/elif chain")
        t = node.test
        if isinstance(t, ast.Compare) and isinstance(t.left, ast.Name) and t.left.id == "char":
            if isinstance(t.ops[0], ast.In):
                chars = _strs(t.comparators[0])
                b = node.body
                if len(b) == 1 and isinstance(b[0], ast.Pass):
                    white = chars
                elif len(b) == 1 and isinstance(b[0], ast.Expr) and _self_call(b[0].value)[0] == "char":
                    quotes = chars
                else:
                    raise TranslateError("scan_token: unknown 'in' branch")
            elif isinstance(t.ops[0], ast.Eq):
                c = _strs(t.comparators[0])[0]
                b = node.body
                if len(b) == 1 and isinstance(b[0], ast.Expr):
                    nm, args = _self_call(b[0].value)
                    if nm == "add_token" and len(args) == 1:
                        single.append((c, _strs(args[0])[0]))
                    elif nm in ("backquote",) and not args:
                        special[c] = nm
                    else:
                        raise TranslateError(f"scan_token: branch for {c!r}")
                elif len(b) == 1 and isinstance(b[0], ast.If):
                    inner = b[0]
                    if c == ".":
                        nm, args = ".", []
                    else:
                        nm, args = _self_call(inner.test)
                    if nm == "match":
                        c2 = _strs(args[0])[0]
                        k2 = _strs(_self_call(inner.body[0].value, "add_token")[1][0])[0]
                        k1 = _strs(_self_call(inner.orelse[0].value, "add_token")[1][0])[0]
                        double.append((c, c2, k2, k1))
                    elif c == ".":
                        # if self.peek().isdigit(): self.floatnum() else: self.add_token("PERIOD")
                        if not (isinstance(inner.test, ast.Call) and inner.test.func.attr == "isdigit"
                                and _self_call(inner.body[0].value)[0] == "floatnum"
                                and _strs(_self_call(inner.orelse[0].value, "add_token")[1][0]) == ["PERIOD"]):
                            raise TranslateError("scan_token: '.' branch")
                        special[c] = "floatnum-or-PERIOD"
                    else:
                        raise TranslateError(f"scan_token: nested branch for {c!r}")
                else:
                    raise TranslateError(f"scan_token: branch for {c!r}")
            else:
                raise TranslateError("scan_token: comparison")
        elif isinstance(t, ast.Call) and isinstance(t.func, ast.Attribute) and t.func.attr in ("isdigit", "isalpha"):
            want = {"isdigit": "number", "isalpha": "identifier"}[t.func.attr]
            if _self_call(node.body[0].value)[0] != want:
                raise TranslateError("scan_token: digit/alpha branch")
            special[t.func.attr] = want
        else:
            raise TranslateError("scan_token: unknown test")
        if len(node.orelse) == 1 and isinstance(node.orelse[0], ast.If):
            node = node.orelse[0]
        else:
            if not (len(node.orelse) == 1 and isinstance(node.orelse[0], ast.Raise)):
                raise TranslateError("scan_token: final else must raise")
            break
    if special != {"`": "backquote", ".": "floatnum-or-PERIOD", "isdigit": "number", "isalpha": "identifier"}:
        raise TranslateError(f"scan_token: special branches {special}")
    # identifier(): while self.peek().isalnum() or self.peek() in [".", "_"]
    ib = _body(_fn(cls, "identifier"))
    wh = ib[0]
    if not (isinstance(wh, ast.While) and isinstance(wh.test, ast.BoolOp) and isinstance(wh.test.op, ast.Or)):
        raise TranslateError("identifier: loop")
    ident_extra = _strs(wh.test.values[1].comparators[0])
    pylits = None
    for n in ast.walk(_fn(cls, "identifier")):
        if isinstance(n, ast.Compare) and isinstance(n.ops[0], ast.In) and isinstance(n.left, ast.Name) \
                and n.left.id == "token":
            pylits = _strs(n.comparators[0])
    if pylits is None:
        raise TranslateError("identifier: python literal names")
    return {"single": single, "double": double, "quotes": quotes, "white": white,
            "ident_extra": ident_extra, "pylits": pylits}


# ------------------------------------------------------------------ T3
_PYOPS = {ast.Add: "OpAdd", ast.Sub: "OpSub", ast.Pow: "OpPow", ast.MatMult: "OpColon",
          ast.Mult: "OpMul", ast.Div: "OpDiv", ast.BitOr: "OpOr"}


def t3_resolver(repo):
    cls = _cls(_src(repo, "formulae/resolver.py"), "Resolver")
    b = _body(_fn(cls, "visitBinaryExpr"))
    out = []
    nodes = []
    for stmt in b[1:]:
        n = stmt
        while isinstance(n, ast.If):
            nodes.append(n)
            n = n.orelse[0] if len(n.orelse) == 1 else None
    for n in nodes:
        t = n.test
        if not (isinstance(t, ast.Compare) and isinstance(t.left, ast.Name) and t.left.id == "otype"
                and isinstance(t.ops[0], ast.Eq)):
            raise TranslateError("visitBinaryExpr: test")
        kind = _strs(t.comparators[0])[0]
        ret = [s for s in n.body if isinstance(s, ast.Return)]
        if len(ret) != 1 or not isinstance(ret[0].value, ast.BinOp):
            raise TranslateError("visitBinaryExpr: branch body")
        bo = ret[0].value

        def is_accept(x, side):
            return (isinstance(x, ast.Call) and isinstance(x.func, ast.Attribute) and x.func.attr == "accept"
                    and isinstance(x.func.value, ast.Attribute) and x.func.value.attr == side)

        if kind == "TILDE":
            if not (isinstance(bo.op, ast.Add) and isinstance(bo.left, ast.Call)
                    and getattr(bo.left.func, "id", None) == "Response"
                    and is_accept(bo.left.args[0], "left") and is_accept(bo.right, "right")):
                raise TranslateError("visitBinaryExpr: TILDE branch")
            out.append((kind, "OpTilde"))
        else:
            if not (is_accept(bo.left, "left") and is_accept(bo.right, "right") and type(bo.op) in _PYOPS):
                raise TranslateError(f"visitBinaryExpr: {kind} branch")
            out.append((kind, _PYOPS[type(bo.op)]))
    return {"resolver_ops": out}


# ------------------------------------------------------------------ T4
def _dict_of(cls, name):
    for n in cls.body:
        if isinstance(n, ast.Assign) and len(n.targets) == 1 and getattr(n.targets[0], "id", None) == name:
            if not isinstance(n.value, ast.Dict):
                raise TranslateError(f"{name}: not a dict literal")
            return n.value
    raise TranslateError(f"{name} not found")


def t4_lazy(repo):
    mod = _src(repo, "formulae/terms/call_resolver.py")
    sd = _dict_of(_cls(mod, "LazyOperator"), "SYMBOLS")
    sym = {k.value: v.value for k, v in zip(sd.keys, sd.values)}
    res = {}
    for nm in ("BINARY_OPERATORS", "UNARY_OPERATORS"):
        d = _dict_of(_cls(mod, "CallResolver"), nm)
        lst = []
        for k, v in zip(d.keys, d.values):
            if not (isinstance(v, ast.Attribute) and getattr(v.value, "id", None) == "operator"):
                raise TranslateError(f"{nm}: value is not operator.<name>")
            if v.attr not in sym:
                raise TranslateError(f"{nm}: operator.{v.attr} has no symbol")
            lst.append((k.value, sym[v.attr]))
        res[nm] = lst
    return res


# ------------------------------------------------------------------ T5 / T6
def t5_transforms(repo):
    mod = _src(repo, "formulae/transforms.py")
    reg = []
    for n in mod.body:
        if isinstance(n, ast.ClassDef) and any(getattr(d, "id", None) == "register_stateful_transform"
                                               for d in n.decorator_list):
            key = n.name
            for s in n.body:
                if isinstance(s, ast.Assign) and getattr(s.targets[0], "id", None) == "__transform_name__":
                    key = s.value.value
            reg.append((key, n.name))
    for n in mod.body:
        if (isinstance(n, ast.Expr) and isinstance(n.value, ast.Call) and isinstance(n.value.func, ast.Attribute)
                and n.value.func.attr == "update" and getattr(n.value.func.value, "id", None) == "TRANSFORMS"):
            d = n.value.args[0]
            for k, v in zip(d.keys, d.values):
                if not isinstance(v, ast.Name):
                    raise TranslateError("TRANSFORMS.update: value")
                reg.append((k.value, v.id))
    # bodies of S and T: return CategoricalBox(data, Sum(omit), levels) / Treatment(ref)
    bodies = {}
    for fname in ("S", "T"):
        fn = _fn(mod, fname)
        ret = _body(fn)[-1]
        c = ret.value
        if not (isinstance(ret, ast.Return) and isinstance(c, ast.Call) and c.func.id == "CategoricalBox"
                and len(c.args) == 3 and isinstance(c.args[1], ast.Call)):
            raise TranslateError(f"{fname}: body")
        params = [a.arg for a in fn.args.args]
        enc = c.args[1]
        if not (c.args[0].id == params[0] and enc.args[0].id == params[1] and c.args[2].id == params[2]):
            raise TranslateError(f"{fname}: argument wiring")
        bodies[fname] = enc.func.id
    return {"registry": sorted(reg), "bodies": bodies}


def t6_config(repo):
    mod = _src(repo, "formulae/config.py")
    d = _dict_of(_cls(mod, "Config"), "FIELDS")
    fields = [(k.value, _strs(v)) for k, v in zip(d.keys, d.values)]
    cat = _src(repo, "formulae/categorical.py")
    enc = None
    for n in cat.body:
        if isinstance(n, ast.Assign) and getattr(n.targets[0], "id", None) == "ENCODINGS":
            enc = [(k.value, v.id) for k, v in zip(n.value.keys, n.value.values)]
    if enc is None:
        raise TranslateError("ENCODINGS not found")
    mat = _src(repo, "formulae/matrices.py")
    na = None
    for n in ast.walk(_fn(mat, "design_matrices")):
        if (isinstance(n, ast.Compare) and getattr(n.left, "id", None) == "na_action"
                and isinstance(n.ops[0], ast.NotIn)):
            na = _strs(n.comparators[0])
    if na is None:
        raise TranslateError("na_action validation not found")
    return {"fields": fields, "encodings": enc, "na_actions": na}


# ------------------------------------------------------------------ emit
def _q(s):
    return '"' + s.replace('"', '""') + '"'


def _char(c):
    codes = {"\n": "ch_nl", "\t": "ch_tab", "\r": "ch_cr"}
    if c in codes:
        return codes[c]
    if c == '"':
        return '""""%char'
    return f'"{c}"%char'


def emit(repo):
    t1, t2, t3, t4 = t1_parser(repo), t2_scanner(repo), t3_resolver(repo), t4_lazy(repo)
    t5, t6 = t5_transforms(repo), t6_config(repo)
    o = []
    o.append("(* GENERATED by harness/translate.py from /repo/formulae -- do not edit *)")
    o.append("From Verif Require Import Base Tokens Scanner Lazy Algebra.")
    o.append("Local Open Scope string_scope.")
    o.append("Definition gen_chain : list (list kind) :=\n  [" +
             ";\n   ".join("[" + "; ".join(ks) + "]" for ks in t1["chain"]) + "].")
    o.append(f"Definition gen_addition_index : nat := {t1['addition_index']}.")
    o.append("Definition gen_unary_kinds : list kind := [" + "; ".join(t1["unary_kinds"]) + "].")
    o.append(f"Definition gen_parse_checks_eof : bool := {'true' if t1['parse_checks_eof'] else 'false'}.")
    o.append("Definition gen_single_chars : list (ascii * kind) :=\n  [" +
             "; ".join(f"({_char(c)}, {k})" for c, k in t2["single"]) + "].")
    o.append("Definition gen_double_chars : list (ascii * ascii * kind * kind) :=\n  [" +
             "; ".join(f"({_char(a)}, {_char(b)}, {k2}, {k1})" for a, b, k2, k1 in t2["double"]) + "].")
    o.append("Definition gen_whitespace : list ascii := [" + "; ".join(_char(c) for c in t2["white"]) + "].")
    o.append("Definition gen_quotes : list ascii := [" + "; ".join(_char(c) for c in t2["quotes"]) + "].")
    o.append("Definition gen_ident_extra : list ascii := [" + "; ".join(_char(c) for c in t2["ident_extra"]) + "].")
    o.append("Definition gen_python_literals : list string := [" + "; ".join(_q(s) for s in t2["pylits"]) + "].")
    o.append("Definition gen_resolver_ops : list (kind * binop) :=\n  [" +
             "; ".join(f"({k}, {op})" for k, op in t3["resolver_ops"]) + "].")
    o.append("Definition gen_binary_symbols : list (kind * string) :=\n  [" +
             "; ".join(f"({k}, {_q(s)})" for k, s in t4["BINARY_OPERATORS"]) + "].")
    o.append("Definition gen_unary_symbols : list (kind * string) :=\n  [" +
             "; ".join(f"({k}, {_q(s)})" for k, s in t4["UNARY_OPERATORS"]) + "].")
    o.append("Definition gen_transform_registry : list (string * string) :=\n  [" +
             "; ".join(f"({_q(k)}, {_q(v)})" for k, v in t5["registry"]) + "].")
    o.append(f"Definition gen_S_encoding : string := {_q(t5['bodies']['S'])}.")
    o.append(f"Definition gen_T_encoding : string := {_q(t5['bodies']['T'])}.")
    o.append("Definition gen_config_fields : list (string * list string) :=\n  [" +
             "; ".join(f"({_q(k)}, [" + "; ".join(_q(x) for x in v) + "])" for k, v in t6["fields"]) + "].")
    o.append("Definition gen_encodings : list (string * string) := [" +
             "; ".join(f"({_q(k)}, {_q(v)})" for k, v in t6["encodings"]) + "].")
    o.append("Definition gen_na_actions : list string := [" + "; ".join(_q(x) for x in t6["na_actions"]) + "].")
    return "\n".join(o) + "\n"


def main():
    repo = sys.argv[1] if len(sys.argv) > 1 else "/repo"
    out = sys.argv[2] if len(sys.argv) > 2 else os.path.join(os.path.dirname(__file__), "..", "coq", "Generated", "Generated.v")
    try:
        text = emit(repo)
    except TranslateError as e:
        print(f"TRANSLATE-ERROR: {e}")
        sys.exit(2)
    except Exception as e:  # any unexpected source shape is a broken tie as well
        print(f"TRANSLATE-ERROR: {type(e).__name__}: {e}")
        sys.exit(2)
    old = None
    if os.path.exists(out):
        with open(out) as fh:
            old = fh.read()
    if old != text:
        with open(out, "w") as fh:
            fh.write(text)
    print("translate: ok")


if __name__ == "__main__":
    main()
