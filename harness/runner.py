"""Generic check protocol (DESIGN.md section 7): build -> corpus + generated cases on model and
implementation -> compare observations -> direct oracle -> verdict, evidence, replay."""
import collections
import importlib
import json
import os
import random
import sys
import time

import core


def _load_corpus(prop):
    path = os.path.join(core.VERIF, "corpus", prop + ".jsonl")
    out = []
    if os.path.exists(path):
        with open(path) as fh:
            for line in fh:
                line = line.strip()
                if line and not line.startswith("#"):
                    out.append(json.loads(line))
    return out


def _finding_of(oracle_msg, open_findings):
    """an oracle message that starts with [class:<name>] belongs to the listed finding of that class"""
    if not oracle_msg or not oracle_msg.startswith("[class:"):
        return None
    cls = oracle_msg[len("[class:"):oracle_msg.index("]")]
    for f in open_findings:
        if f.get("class") == cls:
            return f["id"]
    return None


def _shrink(mod, prop, case, rounds=12, open_findings=()):
    """greedy: replace the case by the first smaller candidate on which the oracle still fails"""
    if not hasattr(mod, "shrink_candidates"):
        return case
    cur = case
    for _ in range(rounds):
        cands = mod.shrink_candidates(cur)[:400]
        if not cands:
            break
        res = core.run_impl(prop, cands, what="oracle")
        nxt = None
        for c, r in zip(cands, res):
            if r.get("oracle") and r["oracle"] != "timeout (possible non-termination)" \
                    and not _finding_of(r["oracle"], open_findings):
                nxt = c
                break
        if nxt is None:
            break
        cur = nxt
    return cur


ESCALATION_ROUNDS = 5


def run_check(prop, tier, seed):
    t0 = time.time()
    mod = importlib.import_module("props." + prop)
    b = core.build(mod.PROP_FILES, thorough=(tier == "thorough"))
    rng = random.Random(seed)
    corpus = _load_corpus(prop)
    # witnesses of repaired defects stay in the corpus forever: they must pass
    for f in core.known_findings(prop):
        if f.get("status") == "fixed":
            corpus += [dict(w["input"], kind="fixed-finding") for w in f.get("witnesses", [])]
    if hasattr(mod, "prepare"):
        corpus = [mod.prepare(c) for c in corpus]
    cases = corpus + mod.gen(rng, tier)
    # the source differs from the fingerprints the model was reconciled with, in a file this property is
    # anchored in: explore several seeds' worth of inputs (a deeper search, not an alarm by itself)
    changed = core.changed_functions()
    escalated = tier == "quick" and core.touches(prop, changed) and not os.environ.get("VERIF_NO_ESCALATE")
    if escalated:
        seen_cases = {json.dumps(c, sort_keys=True, default=str) for c in cases}
        for k in range(1, ESCALATION_ROUNDS):
            for c in mod.gen(random.Random(seed + 7919 * k), tier):
                j = json.dumps(c, sort_keys=True, default=str)
                if j not in seen_cases:
                    seen_cases.add(j)
                    cases.append(c)
    for i, c in enumerate(cases):
        c.setdefault("origin", "corpus" if i < len(corpus) else "generated")

    impl = core.run_impl(prop, cases, what="both")
    model_out = [None] * len(cases)
    if b.driver_ok and hasattr(mod, "model_cmd"):
        raw = core.run_model([mod.model_cmd(c) for c in cases])
        model_out = [core.sparse(r) for r in raw]

    findings = core.known_findings(prop)
    open_findings = [f for f in findings if f.get("status") == "finding"]

    disagreements, oracle_fail, known_hits = [], [], collections.Counter()
    hist = collections.Counter()
    distinct = set()
    harness_errors = []
    for c, mo, io in zip(cases, model_out, impl):
        obs = io.get("obs")
        if isinstance(obs, list) and obs and obs[0] in ("harness-exception", "worker-crash"):
            harness_errors.append((c, obs))
        elif io.get("oracle_error"):
            harness_errors.append((c, ["oracle-exception", io["oracle_error"]]))
        label = mod.describe(c, mo, obs) if hasattr(mod, "describe") else "case"
        hist[label] += 1
        if not hasattr(mod, "nontrivial") or mod.nontrivial(c, mo, obs):
            distinct.add(json.dumps(mod.key(c) if hasattr(mod, "key") else c, sort_keys=True))
        kf = _finding_of(io.get("oracle"), open_findings)
        if kf is None and io.get("oracle") and hasattr(mod, "model_class") and mo is not None:
            cls = mod.model_class(c, mo)
            if cls:
                kf = _finding_of(f"[class:{cls}] ", open_findings)
                io["oracle"] = f"[class:{cls}] " + io["oracle"]
        if io.get("oracle"):
            if kf:
                known_hits[kf] += 1
            else:
                oracle_fail.append((c, io["oracle"], obs))
        if mo is not None:
            d = mod.compare(c, mo, obs)
            if d:
                if kf and not io.get("oracle"):
                    pass  # inside a listed finding class and the property's own oracle passes
                elif kf:
                    pass  # listed finding; counted above
                else:
                    disagreements.append((c, d, mo, obs))

    violations = 0
    lines = []
    # listed findings: replay their witnesses on the real code
    for f in open_findings:
        wit = [w["input"] for w in f.get("witnesses", [])]
        if hasattr(mod, "prepare"):
            wit = [mod.prepare(w) for w in wit]
        res = core.run_impl(prop, wit, what="oracle") if wit else []
        still = [w for w, r in zip(wit, res) if r.get("oracle")]
        if still or known_hits.get(f["id"]):
            lines.append(f"KNOWN-FINDING: property={prop} {f['id']} {f.get('what', '')} "
                         f"({len(still)}/{len(wit)} witnesses fail; {known_hits.get(f['id'], 0)} generated cases in class)")
    if harness_errors:
        c, obs = harness_errors[0]
        path = core.write_replay(prop, {"property": prop, "seed": seed, "tier": tier,
                                        "broken": "harness error (observation could not be computed)",
                                        "input": c, "observed": obs, "no_failing_input_found": True})
        lines.append(f"VIOLATION property={prop} replay={path} no-failing-input-found")
        violations += 1
    reported = set()
    for c, msg, obs in oracle_fail[:200]:
        small = c
        if len(reported) < 3:
            small = _shrink(mod, prop, c, open_findings=open_findings)
        k = json.dumps(mod.key(small) if hasattr(mod, "key") else small, sort_keys=True)
        if k in reported:
            continue
        reported.add(k)
        if len(reported) > 5:
            break
        res = core.run_impl(prop, [small], what="both")[0]
        path = core.write_replay(prop, {
            "property": prop, "seed": seed, "tier": tier,
            "broken": "direct oracle: " + str(res.get("oracle") or msg),
            "input": small, "original_input": c, "observed": res.get("obs"),
            "expected": "the property statement evaluated on the implementation (see 'broken')",
            "no_failing_input_found": False})
        lines.append(f"VIOLATION property={prop} replay={path}")
        violations += 1
    if not oracle_fail and (not b.ok or disagreements):
        broken = list(b.broken)
        if disagreements:
            c, d, mo, obs = disagreements[0]
            broken.append(f"correspondence {prop}: model and implementation disagree on {len(disagreements)} "
                          f"of {len(cases)} inputs; first: {d}")
        payload = {"property": prop, "seed": seed, "tier": tier, "broken": broken,
                   "no_failing_input_found": True,
                   "note": "the direct oracle found no input on which the property fails; the property is "
                           "no longer shown to hold because the items in 'broken' no longer check"}
        if disagreements:
            payload["input"] = disagreements[0][0]
            payload["model"] = disagreements[0][2]
            payload["observed"] = disagreements[0][3]
        path = core.write_replay(prop, payload)
        lines.append(f"VIOLATION property={prop} replay={path} no-failing-input-found")
        violations += 1

    samples = [cases[i] for i in sorted(set([0, len(cases) // 3, (2 * len(cases)) // 3, len(cases) - 1]))
               if 0 <= i < len(cases)]
    coverage = {
        "evaluations": len(cases),
        "distinct_nontrivial": len(distinct),
        "rule": getattr(mod, "RULE", ""),
        "samples": samples[:6],
        "exhaustive": bool(getattr(mod, "EXHAUSTIVE", {}).get(tier, False)),
        "input_distribution": dict(hist.most_common(40)),
        "disagreements": len(disagreements),
        "disagreements_checked": len(cases) if model_out[0] is not None or not cases else 0,
        "oracle_failures": len(oracle_fail),
        "known_finding_hits": dict(known_hits),
        "theorems": core.theorem_names(mod.PROP_FILES),
        "corpus_cases": len(corpus),
        "source_functions_changed": changed[:40],
        "escalated_rounds": ESCALATION_ROUNDS if escalated else 1,
    }
    core.write_evidence(prop, tier, seed, b, coverage, getattr(mod, "ASSUMPTIONS", []),
                        time.time() - t0, violations)
    for l in lines:
        print(l)
    print(f"{prop} {tier}: cases={len(cases)} disagreements={len(disagreements)} "
          f"oracle_failures={len(oracle_fail)} build_ok={b.ok} obligations={b.discharged}/{b.obligations} "
          f"wall={time.time() - t0:.1f}s")
    if not b.ok:
        print("build log tail:\n" + "\n".join(b.log.strip().splitlines()[-15:]))
    return 1 if violations else 0


def replay(path):
    with open(os.path.join(core.VERIF, path) if not os.path.isabs(path) else path) as fh:
        payload = json.load(fh)
    prop = payload["property"]
    case = payload.get("input")
    print("property:", prop)
    print("broken:", payload.get("broken"))
    if case is None:
        print("no input recorded (no-failing-input-found)")
        return 0
    res = core.run_impl(prop, [case], what="both")[0]
    print("input:", json.dumps(case))
    print("observed now:", json.dumps(res.get("obs"))[:2000])
    print("oracle now:", res.get("oracle"))
    return 1 if res.get("oracle") else 0
