(* Specification: the stratified grammar of formulas, written independently of the parser.
   One level per documented precedence class; binary levels are left-associative; every token of a
   derived token list is accounted for by exactly one production. *)
From Verif Require Import Base Tokens Parser.

(* the documented precedence classes, lowest first (| < comparisons < + - < * / < : < ** ),
   then unary sign, then call, then atoms *)
Definition precedence : list (list kind) := Parser.chain.
Definition additive_suffix : list (list kind) := skipn Parser.addition_index precedence.

Inductive DExpr : list token -> expr -> Prop :=
| DE_plain ts e : DLev precedence ts e -> DExpr ts e
| DE_tilde tl l op tr r :
    DLev precedence tl l -> tkind op = TILDE -> DLev additive_suffix tr r ->
    DExpr (tl ++ op :: tr) (EBinary l op r)
| DE_assign tl n lv op tr r :
    DLev precedence tl (EVariable n lv) -> tkind op = EQUAL -> DLev additive_suffix tr r ->
    DExpr (tl ++ op :: tr) (EAssign (EVariable n lv) r)

(* DLev c: a phrase of the level at the head of the chain suffix c *)
with DLev : list (list kind) -> list token -> expr -> Prop :=
| DL_base ts e : DUnary ts e -> DLev [] ts e
| DL_up ks c ts e : DLev c ts e -> DLev (ks :: c) ts e
| DL_bin ks c tl l op tr r :
    DLev (ks :: c) tl l -> is_kind ks op = true -> tkind op <> EOF -> DLev c tr r ->
    DLev (ks :: c) (tl ++ op :: tr) (EBinary l op r)

with DUnary : list token -> expr -> Prop :=
| DU_sign op ts e :
    is_kind Parser.unary_kinds op = true -> tkind op <> EOF -> DUnary ts e ->
    DUnary (op :: ts) (EUnary op e)
| DU_call ts e : DCall ts e -> DUnary ts e

with DCall : list token -> expr -> Prop :=
| DC_primary ts e : DPrimary ts e -> DCall ts e
| DC_call0 ts f lp rp :
    DCall ts f -> tkind lp = LEFT_PAREN -> tkind rp = RIGHT_PAREN ->
    DCall (ts ++ [lp; rp]) (ECall f [])
| DC_call ts f lp targs args rp :
    DCall ts f -> tkind lp = LEFT_PAREN -> DArgs targs args -> tkind rp = RIGHT_PAREN ->
    DCall (ts ++ lp :: targs ++ [rp]) (ECall f args)

(* a non-empty, comma-separated argument list *)
with DArgs : list token -> list expr -> Prop :=
| DA_one ts e : DExpr ts e -> DArgs ts [e]
| DA_cons ts e c rest es :
    DExpr ts e -> tkind c = COMMA -> DArgs rest es -> DArgs (ts ++ c :: rest) (e :: es)

with DPrimary : list token -> expr -> Prop :=
| DP_var t : tkind t = IDENTIFIER -> DPrimary [t] (EVariable t None)
| DP_level t lb tl lv lv' rb :
    tkind t = IDENTIFIER -> tkind lb = LEFT_BRACKET -> DPrimary tl lv -> level_check lv = Ok lv' ->
    tkind rb = RIGHT_BRACKET -> DPrimary (t :: lb :: tl ++ [rb]) (EVariable t (Some lv'))
| DP_number t v :
    tkind t = NUMBER \/ tkind t = PYTHON_LITERAL -> literal t = Some v -> DPrimary [t] (ELiteral v None)
| DP_string t v :
    tkind t = STRING -> literal t = Some v -> DPrimary [t] (ELiteral v (Some (lexeme t)))
| DP_bqname t : tkind t = BQNAME -> DPrimary [t] (EQuotedName t)
| DP_group lp ts e rp :
    tkind lp = LEFT_PAREN -> DExpr ts e -> tkind rp = RIGHT_PAREN ->
    DPrimary (lp :: ts ++ [rp]) (EGrouping e)
| DP_brace lb ts e rb :
    tkind lb = LEFT_BRACE -> DExpr ts e -> tkind rb = RIGHT_BRACE ->
    DPrimary (lb :: ts ++ [rb]) (ECall (EVariable I_token None) [e]).

(* A token list as the scanner produces it (sentence body followed by the EOF token) is a sentence
   with abstract syntax tree e. *)
Definition Sentence (ts : list token) (e : expr) : Prop :=
  exists body rest, ts = body ++ rest /\ at_end rest = true /\ DExpr body e.
