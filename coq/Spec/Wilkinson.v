(* Wilkinson-Rogers / lme4 formula semantics as finite sets, and the documented fragment.

   A factor set (an interaction a:b:c) is a list of components read as a set; the common part of a
   model is a set of items (the intercept or a factor set); the group-specific part is a set of
   pairs (effect, grouping factor set).  Lists stand for sets: order and repetitions mean nothing,
   and all comparisons are made with the set equalities [same] below.

     +  union        -  difference       a:b  pairwise unions       a*b = a + b + a:b
     a/b = a + (all factors of a):b      (..)**n  unions of 1..n distinct terms
     (e | g)  one group-specific term per term of e (and the implicit intercept) and per term of g
     1, 0, -1 as additive items add / remove the intercept, left to right

   [sem e] follows the functions sem / sem_sum / spec_of of harness/props/C02.py; [documented e]
   is the syntactic fragment on which the implementation is proved to agree with it
   (Proofs/AlgebraRefines.v).  Atoms are named with the component constructors of the model. *)
From Verif Require Import Base Tokens Lazy Algebra.
Local Open Scope list_scope.

Definition fset := list comp.
Inductive sterm := Icpt | Fs (f : fset).
Definition gitem := (sterm * fset)%type.
Record spec := Spec { s_resp : option fset; s_common : list sterm; s_group : list gitem }.

(* ---- equality of sets represented by lists ---- *)
Definition sub {T} (eqb : T -> T -> bool) (a b : list T) : bool :=
  forallb (fun x => existsb (eqb x) b) a.
Definition same {T} (eqb : T -> T -> bool) (a b : list T) : bool := sub eqb a b && sub eqb b a.
Definition fset_eqb : fset -> fset -> bool := same comp_eqb.
Definition sterm_eqb (a b : sterm) : bool :=
  match a, b with Icpt, Icpt => true | Fs x, Fs y => fset_eqb x y | _, _ => false end.
Definition gitem_eqb (a b : gitem) : bool := sterm_eqb (fst a) (fst b) && fset_eqb (snd a) (snd b).
Definition spec_equiv (a b : spec) : Prop :=
  s_resp a = s_resp b /\ same sterm_eqb (s_common a) (s_common b) = true
  /\ same gitem_eqb (s_group a) (s_group b) = true.

(* ---- set operations ---- *)
Definition diff {T} (eqb : T -> T -> bool) (a b : list T) : list T :=
  filter (fun x => negb (existsb (eqb x) b)) a.
Definition nub {T} (eqb : T -> T -> bool) (l : list T) : list T :=
  fold_right (fun x r => if existsb (eqb x) r then r else x :: r) [] l.
(* a:b  -- every union of a term of L with a term of R *)
Definition cross (L R : list fset) : list fset := map (fun p => fst p ++ snd p) (list_prod L R).
(* (L)**n -- every union of 1..n distinct terms of L ([combinations l k]: the k-element sub-lists) *)
Definition power (L : list fset) (n : nat) : list fset :=
  flat_map (fun k => map (@List.concat comp) (combinations (nub fset_eqb L) k)) (seq 1 n).

(* ---- syntax helpers ---- *)
Fixpoint strip (e : expr) : expr := match e with EGrouping e' => strip e' | _ => e end.

(* the factor named by an atomic expression *)
Definition atom (e : expr) : option comp :=
  match e with
  | EVariable n None => Some (CVar (NStr (lexeme n)) None)
  | EQuotedName t => Some (CVar (NStr (strip_ends (lexeme t))) None)
  | ELiteral (LStr s) _ => Some (CVar (NStr s) None)
  | ECall _ _ => match call_resolve e with Ok l => Some (CCall l) | Err _ => None end
  | _ => None
  end.

(* intercept literals:  1  (Some true),   0  and  -1  (Some false) *)
Fixpoint icpt (e : expr) : option bool :=
  match e with
  | EGrouping e' => icpt e'
  | ELiteral (LInt 1) None => Some true
  | ELiteral (LInt 0) None => Some false
  | EUnary op e' =>
      match tkind op, icpt e' with
      | PLUS, r => r
      | MINUS, Some true => Some false
      | _, _ => None
      end
  | _ => None
  end.

Fixpoint exponent (e : expr) : option Z :=
  match e with
  | EGrouping e' => exponent e'
  | EUnary op e' => match tkind op with PLUS => exponent e' | _ => None end
  | ELiteral (LInt z) None => Some z
  | _ => None
  end.

Definition lift2 {A B C} (f : A -> B -> C) (a : option A) (b : option B) : option C :=
  match a, b with Some x, Some y => Some (f x y) | _, _ => None end.

(* ---- 1. expressions without intercept literals and without "|" : a set of factor sets ---- *)
Fixpoint factors (e : expr) : option (list fset) :=
  match e with
  | EGrouping e' => factors e'
  | EUnary op e' => match tkind op with PLUS => factors e' | _ => None end
  | EBinary l op r =>
      match tkind op with
      | PLUS => lift2 (@app fset) (factors l) (factors r)
      | MINUS => lift2 (diff fset_eqb) (factors l) (factors r)
      | COLON => lift2 cross (factors l) (factors r)
      | STAR => lift2 (fun L R => L ++ R ++ cross L R) (factors l) (factors r)
      | SLASH => lift2 (fun L R => L ++ map (app (List.concat L)) R) (factors l) (factors r)
      | STAR_STAR =>
          match factors l, exponent r with
          | Some L, Some n => if (1 <=? n)%Z then Some (power L (Z.to_nat n)) else None
          | _, _ => None
          end
      | _ => None
      end
  | _ => option_map (fun c => [[c]]) (atom e)
  end.

(* ---- 2. sums read left to right, with the intercept bookkeeping ---- *)
Definition cg := (list sterm * list gitem)%type.

Definition cg_union (a b : cg) : cg := (fst a ++ fst b, snd a ++ snd b).
Definition cg_diff (a b : cg) : cg := (diff sterm_eqb (fst a) (fst b), diff gitem_eqb (snd a) (snd b)).

(* one additive item [+ e] / [- e] applied to the running value *)
Definition item (operand : expr -> option cg) (plus : bool) (acc : option cg) (e : expr) : option cg :=
  match acc with
  | None => None
  | Some a =>
      match icpt e, plus with
      | Some true, true => Some (Icpt :: fst a, snd a)
      | Some true, false | Some false, true => Some (diff sterm_eqb (fst a) [Icpt], snd a)
      | Some false, false => None
      | None, _ => option_map (if plus then cg_union a else cg_diff a) (operand e)
      end
  end.

Fixpoint run (operand first : expr -> option cg) (e : expr) : option cg :=
  match e with
  | EBinary l op r =>
      match tkind op with
      | PLUS => item operand true (run operand first l) r
      | MINUS => item operand false (run operand first l) r
      | _ => first e
      end
  | _ => first e
  end.

Definition plain (e : expr) : option cg := option_map (fun L => (map Fs L, [])) (factors e).

(* effect side of "|": the intercept is implicit *)
Definition effects (e : expr) : option (list sterm) :=
  option_map fst (run plain (item plain true (Some ([Icpt], []))) (strip e)).

(* ---- 3. sums that may contain group-specific terms (e | g) ---- *)
Fixpoint terms (e : expr) : option cg :=
  match e with
  | EGrouping e' => terms e'
  | EUnary op e' => match tkind op with PLUS => terms e' | _ => None end
  | EBinary l op r =>
      match tkind op with
      | PLUS => lift2 cg_union (terms l) (terms r)
      | MINUS => lift2 cg_diff (terms l) (terms r)
      | PIPE =>
          match effects l, factors r with
          | Some (t :: E), Some G => Some ([], list_prod (t :: E) G)
          | _, _ => None
          end
      | _ => plain e
      end
  | _ => plain e
  end.

(* ---- 4. a formula: [response ~] 1 + item +/- item ...  (the scanner writes the leading "1 +") ---- *)
Definition leading_one (e : expr) : option cg :=
  match e with ELiteral (LInt 1) None => Some ([Icpt], []) | _ => None end.

Definition sem (e : expr) : option spec :=
  match e with
  | EBinary l op r =>
      match tkind op with
      | TILDE =>
          match atom (strip l), run terms leading_one r with
          | Some y, Some (c, g) => Some (Spec (Some [y]) c g)
          | _, _ => None
          end
      | _ => option_map (fun x => Spec None (fst x) (snd x)) (run terms leading_one e)
      end
  | _ => option_map (fun x => Spec None (fst x) (snd x)) (run terms leading_one e)
  end.

(* ======== the documented fragment, syntactically ========
   [sem] is defined on more expressions than the implementation handles.  Excluded here (findings):
   intercept literals anywhere but as items of the right-hand side or as the leading item of an
   effect side; "-" applied to a running value that is still a bare literal; "- 0", "- -1";
   exponent 1; unary minus on anything but the literal 1; group-specific terms anywhere but as
   items of the right-hand side. *)
Definition is_some {T} (o : option T) : bool := match o with Some _ => true | None => false end.

(* operands of : * / **, the grouping side of |, parenthesised sums: atoms and + - : * / ** only *)
Fixpoint doc_plain (e : expr) : bool :=
  match e with
  | EGrouping e' => doc_plain e'
  | EUnary op e' => match tkind op with PLUS => doc_plain e' | _ => false end
  | EBinary l op r =>
      match tkind op with
      | PLUS | MINUS | COLON | SLASH | STAR => doc_plain l && doc_plain r
      | STAR_STAR => doc_plain l && match exponent r with Some n => (2 <=? n)%Z | None => false end
      | _ => false
      end
  | _ => is_some (atom e)
  end.

(* effect side of |: an optional leading intercept literal, then +/- plain operands; no "-"
   directly after the leading literal *)
Fixpoint doc_effect (e : expr) : bool :=
  match e with
  | EBinary l op r =>
      match tkind op with
      | PLUS => doc_effect l && doc_plain r
      | MINUS => doc_effect l && doc_plain r && negb (is_some (icpt l))
      | _ => doc_plain e
      end
  | _ => is_some (icpt e) || doc_plain e
  end.

(* (effects | grouping), with at least one effect left *)
Definition doc_group (e : expr) : bool :=
  match strip e with
  | EBinary l op r =>
      match tkind op with
      | PIPE => doc_effect (strip l) && doc_plain r &&
                match effects l with Some (_ :: _) => true | _ => false end
      | _ => false
      end
  | _ => false
  end.

(* the running value of the right-hand side is still the bare literal 1 *)
Fixpoint bare (e : expr) : bool :=
  match e with
  | ELiteral (LInt 1) None => true
  | EBinary l op r =>
      match tkind op, icpt r with PLUS, Some true => bare l | _, _ => false end
  | _ => false
  end.

(* right-hand side:  1 (+|-) item ... ; items are intercept literals (not "- 0", "- -1"), plain
   operands and group-specific terms; nothing but 1 is subtracted from a bare literal *)
Fixpoint doc_rhs (e : expr) : bool :=
  match e with
  | ELiteral (LInt 1) None => true
  | EBinary l op r =>
      match tkind op with
      | PLUS => doc_rhs l && (is_some (icpt r) || doc_plain r || doc_group r)
      | MINUS => doc_rhs l &&
                 match icpt r with
                 | Some b => b
                 | None => negb (bare l) && (doc_plain r || doc_group r)
                 end
      | _ => false
      end
  | _ => false
  end.

Definition documented (e : expr) : bool :=
  match e with
  | EBinary l op r =>
      match tkind op with
      | TILDE => is_some (atom (strip l)) && doc_rhs r
      | _ => doc_rhs e
      end
  | _ => doc_rhs e
  end.
