(* Specification for C12: Python operator trees, the tokens of Python's minimal-parenthesis
   printing of such a tree (the way ast.unparse writes it), the tree a call argument is meant to
   denote ([embed]), and the trees on which Python's grammar and formulae's grammar disagree
   ([no_hazard] excludes them).  Written without reference to the parser. *)
From Verif Require Import Base Tokens Lazy.

(* Operators carry the formulae token that spells them; names are IDENTIFIER tokens. *)
Inductive py :=
| PyName (t : token)
| PyNum (t : token)                      (* a NUMBER token *)
| PyStr (t : token)                      (* a STRING token *)
| PyConst (t : token)                    (* True / False / None *)
| PyBin (op : token) (l r : py)          (* + - * / ** *)
| PyUn (op : token) (e : py)             (* unary + - *)
| PyCmp (op : token) (l r : py)          (* one comparison; a Python chain a < b < c is a different
                                            node (Compare with two operators) and is not an
                                            operator tree *)
| PyCall (f : token) (args : list py) (kwargs : list (token * py)).

(* ---- Python's precedence classes (ast._Precedence): CMP < ARITH < TERM < FACTOR < POWER < ATOM *)
Definition arith_prec (k : kind) : nat :=
  match k with PLUS | MINUS => 2 | STAR | SLASH => 3 | STAR_STAR => 5 | _ => 0 end.

Definition prec (e : py) : nat :=
  match e with
  | PyCmp _ _ _ => 1
  | PyBin op _ _ => arith_prec (tkind op)
  | PyUn _ _ => 4
  | _ => 6
  end.

Local Open Scope string_scope.
Definition lp_tok : token := mk LEFT_PAREN "(".
Definition rp_tok : token := mk RIGHT_PAREN ")".
Definition comma_tok : token := mk COMMA ",".
Definition equal_tok : token := mk EQUAL "=".
Local Close Scope string_scope.

Definition paren (b : bool) (ts : list token) : list token :=
  if b then lp_tok :: ts ++ [rp_tok] else ts.

(* comma-separated concatenation *)
Fixpoint sepcat (l : list (list token)) : list token :=
  match l with
  | [] => []
  | [x] => x
  | x :: r => x ++ comma_tok :: sepcat r
  end.

(** ast.unparse at token level.  An operand is parenthesised exactly when its class is below the
    class its position requires:
      l op r, op left-associative of class p:   l at p, r at p+1
      l ** r (right-associative, class POWER):  l at POWER+1 = ATOM, r at POWER
      sign e:                                   e at FACTOR
      l cmp r:                                  both at CMP+1
      call arguments and keyword values:        never parenthesised *)
Fixpoint pytokens (e : py) : list token :=
  match e with
  | PyName t | PyNum t | PyStr t | PyConst t => [t]
  | PyBin op l r =>
      if kind_eqb (tkind op) STAR_STAR
      then paren (prec l <? 6) (pytokens l) ++ op :: paren (prec r <? 5) (pytokens r)
      else paren (prec l <? arith_prec (tkind op)) (pytokens l)
           ++ op :: paren (prec r <? S (arith_prec (tkind op))) (pytokens r)
  | PyUn op x => op :: paren (prec x <? 4) (pytokens x)
  | PyCmp op l r => paren (prec l <? 2) (pytokens l) ++ op :: paren (prec r <? 2) (pytokens r)
  | PyCall f args kwargs =>
      f :: lp_tok ::
      sepcat (map pytokens args ++
              map (fun kv => match kv with (k, v) => k :: equal_tok :: pytokens v end) kwargs)
      ++ [rp_tok]
  end.

(** Where the two grammars disagree.  formulae puts the unary sign ABOVE ** and makes **
    left-associative, and the value of a keyword argument is parsed at the level of + and -:
      h1  a sign applied to a ** expression        (Python prints  -x ** 2  for -(x ** 2))
      h2  a ** whose right operand is a **         (Python prints  a ** b ** c  for a ** (b ** c))
      h4  a keyword value that is a comparison     (Python prints  k=a < b)
    (h3, chained comparisons, are not representable in [py]; a comparison that is an operand of a
    comparison is parenthesised by the printer, which formulae reads back correctly.) *)
Definition is_pow (e : py) : bool :=
  match e with PyBin op _ _ => kind_eqb (tkind op) STAR_STAR | _ => false end.

Fixpoint no_hazard (e : py) : bool :=
  match e with
  | PyBin op l r => no_hazard l && no_hazard r && negb (kind_eqb (tkind op) STAR_STAR && is_pow r)
  | PyUn _ x => no_hazard x && negb (is_pow x)
  | PyCmp _ l r => no_hazard l && no_hazard r
  | PyCall _ args kwargs =>
      forallb no_hazard args &&
      forallb (fun kv => match kv with (_, v) => no_hazard v && (2 <=? prec v) end) kwargs
  | _ => true
  end.

(* ---- well-formed trees: the tokens have the kinds (and literals) of their position ---- *)
Definition is_arith (k : kind) : bool :=
  match k with PLUS | MINUS | STAR | SLASH | STAR_STAR => true | _ => false end.
Definition is_sign (k : kind) : bool := match k with PLUS | MINUS => true | _ => false end.
Definition is_cmp (k : kind) : bool :=
  match k with
  | EQUAL_EQUAL | BANG_EQUAL | LESS | LESS_EQUAL | GREATER | GREATER_EQUAL => true
  | _ => false
  end.
Definition has_lit (t : token) : bool := match literal t with Some _ => true | None => false end.

Fixpoint nodup_str (l : list string) : bool :=
  match l with
  | [] => true
  | x :: r => negb (existsb (String.eqb x) r) && nodup_str r
  end.

Fixpoint wf (e : py) : bool :=
  match e with
  | PyName t => kind_eqb (tkind t) IDENTIFIER
  | PyNum t => kind_eqb (tkind t) NUMBER && has_lit t
  | PyStr t => kind_eqb (tkind t) STRING && has_lit t
  | PyConst t => kind_eqb (tkind t) PYTHON_LITERAL && has_lit t
  | PyBin op l r => is_arith (tkind op) && wf l && wf r
  | PyUn op x => is_sign (tkind op) && wf x
  | PyCmp op l r => is_cmp (tkind op) && wf l && wf r
  | PyCall f args kwargs =>
      kind_eqb (tkind f) IDENTIFIER && forallb wf args &&
      forallb (fun kv => match kv with (k, v) => kind_eqb (tkind k) IDENTIFIER && wf v end) kwargs &&
      (* Python rejects a repeated keyword *)
      nodup_str (map (fun kv => lexeme (fst kv)) kwargs)
  end.

(* ---- the lazy tree the argument denotes ---- *)
Local Open Scope string_scope.
Definition op_symbol (k : kind) : string :=
  match k with
  | PLUS => "+" | MINUS => "-" | STAR => "*" | SLASH => "/" | STAR_STAR => "**"
  | EQUAL_EQUAL => "==" | BANG_EQUAL => "!=" | LESS => "<" | LESS_EQUAL => "<="
  | GREATER => ">" | GREATER_EQUAL => ">="
  | _ => ""
  end.
Local Close Scope string_scope.

Definition tok_lit (t : token) : lit := match literal t with Some v => v | None => LNone end.

Fixpoint embed (e : py) : lazy :=
  match e with
  | PyName t => LzVar (lexeme t)
  | PyNum t | PyConst t => LzVal (tok_lit t) None
  | PyStr t => LzVal (tok_lit t) (Some (lexeme t))
  | PyBin op l r | PyCmp op l r => LzOp (op_symbol (tkind op)) [embed l; embed r]
  | PyUn op x => LzOp (op_symbol (tkind op)) [embed x]
  | PyCall f args kwargs =>
      LzCall (lexeme f) (map embed args)
             (map (fun kv => match kv with (k, v) => (lexeme k, embed v) end) kwargs)
  end.
