(* Data frames, Python values that lazy evaluation produces, exact rationals and sorting helpers.
   Definitions only. *)
From Coq Require Export QArith Qcanon.
From Verif Require Import Base Coding.
Local Close Scope Qc_scope.
Local Close Scope Q_scope.
Local Open Scope string_scope.

(* ---- rationals ---- *)
Definition qz (z : Z) : Qc := Q2Qc (inject_Z z).
Definition q0 : Qc := qz 0.
Definition q1 : Qc := qz 1.

Definition qshow (q : Qc) : string :=
  let n := Qnum (this q) in
  let d := Zpos (Qden (this q)) in
  if (d =? 1)%Z then zshow n else zshow n ++ "/" ++ zshow d.

Fixpoint split_at_slash (s acc : string) : string * option string :=
  match s with
  | EmptyString => (acc, None)
  | String "/"%char r => (acc, Some r)
  | String c r => split_at_slash r (acc ++ String c EmptyString)
  end.

Definition qread (s : string) : option Qc :=
  match split_at_slash s EmptyString with
  | (n, None) => match zread n with Some z => Some (qz z) | None => None end
  | (n, Some d) =>
      match zread n, zread d with
      | Some zn, Some (Zpos p) => Some (Q2Qc (Qmake zn p))
      | _, _ => None
      end
  end.

(* a cell: None is NaN *)
Definition cell := option Qc.
Definition cshow (c : cell) : string := match c with Some q => qshow q | None => "nan" end.
Definition cmul (a b : cell) : cell :=
  match a, b with Some x, Some y => Some (x * y)%Qc | _, _ => None end.
Definition cadd (a b : cell) : cell :=
  match a, b with Some x, Some y => Some (x + y)%Qc | _, _ => None end.
Definition csub (a b : cell) : cell :=
  match a, b with Some x, Some y => Some (x - y)%Qc | _, _ => None end.

(* ---- sorting (insertion sort; inputs are small) ---- *)
Section Sort.
  Variable T : Type.
  Variable leb : T -> T -> bool.
  Fixpoint insert_sorted (x : T) (l : list T) : list T :=
    match l with
    | [] => [x]
    | y :: r => if leb x y then x :: l else y :: insert_sorted x r
    end.
  Definition isort (l : list T) : list T := fold_right insert_sorted [] l.
End Sort.
Arguments isort {T}.

Definition str_leb (a b : string) : bool :=
  match String.compare a b with Gt => false | _ => true end.
Definition qc_leb (a b : Qc) : bool :=
  match (a ?= b)%Qc with Gt => false | _ => true end.

Fixpoint nodup_by {T} (eqb : T -> T -> bool) (l : list T) : list T :=
  match l with
  | [] => []
  | x :: r => if existsb (eqb x) r then nodup_by eqb r else x :: nodup_by eqb r
  end.

Definition sorted_unique_str (l : list string) : list string := isort str_leb (nodup_by String.eqb l).
Definition sorted_unique_qc (l : list Qc) : list Qc := isort qc_leb (nodup_by Qc_eq_bool l).

(* ---- frames ---- *)
Inductive column :=
| ColNum (isint : bool) (vals : list cell)
| ColStr (ordered : option (list string)) (vals : list (option string)).
   (* str / Categorical column; ordered = Some cats for an ordered Categorical *)

Definition frame := list (string * column).

Fixpoint assoc {V} (k : string) (l : list (string * V)) : option V :=
  match l with
  | [] => None
  | (k', v) :: r => if String.eqb k k' then Some v else assoc k r
  end.

Definition col_len (c : column) : nat :=
  match c with ColNum _ v => List.length v | ColStr _ v => List.length v end.
Definition frame_rows (f : frame) : nat :=
  match f with [] => O | (_, c) :: _ => col_len c end.

Fixpoint select {T} (keep : list bool) (l : list T) : list T :=
  match keep, l with
  | k :: ks, x :: xs => if k then x :: select ks xs else select ks xs
  | _, _ => []
  end.
Definition col_select (keep : list bool) (c : column) : column :=
  match c with ColNum i v => ColNum i (select keep v) | ColStr o v => ColStr o (select keep v) end.
Definition col_missing (c : column) : list bool :=
  match c with
  | ColNum _ v => map (fun x => match x with None => true | _ => false end) v
  | ColStr _ v => map (fun x => match x with None => true | _ => false end) v
  end.

(* ---- values of lazy evaluation ---- *)
Inductive pyval :=
| PSeries (isint : bool) (xs : list cell)
| PMatrix (rows : list (list cell))                     (* 2-D numeric result (bs, poly) *)
| PStrs (ordered : option (list string)) (xs : list (option string))
| PNumber (isint : bool) (q : Qc)
| PStr (s : string)
| PBoolean (b : bool)
| PNoneV
| PStrList (l : list string)
| PEncClass (sum : bool)                                (* the class Treatment / Sum *)
| PEnc (e : encoding)                                   (* an instance *)
| PBox (data_num : bool) (data : list (option string)) (contrast : option encoding)
       (levels : option (list string))                  (* CategoricalBox; numeric data as decimals *)
| POffset (constant : option Qc) (xs : list cell)
| PProp (successes trials : list cell) (constant_trials : option Qc).

(* decimal strings of integer-valued cells, used for the levels of numeric categorical data *)
Definition int_label (q : Qc) : string := zshow (Qnum (this q)).
Definition is_integer (q : Qc) : bool := (Zpos (Qden (this q)) =? 1)%Z.

(* numeric labels sort numerically *)
Definition sort_levels (numeric : bool) (l : list string) : list string :=
  if numeric then
    map zshow (isort Z.leb (nodup_by Z.eqb (flat_map (fun s => match zread s with Some z => [z] | None => [] end) l)))
  else sorted_unique_str l.
