(* Model of formulae/parser.py: fuelled recursive descent.  Definitions only. *)
From Verif Require Import Base Tokens.

Definition P := list token -> res (expr * list token).

(* T1: the descent chain of parser.py, lowest precedence first; tied in Generated/Tie.v *)
Definition chain : list (list kind) :=
  [ [PIPE];
    [EQUAL_EQUAL; BANG_EQUAL; LESS_EQUAL; LESS; GREATER_EQUAL; GREATER];
    [MINUS; PLUS];
    [STAR; SLASH];
    [COLON];
    [STAR_STAR] ].
(* the sub-chain used for the right operand of ~ and = (Parser.tilde / Parser.assignment call
   self.addition()) starts at this index of [chain] *)
Definition addition_index : nat := 2.
Definition unary_kinds : list kind := [PLUS; MINUS].
Definition parse_checks_eof : bool := true.

Definition at_end (ts : list token) : bool :=
  match ts with [] => true | t :: _ => kind_eqb (tkind t) EOF end.

(* Parser.match: consumes the next token when its kind is in ks (never EOF) *)
Definition match_tok (ks : list kind) (ts : list token) : option (token * list token) :=
  match ts with
  | t :: r => if negb (kind_eqb (tkind t) EOF) && is_kind ks t then Some (t, r) else None
  | [] => None
  end.

(* ---- left-associative binary levels ---- *)
Fixpoint binloop (next : P) (ks : list kind) (m : nat) (e : expr) (ts : list token)
  : res (expr * list token) :=
  match m with
  | O => Err OutOfFuel
  | S m' =>
      match match_tok ks ts with
      | Some (op, ts') => do (r, ts'') <- next ts'; binloop next ks m' (EBinary e op r) ts''
      | None => Ok (e, ts)
      end
  end.

Definition binlevel (next : P) (ks : list kind) : P :=
  fun ts => do (e, ts') <- next ts; binloop next ks (S (List.length ts')) e ts'.

Fixpoint levels (base : P) (c : list (list kind)) : P :=
  match c with
  | [] => base
  | ks :: c' => binlevel (levels base c') ks
  end.

(* ---- primary / call / unary, parameterised by the parser for nested expressions ---- *)
Definition I_token : token := mk IDENTIFIER "I".

Definition consume (k : kind) (ts : list token) : res (list token) :=
  match match_tok [k] ts with Some (_, r) => Ok r | None => Err EParse end.

Definition primary_nobracket (expression : P) : P :=
  fun ts =>
    match ts with
    | [] => Err EIndex
    | t :: r =>
        match tkind t with
        | IDENTIFIER => Ok (EVariable t None, r)
        | NUMBER | PYTHON_LITERAL =>
            match literal t with Some v => Ok (ELiteral v None, r) | None => Err EParse end
        | STRING =>
            match literal t with Some v => Ok (ELiteral v (Some (lexeme t)), r) | None => Err EParse end
        | BQNAME => Ok (EQuotedName t, r)
        | LEFT_PAREN =>
            do (e, r') <- expression r; do r'' <- consume RIGHT_PAREN r'; Ok (EGrouping e, r'')
        | LEFT_BRACE =>
            do (e, r') <- expression r; do r'' <- consume RIGHT_BRACE r';
            Ok (ECall (EVariable I_token None) [e], r'')
        | _ => Err EParse
        end
    end.

(* the level expression inside name[level] is parsed by a recursive call of Parser.primary *)
Definition level_check (lv : expr) : res expr :=
  match lv with
  | ELiteral (LStr _) _ => Ok lv
  | ELiteral _ _ => Err EParse
  | EVariable n None => Ok (ELiteral (LStr (lexeme n)) None)
  | EVariable _ (Some _) => Err EParse
  | _ => Ok lv
  end.

Fixpoint primary (expression : P) (m : nat) : P :=
  fun ts =>
    match ts with
    | t :: (b :: r) as r0 =>
        if kind_eqb (tkind t) IDENTIFIER && kind_eqb (tkind b) LEFT_BRACKET then
          match m with
          | O => Err OutOfFuel
          | S m' =>
              do (lv, r') <- primary expression m' r;
              do lv' <- level_check lv;
              do r'' <- consume RIGHT_BRACKET r';
              Ok (EVariable t (Some lv'), r'')
          end
        else primary_nobracket expression ts
    | _ => primary_nobracket expression ts
    end.

(* Parser.finishcall: the argument list after "(" *)
Fixpoint args_loop (expression : P) (m : nat) (acc : list expr) (ts : list token)
  : res (list expr * list token) :=
  match m with
  | O => Err OutOfFuel
  | S m' =>
      do (a, r) <- expression ts;
      match match_tok [COMMA] r with
      | Some (_, r') => args_loop expression m' (acc ++ [a]) r'
      | None => Ok (acc ++ [a], r)
      end
  end.

Definition finishcall (expression : P) (callee : expr) (ts : list token) : res (expr * list token) :=
  match match_tok [RIGHT_PAREN] ts with
  | Some _ => do r <- consume RIGHT_PAREN ts; Ok (ECall callee [], r)
  | None =>
      do (args, r) <- args_loop expression (S (List.length ts)) [] ts;
      do r' <- consume RIGHT_PAREN r;
      Ok (ECall callee args, r')
  end.

Fixpoint call_loop (expression : P) (m : nat) (e : expr) (ts : list token) : res (expr * list token) :=
  match m with
  | O => Err OutOfFuel
  | S m' =>
      match match_tok [LEFT_PAREN] ts with
      | Some (_, r) => do (e', r') <- finishcall expression e r; call_loop expression m' e' r'
      | None => Ok (e, ts)
      end
  end.

Definition call (expression : P) : P :=
  fun ts => do (e, r) <- primary expression (S (List.length ts)) ts;
            call_loop expression (S (List.length r)) e r.

Fixpoint unary (expression : P) (ts : list token) : res (expr * list token) :=
  match ts with
  | t :: r =>
      if negb (kind_eqb (tkind t) EOF) && is_kind unary_kinds t
      then do (e, r') <- unary expression r; Ok (EUnary t e, r')
      else call expression ts
  | [] => call expression ts
  end.

Definition addition (expression : P) : P := levels (unary expression) (skipn addition_index chain).
Definition random_effect (expression : P) : P := levels (unary expression) chain.

Definition tilde (expression : P) : P :=
  fun ts =>
    do (e, r) <- random_effect expression ts;
    match match_tok [TILDE] r with
    | Some (op, r') => do (rhs, r'') <- addition expression r'; Ok (EBinary e op rhs, r'')
    | None => Ok (e, r)
    end.

Definition assignment (expression : P) : P :=
  fun ts =>
    do (e, r) <- tilde expression ts;
    match match_tok [EQUAL] r with
    | Some (_, r') =>
        do (rhs, r'') <- addition expression r';
        match e with
        | EVariable _ _ => Ok (EAssign e rhs, r'')
        | _ => Err EParse
        end
    | None => Ok (e, r)
    end.

Fixpoint expression (fuel : nat) : P :=
  match fuel with
  | O => fun _ => Err OutOfFuel
  | S f => assignment (expression f)
  end.

Definition parse_with (check_eof : bool) (ts : list token) : res expr :=
  match ts with
  | [] => Err EIndex
  | _ =>
      do (e, r) <- expression (S (List.length ts)) ts;
      if check_eof then (if at_end r then Ok e else Err EParse) else Ok e
  end.

Definition parse : list token -> res expr := parse_with parse_checks_eof.
