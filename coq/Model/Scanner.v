(* Model of formulae/scanner.py (ASCII input).  Definitions only. *)
From Verif Require Import Base Tokens.
Open Scope char_scope.

Definition chars := list ascii.
Definition str (cs : chars) : string := string_of_list_ascii cs.

Definition is_digit (c : ascii) : bool := let n := nat_of_ascii c in (48 <=? n)%nat && (n <=? 57)%nat.
Definition is_alpha (c : ascii) : bool :=
  let n := nat_of_ascii c in
  ((65 <=? n)%nat && (n <=? 90)%nat) || ((97 <=? n)%nat && (n <=? 122)%nat).
Definition is_alnum (c : ascii) : bool := is_alpha c || is_digit c.

Definition ch_nl := ascii_of_nat 10.
Definition ch_tab := ascii_of_nat 9.
Definition ch_cr := ascii_of_nat 13.

(* T2: tables regenerated from scanner.py and tied in Generated/Tie.v *)
Definition whitespace : list ascii := [" "; ch_nl; ch_tab; ch_cr].
Definition quotes : list ascii := ["'"; """"].
Definition single_chars : list (ascii * kind) :=
  [("(", LEFT_PAREN); (")", RIGHT_PAREN); ("[", LEFT_BRACKET); ("]", RIGHT_BRACKET);
   ("{", LEFT_BRACE); ("}", RIGHT_BRACE); (",", COMMA); ("+", PLUS); ("-", MINUS);
   ("%", MODULO); ("~", TILDE); (":", COLON); ("|", PIPE)].
(* first char, second char, kind when the second char follows, kind otherwise *)
Definition double_chars : list (ascii * ascii * kind * kind) :=
  [("/", "/", SLASH_SLASH, SLASH); ("*", "*", STAR_STAR, STAR); ("!", "=", BANG_EQUAL, BANG);
   ("=", "=", EQUAL_EQUAL, EQUAL); ("<", "=", LESS_EQUAL, LESS); (">", "=", GREATER_EQUAL, GREATER)].
Definition python_literals : list (string * lit) :=
  [("True"%string, LBool true); ("False"%string, LBool false); ("None"%string, LNone)].
Definition ident_extra : list ascii := ["."; "_"].

Definition mem_ascii (c : ascii) (l : list ascii) : bool := existsb (Ascii.eqb c) l.

Fixpoint span (p : ascii -> bool) (cs : chars) : chars * chars :=
  match cs with
  | c :: r => if p c then let (a, b) := span p r in (c :: a, b) else ([], cs)
  | [] => ([], [])
  end.

Fixpoint lookup_single (c : ascii) (t : list (ascii * kind)) : option kind :=
  match t with
  | (c', k) :: r => if Ascii.eqb c c' then Some k else lookup_single c r
  | [] => None
  end.

Fixpoint lookup_double (c : ascii) (t : list (ascii * ascii * kind * kind))
  : option (ascii * kind * kind) :=
  match t with
  | (c1, c2, k2, k1) :: r => if Ascii.eqb c c1 then Some (c2, k2, k1) else lookup_double c r
  | [] => None
  end.

Fixpoint lookup_pylit (s : string) (t : list (string * lit)) : option lit :=
  match t with
  | (n, v) :: r => if String.eqb s n then Some v else lookup_pylit s r
  | [] => None
  end.

Fixpoint digits_val (acc : Z) (cs : chars) : Z :=
  match cs with
  | c :: r => digits_val (10 * acc + Z.of_nat (nat_of_ascii c - 48)) r
  | [] => acc
  end.

(* One call of Scanner.scan_token on a non-empty remaining input c :: rest.
   Returns the token (None for whitespace) and the remaining input. *)
Definition scan_token (c : ascii) (rest : chars) : res (option token * chars) :=
  if mem_ascii c quotes then
    (* char(): runs to the next quote of either style *)
    let (body, r) := span (fun x => negb (mem_ascii x quotes)) rest in
    match r with
    | q :: r' => Ok (Some (Tok STRING (str (c :: body ++ [q])) (Some (LStr (str body)))), r')
    | [] => Err EScan
    end
  else if Ascii.eqb c "`" then
    let (body, r) := span (fun x => negb (Ascii.eqb x "`")) rest in
    match r with
    | q :: r' => Ok (Some (mk BQNAME (str (c :: body ++ [q]))), r')
    | [] => Err EIndex   (* the implementation runs off the end of the string *)
    end
  else if Ascii.eqb c "." then
    match rest with
    | d :: _ =>
        if is_digit d then
          let (ds, r) := span is_digit rest in
          Ok (Some (Tok NUMBER (str (c :: ds)) (Some (LFloat "" (str ds)))), r)
        else Ok (Some (mk PERIOD "."), rest)
    | [] => Ok (Some (mk PERIOD "."), rest)
    end
  else match lookup_single c single_chars with
  | Some k => Ok (Some (mk k (str [c])), rest)
  | None =>
  match lookup_double c double_chars with
  | Some (c2, k2, k1) =>
      match rest with
      | d :: r => if Ascii.eqb d c2 then Ok (Some (mk k2 (str [c; d])), r)
                  else Ok (Some (mk k1 (str [c])), rest)
      | [] => Ok (Some (mk k1 (str [c])), rest)
      end
  | None =>
  if mem_ascii c whitespace then Ok (None, rest)
  else if is_digit c then
    let (ds, r) := span is_digit rest in
    match r with
    | dot :: d :: _ =>
        if Ascii.eqb dot "." && is_digit d then
          let (fs, r') := span is_digit (tl r) in
          Ok (Some (Tok NUMBER (str (c :: ds ++ dot :: fs)) (Some (LFloat (str (c :: ds)) (str fs)))), r')
        else Ok (Some (Tok NUMBER (str (c :: ds)) (Some (LInt (digits_val 0 (c :: ds))))), r)
    | _ => Ok (Some (Tok NUMBER (str (c :: ds)) (Some (LInt (digits_val 0 (c :: ds))))), r)
    end
  else if is_alpha c then
    let (body, r) := span (fun x => is_alnum x || mem_ascii x ident_extra) rest in
    let name := str (c :: body) in
    match lookup_pylit name python_literals with
    | Some v => Ok (Some (Tok PYTHON_LITERAL name (Some v)), r)
    | None => Ok (Some (mk IDENTIFIER name), r)
    end
  else Err EScan
  end end.

(* the main loop; every call of scan_token consumes at least one character, so the length of the
   input is enough fuel *)
Fixpoint scan_loop (fuel : nat) (cs : chars) : res (list token) :=
  match cs with
  | [] => Ok []
  | c :: rest =>
      match fuel with
      | O => Err OutOfFuel
      | S f =>
          do (ot, r) <- scan_token c rest;
          do ts <- scan_loop f r;
          Ok (match ot with Some t => t :: ts | None => ts end)
      end
  end.

Definition eof_tok : token := mk EOF "".
Definition one_tok : token := Tok NUMBER "1" (Some (LInt 1)).
Definition plus_tok : token := mk PLUS "+".

Definition is_tilde (t : token) : bool := kind_eqb (tkind t) TILDE.

Fixpoint insert_after_tilde (ts : list token) : list token :=
  match ts with
  | t :: r => if is_tilde t then t :: one_tok :: plus_tok :: r else t :: insert_after_tilde r
  | [] => []
  end.

Definition scan_chars (add_intercept : bool) (cs : chars) : res (list token) :=
  match cs with
  | [] => Err EScan
  | _ =>
      do ts0 <- scan_loop (List.length cs) cs;
      let ts := ts0 ++ [eof_tok] in
      let n := List.length (filter is_tilde ts) in
      if (1 <? n)%nat then Err EScan
      else if add_intercept then
        if (n =? 0)%nat then Ok (one_tok :: plus_tok :: ts) else Ok (insert_after_tilde ts)
      else Ok ts
  end.

Definition scan (s : string) : res (list token) := scan_chars true (list_ascii_of_string s).
Definition scan_noint (s : string) : res (list token) := scan_chars false (list_ascii_of_string s).
