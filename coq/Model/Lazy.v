(* Model of formulae/terms/call_resolver.py: CallResolver and the str() of lazy objects,
   which is the name of a call term.  Definitions only. *)
From Verif Require Import Base Tokens.
Open Scope string_scope.

Inductive lazy :=
| LzOp (sym : string) (args : list lazy)       (* LazyOperator: one or two arguments *)
| LzVar (name : string)
| LzVal (v : lit) (lx : option string)
| LzCall (callee : string) (args : list lazy) (kwargs : list (string * lazy)).

(* T4: CallResolver.BINARY_OPERATORS / UNARY_OPERATORS composed with LazyOperator.SYMBOLS *)
Definition binary_symbols : list (kind * string) :=
  [(PLUS, "+"); (MINUS, "-"); (STAR_STAR, "**"); (STAR, "*"); (SLASH, "/"); (EQUAL_EQUAL, "==");
   (BANG_EQUAL, "!="); (LESS_EQUAL, "<="); (LESS, "<"); (GREATER_EQUAL, ">="); (GREATER, ">")].
Definition unary_symbols : list (kind * string) := [(PLUS, "+"); (MINUS, "-")].

Fixpoint lookup_kind {T} (k : kind) (t : list (kind * T)) : option T :=
  match t with
  | (k', v) :: r => if kind_eqb k k' then Some v else lookup_kind k r
  | [] => None
  end.

(* dict assignment kwargs[name] = v: overwrite in place, else append *)
Fixpoint kw_set (k : string) (v : lazy) (l : list (string * lazy)) : list (string * lazy) :=
  match l with
  | [] => [(k, v)]
  | (k', v') :: r => if String.eqb k k' then (k, v) :: r else (k', v') :: kw_set k v r
  end.

Definition strip_ends (s : string) : string :=
  let n := String.length s in String.substring 1 (n - 2) s.


Fixpoint call_resolve (e : expr) : res lazy :=
  match e with
  | EGrouping e' => call_resolve e'
  | EBinary l op r =>
      match lookup_kind (tkind op) binary_symbols with
      | None => Err EResolve
      | Some sym => do ll <- call_resolve l; do lr <- call_resolve r; Ok (LzOp sym [ll; lr])
      end
  | EUnary op r =>
      match lookup_kind (tkind op) unary_symbols with
      | None => Err EResolve
      | Some sym => do lr <- call_resolve r; Ok (LzOp sym [lr])
      end
  | ECall callee args =>
      do pk <-
        (fix go (args : list expr) (pos : list lazy) (kw : list (string * lazy)) {struct args}
           : res (list lazy * list (string * lazy)) :=
           match args with
           | [] => Ok (pos, kw)
           | a :: r =>
               match a with
               | EAssign (EVariable n _) v =>
                   do lv <- call_resolve v; go r pos (kw_set (lexeme n) lv kw)
               | EAssign _ _ => Err EAttr
               | _ => do la <- call_resolve a; go r (pos ++ [la])%list kw
               end
           end) args [] [];
      match callee with
      | EVariable n _ => Ok (LzCall (lexeme n) (fst pk) (snd pk))
      | _ => Err EAttr
      end
  | EVariable n _ => Ok (LzVar (lexeme n))
  | ELiteral v lx => Ok (LzVal v lx)
  | EQuotedName t => Ok (LzVar (strip_ends (lexeme t)))
  | EAssign _ _ => Err EAttr
  end.

(* ---- str() ---- *)
Fixpoint strip_leading_zeros (s : string) : string :=
  match s with
  | String "0"%char r => match r with EmptyString => s | _ => strip_leading_zeros r end
  | _ => s
  end.

Fixpoint rev_string (s acc : string) : string :=
  match s with EmptyString => acc | String c r => rev_string r (String c acc) end.
Fixpoint drop_zeros (s : string) : string :=
  match s with String "0"%char r => drop_zeros r | _ => s end.
Definition strip_trailing_zeros (s : string) : string :=
  rev_string (drop_zeros (rev_string s EmptyString)) EmptyString.

(* Python's repr of the float spelled ip.fp, valid for the short decimals the generators use
   (at most 15 significant digits, magnitude in [1e-4, 1e16) or zero). *)
Definition float_repr (ip fp : string) : string :=
  let i := strip_leading_zeros (match ip with EmptyString => "0" | _ => ip end) in
  let f := strip_trailing_zeros fp in
  i ++ "." ++ (match f with EmptyString => "0" | _ => f end).

Definition lit_str (v : lit) : string :=
  match v with
  | LInt z => zshow z
  | LFloat ip fp => float_repr ip fp
  | LStr s => s
  | LBool true => "True"
  | LBool false => "False"
  | LNone => "None"
  end.

Fixpoint lazy_str (l : lazy) : string :=
  match l with
  | LzOp sym [a] => sym ++ lazy_str a
  | LzOp sym [a; b] => lazy_str a ++ " " ++ sym ++ " " ++ lazy_str b
  | LzOp sym _ => sym
  | LzVar n => n
  | LzVal v (Some lx) => lx
  | LzVal v None => lit_str v
  | LzCall callee args kwargs =>
      callee ++ "(" ++
      concat_with ", " (List.app (map lazy_str args)
                        (map (fun kv => fst kv ++ "=" ++ lazy_str (snd kv)) kwargs)) ++ ")"
  end.

(* structural equality of lazy trees as Python's __eq__ sees them *)
Definition z_pow10 (n : nat) : Z := Z.pow 10 (Z.of_nat n).
Fixpoint digits_val_s (acc : Z) (s : string) : Z :=
  match s with
  | EmptyString => acc
  | String c r => digits_val_s (10 * acc + Z.of_nat (nat_of_ascii c - 48)) r
  end.
(* a float literal as mantissa / 10^exponent *)
Definition float_mant (ip fp : string) : Z := digits_val_s 0 (ip ++ fp).
Definition float_exp (fp : string) : nat := String.length fp.

Definition lit_eqb (a b : lit) : bool :=
  let num (x : lit) : option (Z * nat) :=
    match x with
    | LInt z => Some (z, O)
    | LFloat ip fp => Some (float_mant ip fp, float_exp fp)
    | LBool true => Some (1%Z, O)
    | LBool false => Some (0%Z, O)
    | _ => None
    end in
  match num a, num b with
  | Some (m1, e1), Some (m2, e2) => Z.eqb (m1 * z_pow10 e2) (m2 * z_pow10 e1)
  | None, None =>
      match a, b with
      | LStr s1, LStr s2 => String.eqb s1 s2
      | LNone, LNone => true
      | _, _ => false
      end
  | _, _ => false
  end.

Definition lit_is (n : Z) (a : lit) : bool := lit_eqb a (LInt n).

Fixpoint lazy_eqb (a b : lazy) : bool :=
  match a, b with
  | LzOp s1 l1, LzOp s2 l2 =>
      String.eqb s1 s2 &&
      (fix go (x y : list lazy) : bool :=
         match x, y with
         | [], [] => true
         | p :: x', q :: y' => lazy_eqb p q && go x' y'
         | _, _ => false
         end) l1 l2
  | LzVar n1, LzVar n2 => String.eqb n1 n2
  | LzVal v1 x1, LzVal v2 x2 => lit_eqb v1 v2 && option_eqb String.eqb x1 x2
  | LzCall c1 a1 k1, LzCall c2 a2 k2 =>
      String.eqb c1 c2 &&
      (fix go (x y : list lazy) : bool :=
         match x, y with
         | [], [] => true
         | p :: x', q :: y' => lazy_eqb p q && go x' y'
         | _, _ => false
         end) a1 a2 &&
      (* dict equality: same keys with equal values, any order *)
      Nat.eqb (List.length k1) (List.length k2) &&
      (fix gok (x : list (string * lazy)) : bool :=
         match x with
         | [] => true
         | (k, v) :: x' =>
             (fix find (y : list (string * lazy)) : bool :=
                match y with
                | [] => false
                | (k', v') :: y' => if String.eqb k k' then lazy_eqb v v' else find y'
                end) k2 && gok x'
         end) k1
  | _, _ => false
  end.

Fixpoint lazy_sexp (l : lazy) : sexp :=
  match l with
  | LzOp sym args => L (A "op" :: A sym :: map lazy_sexp args)
  | LzVar n => L [A "var"; A n]
  | LzVal v lx => L [A "val"; lit_sexp v; match lx with None => L [] | Some s => A s end]
  | LzCall c args kw =>
      L [A "call"; A c; L (map lazy_sexp args);
         L (map (fun kv => L [A (fst kv); lazy_sexp (snd kv)]) kw)]
  end.
