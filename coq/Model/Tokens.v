(* Tokens and the AST of formulae/token.py and formulae/expr.py.  Definitions only. *)
From Verif Require Import Base.

Inductive kind :=
| LEFT_PAREN | RIGHT_PAREN | LEFT_BRACKET | RIGHT_BRACKET | LEFT_BRACE | RIGHT_BRACE
| COMMA | PERIOD | PLUS | MINUS | SLASH | SLASH_SLASH | STAR | STAR_STAR
| BANG | BANG_EQUAL | EQUAL | EQUAL_EQUAL | LESS | LESS_EQUAL | GREATER | GREATER_EQUAL
| MODULO | TILDE | COLON | PIPE
| NUMBER | IDENTIFIER | PYTHON_LITERAL | STRING | BQNAME | EOF.

Definition kind_eq_dec (a b : kind) : {a = b} + {a <> b}.
Proof. decide equality. Defined.
Definition kind_eqb (a b : kind) : bool := if kind_eq_dec a b then true else false.

Local Open Scope string_scope.
Definition kind_name (k : kind) : string :=
  match k with
  | LEFT_PAREN => "LEFT_PAREN" | RIGHT_PAREN => "RIGHT_PAREN" | LEFT_BRACKET => "LEFT_BRACKET"
  | RIGHT_BRACKET => "RIGHT_BRACKET" | LEFT_BRACE => "LEFT_BRACE" | RIGHT_BRACE => "RIGHT_BRACE"
  | COMMA => "COMMA" | PERIOD => "PERIOD" | PLUS => "PLUS" | MINUS => "MINUS" | SLASH => "SLASH"
  | SLASH_SLASH => "SLASH_SLASH" | STAR => "STAR" | STAR_STAR => "STAR_STAR" | BANG => "BANG"
  | BANG_EQUAL => "BANG_EQUAL" | EQUAL => "EQUAL" | EQUAL_EQUAL => "EQUAL_EQUAL" | LESS => "LESS"
  | LESS_EQUAL => "LESS_EQUAL" | GREATER => "GREATER" | GREATER_EQUAL => "GREATER_EQUAL"
  | MODULO => "MODULO" | TILDE => "TILDE" | COLON => "COLON" | PIPE => "PIPE" | NUMBER => "NUMBER"
  | IDENTIFIER => "IDENTIFIER" | PYTHON_LITERAL => "PYTHON_LITERAL" | STRING => "STRING"
  | BQNAME => "BQNAME" | EOF => "EOF" end.

Definition all_kinds : list kind :=
  [LEFT_PAREN; RIGHT_PAREN; LEFT_BRACKET; RIGHT_BRACKET; LEFT_BRACE; RIGHT_BRACE; COMMA; PERIOD; PLUS;
   MINUS; SLASH; SLASH_SLASH; STAR; STAR_STAR; BANG; BANG_EQUAL; EQUAL; EQUAL_EQUAL; LESS; LESS_EQUAL;
   GREATER; GREATER_EQUAL; MODULO; TILDE; COLON; PIPE; NUMBER; IDENTIFIER; PYTHON_LITERAL; STRING;
   BQNAME; EOF].

Definition kind_of_name (s : string) : option kind :=
  find (fun k => String.eqb (kind_name k) s) all_kinds.

(* Literal values carried by NUMBER / STRING / PYTHON_LITERAL tokens.
   A float keeps the digit strings of its lexeme ("12.340" = LFloat "12" "340"; ".5" = LFloat "" "5"). *)
Inductive lit :=
| LInt (z : Z)
| LFloat (ip fp : string)
| LStr (s : string)
| LBool (b : bool)
| LNone.

Record token := Tok { tkind : kind; lexeme : string; literal : option lit }.

Definition mk (k : kind) (lx : string) : token := Tok k lx None.

Inductive expr :=
| EAssign (name : expr) (value : expr)
| EGrouping (e : expr)
| EBinary (l : expr) (op : token) (r : expr)
| EUnary (op : token) (r : expr)
| ECall (callee : expr) (args : list expr)
| EVariable (name : token) (level : option expr)
| EQuotedName (t : token)
| ELiteral (v : lit) (lx : option string).

Definition is_kind (ks : list kind) (t : token) : bool :=
  existsb (kind_eqb (tkind t)) ks.

(* ---- printing (the observation compared with the implementation) ---- *)
Definition lit_sexp (l : lit) : sexp :=
  match l with
  | LInt z => L [A "int"; AZ z]
  | LFloat ip fp => L [A "float"; A ip; A fp]
  | LStr s => L [A "str"; A s]
  | LBool true => L [A "bool"; A "True"]
  | LBool false => L [A "bool"; A "False"]
  | LNone => L [A "none"]
  end.

Definition optlit_sexp (o : option lit) : sexp :=
  match o with None => L [] | Some l => lit_sexp l end.

Definition tok_sexp (t : token) : sexp :=
  L [A (kind_name (tkind t)); A (lexeme t); optlit_sexp (literal t)].

Fixpoint expr_sexp (e : expr) : sexp :=
  match e with
  | EAssign n v => L [A "Assign"; expr_sexp n; expr_sexp v]
  | EGrouping e => L [A "Grouping"; expr_sexp e]
  | EBinary l op r => L [A "Binary"; expr_sexp l; A (kind_name (tkind op)); A (lexeme op); expr_sexp r]
  | EUnary op r => L [A "Unary"; A (kind_name (tkind op)); expr_sexp r]
  | ECall c args => L [A "Call"; expr_sexp c; L (map expr_sexp args)]
  | EVariable n lv => L [A "Variable"; A (lexeme n);
                         match lv with None => L [] | Some l => expr_sexp l end]
  | EQuotedName t => L [A "QuotedName"; A (lexeme t)]
  | ELiteral v lx => L [A "Literal"; lit_sexp v; match lx with None => L [] | Some s => A s end]
  end.
