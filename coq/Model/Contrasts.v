(* Model of formulae/contrasts.py (the patsy-derived redundancy analysis) and of the way
   formulae/terms/terms.py drives it (Model._get_encoding_groups, _get_encoding_bools).
   Definitions only. *)
From Verif Require Import Base.
Local Open Scope string_scope.

Definition factor := string.
(* ExpandedFactor: (factor, includes_intercept) *)
Definition efactor := (factor * bool)%type.
(* Subterm: a frozenset of expanded factors, kept as a duplicate-free list *)
Definition subterm := list efactor.

Definition ef_eqb (a b : efactor) : bool := String.eqb (fst a) (fst b) && Bool.eqb (snd a) (snd b).
Definition ef_mem (x : efactor) (s : subterm) : bool := existsb (ef_eqb x) s.
Definition st_subset (a b : subterm) : bool := forallb (fun x => ef_mem x b) a.
Definition st_eqb (a b : subterm) : bool := st_subset a b && st_subset b a.
Definition st_mem (s : subterm) (l : list subterm) : bool := existsb (st_eqb s) l.

(* itertools-style combinations in lexicographic index order *)
Fixpoint combs {T} (l : list T) (k : nat) : list (list T) :=
  match k with
  | O => [[]]
  | S k' =>
      match l with
      | [] => []
      | x :: r => (map (cons x) (combs r k') ++ combs r k)%list
      end
  end.

(* _sorted_subsets: all subsets, by size, then lexicographically by position *)
Definition sorted_subsets {T} (l : list T) : list (list T) :=
  flat_map (combs l) (seq 0 (S (List.length l))).

(* Subterm.can_absorb *)
Definition can_absorb (long short : subterm) : bool :=
  Nat.eqb (List.length long) (S (List.length short)) && st_subset short long.

(* Subterm.absorb; None = one of the two assertions fails *)
Definition absorb (long short : subterm) : option subterm :=
  match filter (fun x => negb (ef_mem x short)) long with
  | [(f, false)] => Some (short ++ [(f, true)])%list
  | _ => None
  end.

(* one call of ExpandedTerm._simplify_subterm: the first (short, long) pair in list order;
   result: None = nothing to absorb, Some (Ok l) = new list, Some (Err _) = assertion *)
Fixpoint find_long (short : subterm) (rest : list subterm) (k : nat) : option nat :=
  match rest with
  | [] => None
  | l :: r => if can_absorb l short then Some k else find_long short r (S k)
  end.

Fixpoint replace_nth {T} (k : nat) (x : T) (l : list T) : list T :=
  match l, k with
  | [], _ => []
  | _ :: r, O => x :: r
  | y :: r, S k' => y :: replace_nth k' x r
  end.

Fixpoint simplify_step (before : list subterm) (l : list subterm) : option (res (list subterm)) :=
  match l with
  | [] => None
  | short :: rest =>
      match find_long short rest 0 with
      | Some k =>
          match absorb (nth k rest []) short with
          | Some merged => Some (Ok (before ++ replace_nth k merged rest)%list)
          | None => Some (Err EAssert)
          end
      | None => simplify_step (before ++ [short])%list rest
      end
  end.

(* simplify_subterms: every step shortens the list by one, so its length is enough fuel *)
Fixpoint simplify (fuel : nat) (l : list subterm) : res (list subterm) :=
  match simplify_step [] l with
  | None => Ok l
  | Some (Err k) => Err k
  | Some (Ok l') =>
      match fuel with
      | O => Err OutOfFuel
      | S f => simplify f l'
      end
  end.

(* ExpandedTerm.pick_contrast: returns the codings and the updated used set *)
Definition pick_contrast (components : list factor) (used : list subterm)
  : res (list subterm * list subterm) :=
  let fresh := filter (fun s => negb (st_mem s used))
                      (map (map (fun f => (f, false))) (sorted_subsets components)) in
  do simp <- simplify (List.length fresh) fresh;
  Ok (simp, (used ++ fresh)%list).

(* dict assignment d[k] = v keeps the position of an existing key *)
Fixpoint dict_set {V} (k : string) (v : V) (d : list (string * V)) : list (string * V) :=
  match d with
  | [] => [(k, v)]
  | (k', v') :: r => if String.eqb k k' then (k, v) :: r else (k', v') :: dict_set k v r
  end.

Fixpoint dict_get {V} (k : string) (d : list (string * V)) : option V :=
  match d with
  | [] => None
  | (k', v) :: r => if String.eqb k k' then Some v else dict_get k r
  end.

(* pick_contrasts(group): group is a dict name -> components, iterated in insertion order *)
Fixpoint pick_contrasts_loop (group : list (string * list factor)) (used : list subterm)
         (acc : list (string * list subterm)) : res (list (string * list subterm)) :=
  match group with
  | [] => Ok acc
  | (name, comps) :: r =>
      do cu <- pick_contrast comps used;
      pick_contrasts_loop r (snd cu) (dict_set name (fst cu) acc)
  end.

Definition pick_contrasts (group : list (string * list factor)) : res (list (string * list subterm)) :=
  pick_contrasts_loop group [] [].

(* ---- Model._get_encoding_groups ---- *)
Inductive ckind := KNumeric | KCategoric | KOffset | KProportion.
Definition ckind_eqb (a b : ckind) : bool :=
  match a, b with
  | KNumeric, KNumeric | KCategoric, KCategoric | KOffset, KOffset | KProportion, KProportion => true
  | _, _ => false
  end.

(* what _get_encoding_groups sees of a common term *)
Inductive tinfo :=
| TIntercept
| TMain (name : string) (k : ckind)
| TInter (name : string) (comps : list (string * ckind)).

Definition tinfo_name (t : tinfo) : string :=
  match t with TIntercept => "Intercept" | TMain n _ => n | TInter n _ => n end.

(* the intercept is moved to the first position *)
Definition intercept_first (ts : list tinfo) : list tinfo :=
  if existsb (fun t => match t with TIntercept => true | _ => false end) ts
  then TIntercept :: filter (fun t => match t with TIntercept => false | _ => true end) ts
  else ts.

(* components = {term.name: ...}: a later term with the same name overwrites the value in place *)
Definition components_dict (ts : list tinfo) : list (string * tinfo) :=
  fold_left (fun d t => dict_set (tinfo_name t) t d) ts [].

Definition categoric_group (d : list (string * tinfo)) : list (string * list factor) :=
  fold_left
    (fun acc kv =>
       match snd kv with
       | TMain n KCategoric => dict_set (fst kv) [fst kv] acc
       | TIntercept => dict_set (fst kv) [] acc
       | TInter n comps =>
           if forallb (fun c => ckind_eqb (snd c) KCategoric) comps
           then dict_set (fst kv) (map fst comps) acc else acc
       | _ => acc
       end) d [].

Definition str_set_eqb (a b : list string) : bool :=
  forallb (fun x => existsb (String.eqb x) b) a && forallb (fun x => existsb (String.eqb x) a) b.

Fixpoint index_where {T} (p : T -> bool) (l : list T) (k : nat) : option nat :=
  match l with
  | [] => None
  | x :: r => if p x then Some k else index_where p r (S k)
  end.

Definition numeric_groups (d : list (string * tinfo))
  : list (list string * list (string * list factor)) :=
  fold_left
    (fun (acc : list (list string * list (string * list factor))) kv =>
       match snd kv with
       | TInter n comps =>
           let cat := map fst (filter (fun c => ckind_eqb (snd c) KCategoric) comps) in
           let num := map fst (filter (fun c => ckind_eqb (snd c) KNumeric) comps) in
           match cat, num with
           | _ :: _, _ :: _ =>
               let numeric_part := concat_with ":" num in
               let acc1 :=
                 match index_where (fun g => str_set_eqb (fst g) num) acc 0 with
                 | Some _ => acc
                 | None => (acc ++ [(num, [])])%list
                 end in
               map (fun g =>
                      if str_set_eqb (fst g) num then
                        let g1 := match dict_get numeric_part d with
                                  | Some _ => dict_set numeric_part [] (snd g)
                                  | None => snd g end in
                        (fst g, dict_set (fst kv) cat g1)
                      else g) acc1
           | _, _ => acc
           end
       | _ => acc
       end) d [].

Definition encoding_groups (ts : list tinfo) : list (list (string * list factor)) :=
  let d := components_dict (intercept_first ts) in
  categoric_group d :: map snd (numeric_groups d).

(* _get_encoding_bools: result.update(d) for each group in order *)
Definition encoding_bools (ts : list tinfo) : res (list (string * list subterm)) :=
  do per <- mapM pick_contrasts (encoding_groups ts);
  Ok (fold_left (fun acc d => fold_left (fun a kv => dict_set (fst kv) (snd kv) a) d acc) per []).
