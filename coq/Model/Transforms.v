(* Model of the numeric stateful transforms `Center` and `Scale` of formulae/transforms.py over
   exact rationals (Qc), plus the rational-list helpers shared by Spline.v and Poly.v.
   Definitions only (no proofs): the file must keep extracting even if a proof elsewhere breaks.

   Python                                   model
   ------------------------------------     ---------------------------------------------
   Center.__call__ (first call)             center_fit xs            (= np.mean(x))
   Center.__call__ (every call)             map (center_apply mu) x  (= x - self.mean)
   Scale.__call__  (first call)             scale_fit ksqrt xs       (= np.mean(x), np.std(x))
   Scale.__call__  (every call)             map (scale_apply p) x    (= (x - mean) / std)

   np.std is the population standard deviation sqrt(mean(|x - mean(x)|^2)).  The square root
   is not a rational function; it is passed as the argument `ksqrt`.
   Domain limits: Qc division by zero yields 0 whereas numpy yields nan/inf with a warning
   (empty data: mean = 0/0; constant data: std = 0). *)
From Coq Require Import List QArith Qcanon ZArith Bool.
Import ListNotations.
Local Open Scope Qc_scope.

(* ---- helpers on lists of rationals ---- *)
Definition qsum (l : list Qc) : Qc := fold_right Qcplus 0 l.

Definition qofZ (z : Z) : Qc := Q2Qc (inject_Z z).
Definition qofnat (n : nat) : Qc := qofZ (Z.of_nat n).
Definition qlen (l : list Qc) : Qc := qofnat (length l).

Definition qeqb (a b : Qc) : bool := Qeq_bool a b.
Definition qleb (a b : Qc) : bool := Qle_bool a b.
Definition qltb (a b : Qc) : bool := negb (Qle_bool b a).

(* ---- Center / Scale ---- *)
Definition mean (xs : list Qc) : Qc := qsum xs / qlen xs.

Definition var (xs : list Qc) : Qc :=
  let m := mean xs in mean (map (fun x => (x - m) * (x - m)) xs).

Definition center_fit (xs : list Qc) : Qc := mean xs.
Definition center_apply (mu : Qc) (x : Qc) : Qc := x - mu.

Definition scale_fit (ksqrt : Qc -> Qc) (xs : list Qc) : Qc * Qc := (mean xs, ksqrt (var xs)).
Definition scale_apply (p : Qc * Qc) (x : Qc) : Qc := (x - fst p) / snd p.

(* the stateful call: fit on the first data, then apply to the first and to later data *)
Definition center_call (xs ys : list Qc) : Qc * list Qc * list Qc :=
  let mu := center_fit xs in (mu, map (center_apply mu) xs, map (center_apply mu) ys).

Definition scale_call (ksqrt : Qc -> Qc) (xs ys : list Qc) : (Qc * Qc) * list Qc * list Qc :=
  let p := scale_fit ksqrt xs in (p, map (scale_apply p) xs, map (scale_apply p) ys).
