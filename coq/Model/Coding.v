(* Model of formulae/categorical.py: Treatment and Sum contrast matrices and their labels.
   Matrices are lists of rows over Z; entries are given by closed-form entry functions so that the
   linear-algebra development (LinAlg/Contrast.v) can talk about the same numbers.  Definitions only. *)
From Verif Require Import Base.

(* position of the j-th kept level when level r is left out *)
Definition lift (r j : nat) : nat := if (j <? r)%nat then j else S j.

(* Treatment.code_without_intercept: n levels, reference index r; n rows, n-1 columns *)
Definition treat_entry (r i j : nat) : Z := if (i =? lift r j)%nat then 1%Z else 0%Z.
(* Sum.code_without_intercept: omitted index o *)
Definition sum_entry (o i j : nat) : Z :=
  if (i =? o)%nat then (-1)%Z else if (i =? lift o j)%nat then 1%Z else 0%Z.
(* Treatment.code_with_intercept: identity *)
Definition eye_entry (i j : nat) : Z := if (i =? j)%nat then 1%Z else 0%Z.
(* Sum.code_with_intercept: a column of ones in front of the reduced matrix *)
Definition sumfull_entry (o i j : nat) : Z :=
  match j with O => 1%Z | S j' => sum_entry o i j' end.

Definition build (rows cols : nat) (f : nat -> nat -> Z) : list (list Z) :=
  map (fun i => map (fun j => f i j) (seq 0 cols)) (seq 0 rows).

Inductive encoding := Treatment (reference : option string) | Sum (omit : option string).

Fixpoint index_of (x : string) (l : list string) : option nat :=
  match l with
  | [] => None
  | y :: r => if String.eqb x y then Some O
              else match index_of x r with Some k => Some (S k) | None => None end
  end.

Fixpoint drop_nth {T} (k : nat) (l : list T) : list T :=
  match l, k with
  | [], _ => []
  | _ :: r, O => r
  | x :: r, S k' => x :: drop_nth k' r
  end.

Record contrast := Contrast { cmatrix : list (list Z); clabels : list string }.

(* levels.index(reference): ValueError when absent *)
Definition ref_index (enc : encoding) (levels : list string) : res nat :=
  match enc with
  | Treatment None => Ok O
  | Treatment (Some r) => match index_of r levels with Some k => Ok k | None => Err EValue end
  | Sum None => Ok (List.length levels - 1)
  | Sum (Some o) => match index_of o levels with Some k => Ok k | None => Err EValue end
  end.

Definition code_without_intercept (enc : encoding) (levels : list string) : res contrast :=
  let n := List.length levels in
  do r <- ref_index enc levels;
  match enc with
  | Treatment _ => Ok (Contrast (build n (n - 1) (treat_entry r)) (drop_nth r levels))
  | Sum _ => Ok (Contrast (build n (n - 1) (sum_entry r)) (drop_nth r levels))
  end.

Definition code_with_intercept (enc : encoding) (levels : list string) : res contrast :=
  let n := List.length levels in
  match enc with
  | Treatment _ => Ok (Contrast (build n n eye_entry) levels)
  | Sum _ =>
      do r <- ref_index enc levels;
      Ok (Contrast (build n n (sumfull_entry r)) ("mean"%string :: drop_nth r levels))
  end.

Definition code (enc : encoding) (spans_intercept : bool) (levels : list string) : res contrast :=
  if spans_intercept then code_with_intercept enc levels else code_without_intercept enc levels.
