(* Model of formulae/environment.py (VarLookupDict, Environment.capture / with_outer_namespace) and of
   the lookup order used by LazyVariable.eval / get_function_from_module (call_resolver.py) together
   with Call.set_type (call.py).  Values are opaque markers or module-like objects with attributes.
   Definitions only. *)
From Verif Require Import Base.
Local Open Scope string_scope.

Inductive obj := Marker (m : string) | Module (attrs : list (string * obj)).

Definition scope := list (string * obj).

Fixpoint sassoc (k : string) (l : scope) : option obj :=
  match l with
  | [] => None
  | (k', v) :: r => if String.eqb k k' then Some v else sassoc k r
  end.

(* VarLookupDict.__getitem__: the first dict that has the key wins *)
Fixpoint lookup (chain : list scope) (x : string) : option obj :=
  match chain with
  | [] => None
  | s :: r => match sassoc x s with Some v => Some v | None => lookup r x end
  end.

Record pyframe := PyFrame { f_locals : scope; f_globals : scope }.

(* Environment.capture(env, reference=1) called inside design_matrices: stack = frames above
   design_matrices, innermost first (index 0 = the caller of design_matrices) *)
Definition capture (stack : list pyframe) (depth : nat) : res pyframe :=
  match nth_error stack depth with Some f => Ok f | None => Err EValue end.

Record env_input := EnvIn {
  ei_data : scope;        (* columns of the data frame *)
  ei_builtins : scope;    (* {**TRANSFORMS, **ENCODINGS} *)
  ei_stack : list pyframe;
  ei_extra : scope        (* extra_namespace *)
}.

(* the chain Call.set_type builds: transforms first, then the captured namespace (locals, globals,
   extra_namespace); LazyVariable.eval tries the data frame before it *)
Definition env_chain (e : env_input) (fr : pyframe) : list scope :=
  [ei_builtins e; f_locals fr; f_globals fr; ei_extra e].
Definition arg_chain (e : env_input) (fr : pyframe) : list scope := ei_data e :: env_chain e fr.

Definition resolve_arg (e : env_input) (depth : nat) (x : string) : res obj :=
  do fr <- capture (ei_stack e) depth;
  match lookup (arg_chain e fr) x with Some v => Ok v | None => Err EKey end.

(* getattr chain *)
Fixpoint getattrs (o : obj) (path : list string) : res obj :=
  match path with
  | [] => Ok o
  | a :: r => match o with
              | Module attrs => match sassoc a attrs with Some o' => getattrs o' r | None => Err EAttr end
              | Marker _ => Err EAttr
              end
  end.

(* get_function_from_module: "a.b.c" -> namespace["a"], then attribute access *)
Definition resolve_callee (e : env_input) (depth : nat) (path : list string) : res obj :=
  do fr <- capture (ei_stack e) depth;
  match path with
  | [] => Err EKey
  | x :: rest =>
      match lookup (env_chain e fr) x with
      | Some v => getattrs v rest
      | None => Err EKey
      end
  end.
