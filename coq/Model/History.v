(* Histories of operations over a pool of formulas and frames (C07).  The concrete state keeps every
   design that was built; evaluation never writes to it.  Definitions only. *)
From Verif Require Import Base Tokens Scanner Parser Algebra Frame Eval Design.
Local Close Scope Qc_scope.
Local Close Scope Q_scope.
Local Open Scope string_scope.

Inductive op :=
| OBuild (formula : nat) (frame : nat)          (* indexes into the pools *)
| OEvalCommon (design : nat) (frame : nat)      (* design = index of an earlier Build in this history *)
| OEvalGroup (design : nat) (frame : nat)
| OSetConfig (value : string).

Inductive out :=
| OutDesign (d : res design)
| OutCommon (r : res newres)
| OutGroup (r : res newgroup)
| OutConfig (ok : bool)
| OutBad.

Record pools := Pools { p_formulas : list expr; p_frames : list frame; p_ctx : dctx }.

Record hstate := HState { h_designs : list (res design); h_mode : unseen_mode }.

Definition init_state : hstate := HState [] UError.

Definition parse_mode (s : string) : option unseen_mode :=
  if String.eqb s "error" then Some UError
  else if String.eqb s "warning" then Some UWarning
  else if String.eqb s "silent" then Some USilent
  else None.

Definition build_one (p : pools) (f fr : nat) : res design :=
  match nth_error (p_formulas p) f, nth_error (p_frames p) fr with
  | Some e, Some d => design_matrices (p_ctx p) e d NaDrop
  | _, _ => Err EIndex
  end.

Definition eval_common (p : pools) (mode : unseen_mode) (d : res design) (fr : nat) : res newres :=
  match d, nth_error (p_frames p) fr with
  | Ok ds, Some f => match ds_common ds with [] => Err EAttr | _ => new_common (p_ctx p) mode ds f end
  | Err k, _ => Err k
  | _, None => Err EIndex
  end.

Definition eval_group (p : pools) (mode : unseen_mode) (d : res design) (fr : nat) : res newgroup :=
  match d, nth_error (p_frames p) fr with
  | Ok ds, Some f => match ds_group ds with [] => Err EAttr | _ => new_group (p_ctx p) mode ds f end
  | Err k, _ => Err k
  | _, None => Err EIndex
  end.

Definition step (p : pools) (s : hstate) (o : op) : hstate * out :=
  match o with
  | OBuild f fr =>
      let d := build_one p f fr in
      (HState (h_designs s ++ [d])%list (h_mode s), OutDesign d)
  | OEvalCommon i fr =>
      match nth_error (h_designs s) i with
      | Some d => (s, OutCommon (eval_common p (h_mode s) d fr))
      | None => (s, OutBad)
      end
  | OEvalGroup i fr =>
      match nth_error (h_designs s) i with
      | Some d => (s, OutGroup (eval_group p (h_mode s) d fr))
      | None => (s, OutBad)
      end
  | OSetConfig v =>
      match parse_mode v with
      | Some m => (HState (h_designs s) m, OutConfig true)
      | None => (s, OutConfig false)
      end
  end.

Fixpoint run (p : pools) (s : hstate) (ops : list op) : hstate * list out :=
  match ops with
  | [] => (s, [])
  | o :: r => let (s1, x) := step p s o in let (s2, xs) := run p s1 r in (s2, x :: xs)
  end.

(* ---- specification: immutable designs; every operation is evaluated on its own ---- *)
(* the Build operations of a history, in order *)
Definition builds_of (ops : list op) : list (nat * nat) :=
  flat_map (fun o => match o with OBuild f fr => [(f, fr)] | _ => [] end) ops.

(* the configuration in force after a prefix *)
Definition mode_after (m : unseen_mode) (ops : list op) : unseen_mode :=
  fold_left (fun m o => match o with
                        | OSetConfig v => match parse_mode v with Some m' => m' | None => m end
                        | _ => m end) ops m.

(* what operation o returns when it is executed in a fresh state in which only the design it
   names has been built (from its own formula and frame) and the configuration is m *)
Definition fresh_out (p : pools) (m : unseen_mode) (earlier : list op) (o : op) : out :=
  match o with
  | OBuild f fr => OutDesign (build_one p f fr)
  | OEvalCommon i fr =>
      match nth_error (builds_of earlier) i with
      | Some (f, dfr) => OutCommon (eval_common p m (build_one p f dfr) fr)
      | None => OutBad
      end
  | OEvalGroup i fr =>
      match nth_error (builds_of earlier) i with
      | Some (f, dfr) => OutGroup (eval_group p m (build_one p f dfr) fr)
      | None => OutBad
      end
  | OSetConfig v => OutConfig (match parse_mode v with Some _ => true | None => false end)
  end.

Fixpoint spec_outputs (p : pools) (m : unseen_mode) (earlier ops : list op) : list out :=
  match ops with
  | [] => []
  | o :: r => fresh_out p (mode_after m earlier) earlier o :: spec_outputs p m (earlier ++ [o])%list r
  end.
