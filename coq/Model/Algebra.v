(* Model of formulae/resolver.py and the operator overloads of formulae/terms/terms.py
   (Intercept, NegatedIntercept, Term, GroupSpecificTerm, Response, Model).  Definitions only.
   A Python TypeError from a missing/NotImplemented overload is [Err EType]; other exceptions map
   to the matching kind; the correspondence only distinguishes accepted from rejected. *)
From Verif Require Import Base Tokens Lazy.
Local Open Scope string_scope.

(* the name of a Variable component: an identifier / string, or a literal value *)
Inductive vname := NStr (s : string) | NLit (v : lit).

Inductive comp :=
| CVar (n : vname) (level : option string)
| CCall (c : lazy).

Definition term := list comp.

Inductive cterm := CI | CN | CT (t : term).            (* an element of Model.common_terms *)
Record gterm := GT { gexpr : cterm; gfactor : cterm }.  (* GroupSpecificTerm(expr, factor) *)

Record model := Mod { resp : option term; commons : list cterm; groups : list gterm }.

Inductive value := VI | VN | VT (t : term) | VG (g : gterm) | VR (t : term) | VM (m : model).

(* ---- equality as the Python __eq__ methods define it ---- *)
Definition vname_eqb (a b : vname) : bool :=
  match a, b with
  | NStr s1, NStr s2 => String.eqb s1 s2
  | NLit v1, NLit v2 => lit_eqb v1 v2
  | NStr s1, NLit (LStr s2) | NLit (LStr s1), NStr s2 => String.eqb s1 s2
  | _, _ => false
  end.

Definition comp_eqb (a b : comp) : bool :=
  match a, b with
  | CVar n1 l1, CVar n2 l2 => vname_eqb n1 n2 && option_eqb String.eqb l1 l2
  | CCall c1, CCall c2 => lazy_eqb c1 c2
  | _, _ => false
  end.

(* Term.__eq__: set(self.components) == set(other.components) *)
Definition term_eqb (a b : term) : bool :=
  forallb (fun x => existsb (comp_eqb x) b) a && forallb (fun y => existsb (comp_eqb y) a) b.

Definition cterm_eqb (a b : cterm) : bool :=
  match a, b with
  | CI, CI => true
  | CN, CN => true
  | CT t1, CT t2 => term_eqb t1 t2
  | _, _ => false
  end.

Definition gterm_eqb (a b : gterm) : bool :=
  cterm_eqb (gexpr a) (gexpr b) && cterm_eqb (gfactor a) (gfactor b).

Definition cmem (t : cterm) (l : list cterm) : bool := existsb (cterm_eqb t) l.
Definition gmem (g : gterm) (l : list gterm) : bool := existsb (gterm_eqb g) l.

(* Term(components...): drops repeated components, keeps the first occurrence *)
Fixpoint dedup_comps (acc : term) (l : list comp) : term :=
  match l with
  | [] => acc
  | c :: r => if existsb (comp_eqb c) acc then dedup_comps acc r else dedup_comps (acc ++ [c])%list r
  end.
Definition mk_term (l : list comp) : term := dedup_comps [] l.

(* list.remove(x): first occurrence *)
Fixpoint remove_first {T} (eqb : T -> T -> bool) (x : T) (l : list T) : list T :=
  match l with
  | [] => []
  | y :: r => if eqb x y then r else y :: remove_first eqb x r
  end.

(* ---- names ---- *)
Definition vname_str (n : vname) : string :=
  match n with NStr s => s | NLit v => lit_str v end.
Definition comp_name (c : comp) : string :=
  match c with CVar n _ => vname_str n | CCall l => lazy_str l end.
Definition term_name (t : term) : string := concat_with ":" (map comp_name t).

Definition is_numeric_name (c : comp) : bool :=
  match c with
  | CVar (NLit (LInt _)) _ | CVar (NLit (LFloat _ _)) _ | CVar (NLit (LBool _)) _ => true
  | _ => false
  end.
(* len(other.components) == 1 and isinstance(other.components[0].name, (int, float)) *)
Definition single_numeric (t : term) : bool :=
  match t with [c] => is_numeric_name c | _ => false end.

(* ---- Model(terms..., response) and add_term ---- *)
Definition empty_model : model := Mod None [] [].

Inductive anyterm := AC (c : cterm) | AG (g : gterm).

(* keeps the first occurrence of each term *)
Fixpoint dedup {T} (eqb : T -> T -> bool) (acc l : list T) : list T :=
  match l with
  | [] => acc
  | x :: r => if existsb (eqb x) acc then dedup eqb acc r else dedup eqb (acc ++ [x])%list r
  end.

Definition mk_model (ts : list anyterm) (r : option term) : model :=
  Mod r (dedup cterm_eqb [] (flat_map (fun a => match a with AC c => [c] | AG _ => [] end) ts))
        (dedup gterm_eqb [] (flat_map (fun a => match a with AG g => [g] | AC _ => [] end) ts)).

Definition add_term (m : model) (a : anyterm) : res model :=
  match a with
  | AG g => Ok (if gmem g (groups m) then m else Mod (resp m) (commons m) (groups m ++ [g])%list)
  | AC CN => Err EValue
  | AC c => Ok (if cmem c (commons m) then m else Mod (resp m) (commons m ++ [c])%list (groups m))
  end.

Definition model_terms (m : model) : list anyterm :=
  (map AC (commons m) ++ map AG (groups m))%list.

Fixpoint add_terms (m : model) (l : list anyterm) : res model :=
  match l with
  | [] => Ok m
  | a :: r => do m' <- add_term m a; add_terms m' r
  end.

(* .components of an element of common_terms: AttributeError on intercepts *)
Definition comps_of (c : cterm) : res term :=
  match c with CT t => Ok t | _ => Err EAttr end.

(* [Term(p[0].components + p[1].components) for p in product(ls, rs)] *)
Definition interactions (ls rs : list cterm) : res (list anyterm) :=
  mapM (fun p => do a <- comps_of (fst p); do b <- comps_of (snd p);
                 Ok (AC (CT (mk_term (a ++ b)%list))))
       (list_prod ls rs).

(* Model.__eq__ needs every term hashable; NegatedIntercept is not *)
Definition hashable (m : model) : bool := negb (cmem CN (commons m)).
Definition sub_set {T} (eqb : T -> T -> bool) (a b : list T) : bool :=
  forallb (fun x => existsb (eqb x) b) a.
Definition anyterm_eqb (a b : anyterm) : bool :=
  match a, b with
  | AC x, AC y => cterm_eqb x y
  | AG x, AG y => gterm_eqb x y
  | _, _ => false
  end.
Definition model_eq (a b : model) : res bool :=
  if hashable a && hashable b then
    Ok (sub_set anyterm_eqb (model_terms a) (model_terms b) &&
        sub_set anyterm_eqb (model_terms b) (model_terms a) &&
        option_eqb term_eqb (resp a) (resp b))
  else Err EType.

(* ---- subtraction ---- *)
Definition model_sub (m : model) (v : value) : res model :=
  match v with
  | VM o =>
      Ok (fold_left
            (fun (acc : model) (a : anyterm) =>
               match a with
               | AC c => if cmem c (commons acc)
                         then Mod (resp acc) (remove_first cterm_eqb c (commons acc)) (groups acc)
                         else acc
               | AG g => if gmem g (groups acc)
                         then Mod (resp acc) (commons acc) (remove_first gterm_eqb g (groups acc))
                         else acc
               end) (model_terms o) m)
  | VT t => Ok (if cmem (CT t) (commons m)
                then Mod (resp m) (remove_first cterm_eqb (CT t) (commons m)) (groups m) else m)
  | VI => Ok (if cmem CI (commons m)
              then Mod (resp m) (remove_first cterm_eqb CI (commons m)) (groups m) else m)
  | VG g => Ok (if gmem g (groups m)
                then Mod (resp m) (commons m) (remove_first gterm_eqb g (groups m)) else m)
  | _ => Err EType
  end.

(* ---- addition ---- *)
Definition model_add (m : model) (v : value) : res model :=
  match v with
  | VN => model_sub m VI
  | VT t => add_term m (AC (CT t))
  | VG g => add_term m (AG g)
  | VI => add_term m (AC CI)
  | VM o => add_terms m (model_terms o)
  | VR _ => Err EType
  end.

Definition v_add (a b : value) : res value :=
  match a with
  | VI =>
      match b with
      | VN => Ok (VM empty_model)
      | VI => Ok VI
      | VT t => Ok (VM (mk_model [AC CI; AC (CT t)] None))
      | VG g => Ok (VM (mk_model [AC CI; AG g] None))
      | VM o => do m <- model_add (mk_model [AC CI] None) b; Ok (VM m)
      | VR _ => Err EType
      end
  | VN =>
      match b with
      | VN => Ok VN
      | VI => Ok (VM empty_model)
      | VT t => Ok (VM (mk_model [AC CN; AC (CT t)] None))
      | VG g => Ok (VM (mk_model [AC CN; AG g] None))
      | VM o => do m <- model_add (mk_model [AC CN] None) b; Ok (VM m)
      | VR _ => Err EType
      end
  | VT t =>
      match b with
      | VT t' => if term_eqb t t' then Ok a else Ok (VM (mk_model [AC (CT t); AC (CT t')] None))
      | VM o => do m <- model_add (mk_model [AC (CT t)] None) b; Ok (VM m)
      | _ => Err EType
      end
  | VG _ => Err EType
  | VR t =>
      match b with
      | VT t' => Ok (VM (mk_model [AC (CT t')] (Some t)))
      | VG g => Ok (VM (mk_model [AG g] (Some t)))
      | VI => Ok (VM (mk_model [AC CI] (Some t)))
      | VM o => Ok (VM (Mod (Some t) (commons o) (groups o)))
      | _ => Err EType
      end
  | VM m => do m' <- model_add m b; Ok (VM m')
  end.

Definition v_sub (a b : value) : res value :=
  match a with
  | VI =>
      match b with
      | VI => Ok (VM empty_model)
      | VN => Ok VI
      | VM o => if cmem CI (commons o) then Ok (VM empty_model) else Ok VI
      | _ => Err EType
      end
  | VT t =>
      match b with
      | VT t' => if term_eqb t t' then Ok (VM empty_model) else Ok a
      | VM o => if existsb (anyterm_eqb (AC (CT t))) (model_terms o) then Ok (VM empty_model) else Ok a
      | _ => Err EType
      end
  | VM m => do m' <- model_sub m b; Ok (VM m')
  | _ => Err EType
  end.

(* ---- ":" ---- *)
Definition v_matmul (a b : value) : res value :=
  match a with
  | VT t =>
      match b with
      | VT t' =>
          if term_eqb t t' then Ok a
          else if single_numeric t' then Err EType
          else Ok (VT (mk_term (t ++ t')%list))
      | VM o => do it <- interactions [CT t] (commons o); Ok (VM (mk_model it None))
      | _ => Err EType
      end
  | VM m =>
      match b with
      | VM o => do it <- interactions (commons m) (commons o); Ok (VM (mk_model it None))
      | VT t' => do it <- interactions (commons m) [CT t']; Ok (VM (mk_model it None))
      | _ => Err EType
      end
  | _ => Err EType
  end.

(* ---- "*" ---- *)
Definition v_mul (a b : value) : res value :=
  match a with
  | VT t =>
      match b with
      | VT t' =>
          if term_eqb t t' then Ok a
          else if single_numeric t' then Err EType
          else Ok (VM (mk_model [AC (CT t); AC (CT t'); AC (CT (mk_term (t ++ t')%list))] None))
      | VM o =>
          do it <- interactions [CT t] (commons o);
          do m <- add_terms (mk_model (AC (CT t) :: map AC (commons o)) None)
                            (model_terms (mk_model it None));
          Ok (VM m)
      | _ => Err EType
      end
  | VM m =>
      match b with
      | VM o =>
          do it <- interactions (commons m) (commons o);
          do m' <- add_terms (mk_model (map AC (commons m ++ commons o)%list) None)
                             (model_terms (mk_model it None));
          Ok (VM m')
      | VT t' =>
          if single_numeric t' then Err EType
          else
            do it <- interactions (commons m) [CT t'];
            do m' <- add_terms (mk_model (map AC (commons m ++ [CT t'])%list) None)
                               (model_terms (mk_model it None));
            Ok (VM m')
      | _ => Err EType
      end
  | _ => Err EType
  end.

(* ---- "/" ---- *)
Definition common_components (m : model) : list comp :=
  flat_map (fun c => match c with CT t => t | _ => [] end) (commons m).

Definition v_div (a b : value) : res value :=
  match a with
  | VT t =>
      match b with
      | VT t' =>
          if term_eqb t t' then Ok a
          else if single_numeric t' then Err EType
          else Ok (VM (mk_model [AC (CT t); AC (CT (mk_term (t ++ t')%list))] None))
      | VM o =>
          do it <- interactions [CT t] (commons o);
          do m <- add_terms (mk_model [AC (CT t)] None) (model_terms (mk_model it None));
          Ok (VM m)
      | _ => Err EType
      end
  | VM m =>
      match b with
      | VT t' => do m' <- add_term m (AC (CT (mk_term (common_components m ++ t')%list))); Ok (VM m')
      | VM o =>
          let it := flat_map (fun c => match c with
                                       | CT t => [AC (CT (mk_term (common_components m ++ t)%list))]
                                       | _ => [] end)
                             (commons o) in
          do m' <- add_terms m (model_terms (mk_model it None)); Ok (VM m')
      | _ => Err EType
      end
  | _ => Err EType
  end.

(* ---- "**" ---- *)
(* itertools.combinations(l, k) in its lexicographic order *)
Fixpoint combinations {T} (l : list T) (k : nat) : list (list T) :=
  match k with
  | O => [[]]
  | S k' =>
      match l with
      | [] => []
      | x :: r => (map (cons x) (combinations r k') ++ combinations r k)%list
      end
  end.

Definition pow_value (t : term) : option Z :=
  match t with
  | [CVar (NLit (LInt z)) _] => if (1 <=? z)%Z then Some z else None
  | _ => None
  end.

Definition v_pow (a b : value) : res value :=
  match a with
  | VT t =>
      match b with
      | VT t' => match pow_value t' with Some _ => Ok a | None => Err EType end
      | _ => Err EAttr
      end
  | VM m =>
      match b with
      | VT [c] =>
          match pow_value [c] with
          | None => Err EValue  (* UnboundLocalError in the implementation *)
          | Some z =>
              let combs := flat_map (fun i => combinations (commons m) i)
                                    (seq 2 (Z.to_nat z - 1)) in
              do it <- mapM (fun cs => do ts <- mapM comps_of cs;
                                       Ok (AC (CT (mk_term (List.concat ts))))) combs;
              do m' <- add_terms m (model_terms (mk_model it None));
              Ok (VM m')
          end
      | _ => Err EValue
      end
  | _ => Err EType
  end.

(* ---- "|" ---- *)
Definition or_cterm (c : cterm) (b : value) : res value :=
  match c with
  | CI =>
      match b with
      | VT f => Ok (VG (GT CI (CT f)))
      | VM o => Ok (VM (mk_model (map (fun p => AG (GT CI p)) (commons o)) None))
      | _ => Err EType
      end
  | CN => Err EValue
  | CT t =>
      match b with
      | VT f => Ok (VM (mk_model [AG (GT CI (CT f)); AG (GT (CT t) (CT f))] None))
      | VM o =>
          Ok (VM (mk_model (map (fun p => AG (GT CI p)) (commons o) ++
                            map (fun p => AG (GT (CT t) p)) (commons o))%list None))
      | _ => Err EType
      end
  end.

Definition v_or (a b : value) : res value :=
  match a with
  | VI => or_cterm CI b
  | VN => or_cterm CN b
  | VT t => or_cterm (CT t) b
  | VM m =>
      match commons m with
      | [c] => or_cterm c b
      | cs =>
          let cs' :=
            if cmem CI cs && cmem CN cs
            then remove_first cterm_eqb CN (remove_first cterm_eqb CI cs)
            else if cmem CN cs then remove_first cterm_eqb CN cs
            else if negb (cmem CI cs) then CI :: cs
            else cs in
          match b with
          | VT f => Ok (VM (mk_model (map (fun p => AG (GT (fst p) (snd p))) (list_prod cs' [CT f])) None))
          | VM o =>
              Ok (VM (mk_model (map (fun p => AG (GT (fst p) (snd p))) (list_prod cs' (commons o))) None))
          | _ => Err EType
          end
      end
  | _ => Err EType
  end.

(* Response(term) *)
Definition mk_response (v : value) : res value :=
  match v with
  | VT [c] => Ok (VR [c])
  | _ => Err EValue
  end.

(* T3: Resolver.visitBinaryExpr: token kind -> operator *)
Inductive binop := OpTilde | OpAdd | OpSub | OpPow | OpColon | OpMul | OpDiv | OpOr.
Definition resolver_ops : list (kind * binop) :=
  [(TILDE, OpTilde); (PLUS, OpAdd); (MINUS, OpSub); (STAR_STAR, OpPow); (COLON, OpColon);
   (STAR, OpMul); (SLASH, OpDiv); (PIPE, OpOr)].

Definition apply_binop (o : binop) (a b : value) : res value :=
  match o with
  | OpTilde => do r <- mk_response a; v_add r b
  | OpAdd => v_add a b
  | OpSub => v_sub a b
  | OpPow => v_pow a b
  | OpColon => v_matmul a b
  | OpMul => v_mul a b
  | OpDiv => v_div a b
  | OpOr => v_or a b
  end.

Fixpoint resolve (e : expr) : res value :=
  match e with
  | EGrouping e' => resolve e'
  | EBinary l op r =>
      match lookup_kind (tkind op) resolver_ops with
      | None => Err EResolve
      | Some o => do a <- resolve l; do b <- resolve r; apply_binop o a b
      end
  | EUnary op r =>
      match tkind op with
      | PLUS => resolve r
      | MINUS =>
          do v <- resolve r;
          match v with VI => Ok VN | VN => Ok VI | _ => Err EResolve end
      | _ => Err EResolve
      end
  | ECall _ _ => do l <- call_resolve e; Ok (VT [CCall l])
  | EVariable n lv =>
      match lv with
      | None => Ok (VT [CVar (NStr (lexeme n)) None])
      | Some (ELiteral (LStr s) _) => Ok (VT [CVar (NStr (lexeme n)) (Some s)])
      | Some (ELiteral _ _) => Err EAttr
      | Some _ => Err EAttr
      end
  | ELiteral v _ =>
      if lit_is 0 v then Ok VN
      else if lit_is 1 v then Ok VI
      else Ok (VT [CVar (match v with LStr s => NStr s | _ => NLit v end) None])
  | EQuotedName t => Ok (VT [CVar (NStr (strip_ends (lexeme t))) None])
  | EAssign _ _ => Err EAttr
  end.

(* model_description: wrap a non-Model result *)
Definition describe (e : expr) : res model :=
  do v <- resolve e;
  match v with
  | VM m => Ok m
  | VI => Ok (mk_model [AC CI] None)
  | VN => Ok (mk_model [AC CN] None)
  | VT t => Ok (mk_model [AC (CT t)] None)
  | VG g => Ok (mk_model [AG g] None)
  | VR _ => Err EValue
  end.

(* ---- observation: names, as the public attributes expose them ---- *)
Definition cterm_name (c : cterm) : string :=
  match c with CI => "Intercept" | CN => "NegatedIntercept" | CT t => term_name t end.

Definition gterm_name (g : gterm) : res string :=
  match gexpr g, gfactor g with
  | CI, CT f => Ok ("1|" ++ term_name f)
  | CT t, CT f => Ok (term_name t ++ "|" ++ term_name f)
  | _, _ => Err EValue
  end.

Definition model_obs (m : model) : res sexp :=
  do gn <- mapM gterm_name (groups m);
  Ok (L [match resp m with None => L [] | Some t => A (term_name t) end;
         L (map (fun c => A (cterm_name c)) (commons m));
         L (map A gn)]).
