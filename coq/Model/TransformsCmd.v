(* S-expression entry point for the numeric transforms (Transforms.v, Spline.v, Poly.v).
   Definitions only.  Hook into Driver.run_cmd with
       | _, _ => transforms_cmd cmd args        (transforms_cmd answers (bad-command cmd) itself)

   WIRE FORMAT
   -----------
   number   : an atom holding a decimal integer "12", "-3", or a rational "num/den" with
              den > 0 ("-7/4"); str(fractions.Fraction(...)) produces exactly this.
              Output numbers are always printed "num/den" in lowest terms, den >= 1 ("3/1").
   numbers  : a list (n1 n2 ...) of number atoms.
   bool     : atom "true" | "false" ("True"/"False" accepted).
   optional : atom "none" (or "None") for Python None, otherwise the value.
   int      : atom with a decimal integer (may be negative).
   nat      : atom with a non-negative decimal integer.
   matrix   : list of rows, each row a list of numbers: ((a11 a12 ..) (a21 a22 ..) ..).
   result R : (ok <matrix>) | (err <Kind>)   with Kind as printed by Base.errshow.

   Commands (cmd, args)                              answer
   ("center"    xs ys)                               (ok (mu (center xs) (center ys)))
        xs, ys : numbers.  mu fitted on xs; both lists transformed with that mu.
   ("scale-fit" xs)                                  (ok (mean var))      exact, no square root
   ("scale"     xs s ys)                             (ok ((mean s') (scale xs) (scale ys)))
        s : the square root kernel, either a number (ksqrt := fun _ => s; the harness passes
        the float np.std(xs), or the float sqrt of the exact variance obtained from scale-fit,
        converted exactly to a rational) or a table ((q1 s1) (q2 s2) ...) of number pairs
        (ksqrt q := s_i for the first q_i = q, 0 if absent).  s' = ksqrt (var xs).
   ("bs" xs df knots degree intercept lower upper ys)
        xs, ys : numbers; df : optional int; knots : optional numbers; degree : int;
        intercept : bool; lower, upper : optional number.
        answer (err Kind) if _initialize raises, else (ok ((all_knots ...) R_xs R_ys)) where
        R_xs / R_ys are the results of eval on the first / later data.
   ("poly-fit" xs degree)                            (ok ((alpha_0 ..) (norms2_0 ..)))
        degree : nat.  Exact memoised parameters (degree alphas, degree+1 norms2).
   ("poly" xs degree raw sq ys)                      (ok (R_xs R_ys))
        raw : bool; sq : square root kernel as for "scale", or additionally the positional
        form ("pos" s_0 ... s_degree) meaning ksqrt norms2[k] := s_k (first match wins when
        two norms2 coincide).  Ignored when raw = true (pass ()).
        An empty ys gives R_ys = (err Value) for "bs" (scipy splev rejects empty input) and
        (ok ()) for "poly"/"center"/"scale".
   Arguments that do not decode answer (bad-args cmd); an unknown cmd, or a known cmd with the
   wrong number of arguments, answers (bad-command cmd). *)
From Verif Require Import Base Transforms Spline Poly.
From Coq Require Import QArith Qcanon.
Local Open Scope string_scope.

(* ---- printing ---- *)
Definition qshow (q : Qc) : string := zshow (Qnum q) ++ "/" ++ zshow (Zpos (Qden q)).
Definition AQ (q : Qc) : sexp := SAtom (qshow q).
Definition qlist_sexp (l : list Qc) : sexp := SList (map AQ l).
Definition qmatrix_sexp (m : list (list Qc)) : sexp := SList (map qlist_sexp m).

(* ---- decoding ---- *)
Fixpoint split_slash (s : string) : string * option string :=
  match s with
  | EmptyString => (EmptyString, None)
  | String c r =>
      if Ascii.eqb c "/"%char then (EmptyString, Some r)
      else let p := split_slash r in (String c (fst p), snd p)
  end.

Definition qread (s : string) : option Qc :=
  match split_slash s with
  | (a, None) => match zread a with Some n => Some (qofZ n) | None => None end
  | (a, Some b) =>
      match zread a, zread b with
      | Some n, Some (Zpos d) => Some (Q2Qc (Qmake n d))
      | _, _ => None
      end
  end.

Definition dec_q (x : sexp) : option Qc := match x with SAtom s => qread s | _ => None end.

Fixpoint dec_list {T} (f : sexp -> option T) (l : list sexp) : option (list T) :=
  match l with
  | [] => Some []
  | x :: r => match f x, dec_list f r with Some a, Some b => Some (a :: b) | _, _ => None end
  end.

Definition dec_qs (x : sexp) : option (list Qc) :=
  match x with SList l => dec_list dec_q l | _ => None end.

Definition dec_z (x : sexp) : option Z := match x with SAtom s => zread s | _ => None end.
Definition dec_nat (x : sexp) : option nat :=
  match dec_z x with Some z => if (z <? 0)%Z then None else Some (Z.to_nat z) | None => None end.

Definition dec_bool (x : sexp) : option bool :=
  match x with
  | SAtom "true" | SAtom "True" => Some true
  | SAtom "false" | SAtom "False" => Some false
  | _ => None
  end.

Definition dec_opt {T} (f : sexp -> option T) (x : sexp) : option (option T) :=
  match x with
  | SAtom "none" | SAtom "None" => Some None
  | _ => match f x with Some a => Some (Some a) | None => None end
  end.

Definition dec_pair (x : sexp) : option (Qc * Qc) :=
  match x with
  | SList [a; b] => match dec_q a, dec_q b with Some p, Some q => Some (p, q) | _, _ => None end
  | _ => None
  end.

Fixpoint qlookup (tbl : list (Qc * Qc)) (q : Qc) : Qc :=
  match tbl with
  | [] => 0%Qc
  | (a, s) :: r => if qeqb a q then s else qlookup r q
  end.

(* square-root kernel: constant, table, or positional against the keys `keys` *)
Definition dec_sqrt (keys : list Qc) (x : sexp) : option (Qc -> Qc) :=
  match x with
  | SAtom _ => match dec_q x with Some s => Some (fun _ => s) | None => None end
  | SList (SAtom "pos" :: l) =>
      match dec_list dec_q l with
      | Some ss => if Nat.eqb (List.length ss) (List.length keys)
                   then Some (qlookup (combine keys ss)) else None
      | None => None
      end
  | SList l => match dec_list dec_pair l with Some t => Some (qlookup t) | None => None end
  end.

Definition res_matrix (r : res (list (list Qc))) : sexp := res_sexp qmatrix_sexp r.

Definition bad (cmd : string) : sexp := L [A "bad-args"; A cmd].

Definition transforms_cmd (cmd : string) (args : list sexp) : sexp :=
  match cmd, args with
  | "center", [xs; ys] =>
      match dec_qs xs, dec_qs ys with
      | Some xs, Some ys =>
          match center_call xs ys with
          | (mu, a, b) => L [A "ok"; L [AQ mu; qlist_sexp a; qlist_sexp b]]
          end
      | _, _ => bad cmd
      end
  | "scale-fit", [xs] =>
      match dec_qs xs with
      | Some xs => L [A "ok"; L [AQ (mean xs); AQ (var xs)]]
      | None => bad cmd
      end
  | "scale", [xs; s; ys] =>
      match dec_qs xs, dec_qs ys with
      | Some xs, Some ys =>
          match dec_sqrt [var xs] s with
          | Some ksqrt =>
              match scale_call ksqrt xs ys with
              | (p, a, b) =>
                  L [A "ok"; L [L [AQ (fst p); AQ (snd p)]; qlist_sexp a; qlist_sexp b]]
              end
          | None => bad cmd
          end
      | _, _ => bad cmd
      end
  | "bs", [xs; df; knots; degree; intercept; lower; upper; ys] =>
      match dec_qs xs, dec_opt dec_z df, dec_opt dec_qs knots, dec_z degree with
      | Some xs, Some df, Some knots, Some degree =>
          match dec_bool intercept, dec_opt dec_q lower, dec_opt dec_q upper, dec_qs ys with
          | Some intercept, Some lower, Some upper, Some ys =>
              res_sexp (fun p => L [qlist_sexp (bs_knots p);
                                    res_matrix (bs_apply p xs); res_matrix (bs_apply p ys)])
                       (bs_init xs df knots degree intercept lower upper)
          | _, _, _, _ => bad cmd
          end
      | _, _, _, _ => bad cmd
      end
  | "poly-fit", [xs; degree] =>
      match dec_qs xs, dec_nat degree with
      | Some xs, Some d =>
          let p := poly_fit xs d in
          L [A "ok"; L [qlist_sexp (poly_alpha p); qlist_sexp (poly_norms2 p)]]
      | _, _ => bad cmd
      end
  | "poly", [xs; degree; raw; sq; ys] =>
      match dec_qs xs, dec_nat degree, dec_bool raw, dec_qs ys with
      | Some xs, Some d, Some raw, Some ys =>
          let p := poly_fit xs d in
          match (if raw then Some (fun _ : Qc => 0%Qc) else dec_sqrt (poly_norms2 p) sq) with
          | Some ksqrt =>
              L [A "ok"; L [res_matrix (poly_eval ksqrt raw d p xs);
                            res_matrix (poly_eval ksqrt raw d p ys)]]
          | None => bad cmd
          end
      | _, _, _, _ => bad cmd
      end
  | _, _ => L [A "bad-command"; A cmd]
  end.
