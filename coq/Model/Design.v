(* Model of design_matrices (formulae/matrices.py) and of term evaluation
   (formulae/terms/terms.py Term / GroupSpecificTerm / Response / Model.eval,
    formulae/terms/variable.py, formulae/terms/call.py, formulae/utils.py).  Definitions only. *)
From Verif Require Import Base Tokens Lazy Algebra Coding Contrasts Frame Eval.
Local Close Scope Qc_scope.
Local Close Scope Q_scope.
Local Open Scope string_scope.

Inductive unseen_mode := UError | UWarning | USilent.

Record dctx := DCtx {
  d_extra : list (string * pyval);
  d_sqrt : Qc -> Qc
}.

(* ---- a component after set_type ---- *)
Record tcomp := TC {
  tc_name : string;
  tc_src : comp;
  tc_kind : ckind;
  tc_value : pyval;            (* _intermediate_data *)
  tc_state : list tparam;      (* parameters the stateful transforms of this call site memorised *)
  tc_response : bool;
  tc_reference : option string (* y[level] *)
}.

Definition set_type_comp (cx : dctx) (data : frame) (is_response : bool) (c : comp) : res tcomp :=
  match c with
  | CVar (NStr name) lvl =>
      match assoc name data with
      | None => Err EKey
      | Some col =>
          Ok (TC name c (match col with ColNum _ _ => KNumeric | ColStr _ _ => KCategoric end)
                 (col_value col) [] is_response lvl)
      end
  | CVar (NLit _) _ => Err EKey
  | CCall lz =>
      do r <- eval_lazy (ECtx data (d_extra cx) (d_sqrt cx) true) [] lz;
      let v := fst (fst r) in
      do k <- match v with
              | PSeries _ _ | PMatrix _ => Ok KNumeric
              | PStrs _ _ | PBox _ _ _ _ => Ok KCategoric
              | POffset _ _ => Ok KOffset
              | PProp _ _ _ => Ok KProportion
              | _ => Err EValue
              end;
      Ok (TC (lazy_str lz) c k v (snd r) is_response None)
  end.

(* ---- a component after set_data ---- *)
Record dcomp := DC {
  dc_t : tcomp;
  dc_levels : list string;
  dc_contrast : option contrast;
  dc_rows : list (list cell);       (* value, one row per observation *)
  dc_labels : option (list string); (* None: the labels property raises / is None *)
  dc_spans : bool
}.

Definition zcell (z : Z) : cell := Some (qz z).

Definition code_rows (m : list (list Z)) (width : nat) (codes : list (option nat)) : list (list cell) :=
  map (fun c => match c with
                | Some k => map zcell (nth k m (repeat 0%Z width))
                | None => repeat (zcell 0) width
                end) codes.

Definition level_codes (levels : list string) (xs : list (option string)) : list (option nat) :=
  map (fun x => match x with Some s => index_of s levels | None => None end) xs.

Definition contrast_width (c : contrast) : nat :=
  match cmatrix c with r :: _ => List.length r | [] => O end.

(* the strings a categoric value is made of, whether they are numbers, and its declared order *)
Definition categoric_data (v : pyval) : res (bool * option (list string) * list (option string)) :=
  match v with
  | PStrs o xs => Ok (false, o, xs)
  | PSeries true xs =>
      Ok (true, None, map (fun c => match c with Some q => Some (int_label q) | None => None end) xs)
  | PBox num d _ _ => Ok (num, None, d)
  | _ => Err EUnsupported
  end.

Definition set_data_comp (t : tcomp) (spans : bool) (nrows : nat) : res dcomp :=
  match tc_kind t with
  | KNumeric =>
      match tc_value t with
      | PSeries _ xs => Ok (DC t [] None (map (fun x => [x]) xs) (Some [tc_name t]) spans)
      | PMatrix rows =>
          let w := match rows with r :: _ => List.length r | [] => O end in
          Ok (DC t [] None rows
                 (Some (if (1 <? w)%nat
                        then map (fun i => tc_name t ++ "[" ++ nshow i ++ "]") (seq 0 w)
                        else [tc_name t])) spans)
      | _ => Err EValue
      end
  | KCategoric =>
      match tc_value t with
      | PBox num d enc lv =>
          let enc' := match enc with Some e => e | None => Treatment None end in
          let cats := match lv with Some l => l | None => sort_levels num (present d) end in
          (* pd.Categorical(data, categories=levels) raises ValueError when levels= repeats an entry *)
          if negb (List.length (nodup_by String.eqb cats) =? List.length cats)%nat then Err EValue else
          do cm <- code enc' spans cats;
          Ok (DC t cats (Some cm) (code_rows (cmatrix cm) (contrast_width cm) (level_codes cats d))
                 (Some (map (fun l => tc_name t ++ "[" ++ l ++ "]") (clabels cm))) spans)
      | v =>
          do nd <- categoric_data v;
          let num := fst (fst nd) in
          let d := snd nd in
          if existsb (fun x => match x with None => true | _ => false end) d then Err EUnsupported else
          let cats := match snd (fst nd) with Some cs => cs | None => sort_levels num (present d) end in
          match tc_response t, tc_reference t with
          | true, Some ref =>
              Ok (DC t cats None
                     (map (fun x => [match x with
                                     | Some s => if String.eqb s ref then zcell 1 else zcell 0
                                     | None => zcell 0 end]) d)
                     (Some [tc_name t ++ "[" ++ ref ++ "]"]) spans)
          | _, _ =>
              do cm <- code (Treatment None) spans cats;
              Ok (DC t cats (Some cm) (code_rows (cmatrix cm) (contrast_width cm) (level_codes cats d))
                     (Some (map (fun l => tc_name t ++ "[" ++ l ++ "]") (clabels cm))) spans)
          end
      end
  | KOffset =>
      if tc_response t then Err EValue else
      match tc_value t with
      | POffset None xs => Ok (DC t [] None (map (fun x => [x]) xs) (Some [tc_name t]) spans)
      | POffset (Some q) _ => Ok (DC t [] None (repeat [Some q] nrows) (Some [tc_name t]) spans)
      | _ => Err EValue
      end
  | KProportion =>
      if negb (tc_response t) then Err EValue else
      match tc_value t with
      | PProp ss ts _ => Ok (DC t [] None (zip_with (fun a b => [a; b]) ss ts) None spans)
      | _ => Err EValue
      end
  end.

(* ---- get_interaction_matrix, row by row: the left factor varies slowest ---- *)
Definition row_kron (x y : list cell) : list cell :=
  flat_map (fun a => map (fun b => cmul a b) y) x.
Definition rows_kron (xs ys : list (list cell)) : list (list cell) := zip_with row_kron xs ys.

Definition label_product (ls : list (list string)) (sep : string) : list string :=
  fold_left (fun acc l => flat_map (fun a => map (fun b => a ++ sep ++ b) l) acc)
            (tl ls) (hd [] ls).

(* ---- terms ---- *)
Inductive tterm :=
| TTIntercept
| TTTerm (name : string) (comps : list tcomp).

Definition term_kind_info (t : tterm) : tinfo :=
  match t with
  | TTIntercept => TIntercept
  | TTTerm name [c] => TMain name (tc_kind c)
  | TTTerm name cs => TInter name (map (fun c => (tc_name c, tc_kind c)) cs)
  end.

Record dterm := DT {
  dt_name : string;
  dt_kind : string;
  dt_comps : list dcomp;
  dt_rows : list (list cell);
  dt_labels : option (list string)
}.

Definition set_type_term (cx : dctx) (data : frame) (is_response : bool) (t : term) : res tterm :=
  do cs <- mapM (set_type_comp cx data is_response) t;
  Ok (TTTerm (term_name t) cs).

Definition kind_string (k : ckind) : string :=
  match k with KNumeric => "numeric" | KCategoric => "categoric" | KOffset => "offset"
          | KProportion => "proportion" end.

(* spans: either one flag for every component, or a dict component name -> flag (default False) *)
Inductive spans_arg := SpBool (b : bool) | SpDict (d : subterm).

Definition spans_for (s : spans_arg) (name : string) : bool :=
  match s with
  | SpBool b => b
  | SpDict d => match assoc name d with Some b => b | None => false end
  end.

Definition set_data_term (nrows : nat) (t : tterm) (s : spans_arg) : res dterm :=
  match t with
  | TTIntercept => Ok (DT "Intercept" "intercept" [] (repeat [zcell 1] nrows) (Some ["Intercept"]))
  | TTTerm name cs =>
      do ds <- mapM (fun c => set_data_comp c (spans_for s (tc_name c)) nrows) cs;
      match ds with
      | [d] => Ok (DT name (kind_string (tc_kind (dc_t d))) ds (dc_rows d) (dc_labels d))
      | d :: rest =>
          do labs <- mapM (fun x => match dc_labels x with Some l => Ok l | None => Err EType end) ds;
          (* get_interaction_matrix ends in np.column_stack(l): an empty product (a component with
             no column, e.g. a one-level factor under reduced coding) raises ValueError *)
          if existsb (fun l => match l with [] => true | _ => false end) labs then Err EValue else
          Ok (DT name "interaction" ds
                 (fold_left rows_kron (map dc_rows rest) (dc_rows d))
                 (Some (label_product labs ":")))
      | [] => Err EIndex
      end
  end.

(* ---- group-specific terms ---- *)
Record tgterm := TG { tg_name : string; tg_expr : tterm; tg_factor : list tcomp; tg_factor_name : string }.

Definition force_categoric (c : tcomp) : tcomp :=
  TC (tc_name c) (tc_src c) KCategoric (tc_value c) (tc_state c) (tc_response c) (tc_reference c).

Definition set_type_gterm (cx : dctx) (data : frame) (g : gterm) : res tgterm :=
  match gfactor g with
  | CT f =>
      do fs <- mapM (set_type_comp cx data false) f;
      do e <- match gexpr g with
              | CI => Ok TTIntercept
              | CT t => set_type_term cx data false t
              | CN => Err EValue end;
      do nm <- gterm_name g;
      Ok (TG nm e (map force_categoric fs) (term_name f))
  | _ => Err EValue
  end.

Record dgterm := DG {
  dg_name : string;
  dg_kind : string;
  dg_expr : dterm;
  dg_factor : list dcomp;
  dg_groups : list string;
  dg_rows : list (list cell);
  dg_labels : list string;
  dg_factor_name : string
}.

Definition factor_rows (fs : list dcomp) : list (list cell) :=
  match fs with
  | d :: rest => fold_left rows_kron (map dc_rows rest) (dc_rows d)
  | [] => []
  end.

Definition set_data_gterm (nrows : nat) (g : tgterm) (spans : bool) : res dgterm :=
  do e <- set_data_term nrows (tg_expr g) (SpBool spans);
  do fs <- mapM (fun c => set_data_comp c true nrows) (tg_factor g);
  do glabs <- mapM (fun d => match dc_contrast d with Some c => Ok (clabels c) | None => Err EAttr end) fs;
  do flabs <- mapM (fun d => match dc_labels d with Some l => Ok l | None => Err EType end) fs;
  let groups := label_product glabs ":" in
  let factor_labels := label_product flabs ":" in
  do levels <- (if String.eqb (dt_kind e) "intercept" then Ok ["1"]
                else match dt_labels e with Some l => Ok l | None => Err EType end);
  Ok (DG (tg_name g) (dt_kind e) e fs groups
         (rows_kron (factor_rows fs) (dt_rows e))
         (flat_map (fun gr => map (fun lv => lv ++ "|" ++ gr) levels) factor_labels)
         (tg_factor_name g)).

(* ---- Model.eval ---- *)
Definition tterm_name (t : tterm) : string :=
  match t with TTIntercept => "Intercept" | TTTerm n _ => n end.

(* create_extra_term: the components named in the coding plus the numeric ones, re-typed *)
Definition extra_term (cx : dctx) (data : frame) (t : tterm) (sub : subterm) : res tterm :=
  match t with
  | TTIntercept => Err EAttr
  | TTTerm _ cs =>
      let picked := (filter (fun c => existsb (fun kv => String.eqb (fst kv) (tc_name c)) sub) cs
                     ++ filter (fun c => ckind_eqb (tc_kind c) KNumeric) cs)%list in
      Ok (TTTerm (concat_with ":" (map tc_name picked)) picked)
  end.

Fixpoint add_extra_terms (cx : dctx) (data : frame) (enc : list (string * list subterm))
         (ts : list tterm) : res (list tterm) :=
  match ts with
  | [] => Ok []
  | t :: r =>
      do r' <- add_extra_terms cx data enc r;
      match dict_get (tterm_name t) enc with
      | Some (s1 :: s2 :: more) =>
          do ex <- mapM (extra_term cx data t) (removelast (s1 :: s2 :: more));
          Ok (ex ++ t :: r')%list
      | _ => Ok (t :: r')
      end
  end.

Definition common_spans (enc : list (string * list subterm)) (t : tterm) : res spans_arg :=
  match dict_get (tterm_name t) enc with
  | Some (s :: _) => Ok (SpDict s)
  | Some [] => Err EIndex
  | None => Ok (SpBool false)
  end.

Definition cterm_is_term (c : cterm) : bool := match c with CT _ => true | _ => false end.

(* True unless the term is not an intercept and (1|same factor) is in the model *)
Definition group_spans (all : list gterm) (g : gterm) : bool :=
  match gexpr g with
  | CI => true
  | _ => negb (existsb (fun t => cterm_eqb (gfactor t) (gfactor g) &&
                                 match gexpr t with CI => true | _ => false end) all)
  end.

Record design := Design {
  ds_nrows : nat;
  ds_response : option dterm;
  ds_common : list dterm;
  ds_group : list dgterm
}.

Definition type_common (cx : dctx) (data : frame) (c : cterm) : res tterm :=
  match c with
  | CI => Ok TTIntercept
  | CT t => set_type_term cx data false t
  | CN => Err EUnsupported
  end.

(* diagnostic used to classify inputs: how many codings each common term receives in the first
   and in the second analysis (Model.eval applies exactly one, encodings[name][0]) *)
Definition coding_counts (cx : dctx) (data : frame) (m : model)
  : res (list (string * nat) * list (string * nat)) :=
  do tcs <- mapM (type_common cx data) (commons m);
  do enc1 <- encoding_bools (map term_kind_info tcs);
  do tcs2 <- add_extra_terms cx data enc1 tcs;
  do enc2 <- encoding_bools (map term_kind_info tcs2);
  let count enc t := (tterm_name t, match dict_get (tterm_name t) enc with
                                    | Some l => List.length l | None => 1 end) in
  Ok (map (count enc1) tcs, map (count enc2) tcs2).

Definition eval_model (cx : dctx) (data : frame) (m : model) : res design :=
  let n := frame_rows data in
  do tcs <- mapM (type_common cx data) (commons m);
  do tgs <- mapM (set_type_gterm cx data) (groups m);
  do enc1 <- encoding_bools (map term_kind_info tcs);
  do tcs2 <- add_extra_terms cx data enc1 tcs;
  do enc2 <- encoding_bools (map term_kind_info tcs2);
  do dcs <- mapM (fun t => do s <- common_spans enc2 t; set_data_term n t s) tcs2;
  do dgs <- mapM (fun p => set_data_gterm n (fst p) (group_spans (groups m) (snd p)))
                 (combine tgs (groups m));
  do r <- match resp m with
          | None => Ok None
          | Some t => do ty <- set_type_term cx data true t;
                      do d <- set_data_term n ty (SpBool true); Ok (Some d)
          end;
  (* CommonEffectsMatrix / GroupEffectsMatrix keep the terms in a dict keyed by name: a repeated
     name keeps its first position and its last value *)
  Ok (Design n r
        (map snd (fold_left (fun acc t => dict_set (dt_name t) t acc) dcs []))
        (map snd (fold_left (fun acc g => dict_set (dg_name g) g acc) dgs []))).

(* ---- design_matrices: column selection and the missing-value policy ---- *)
Definition comp_vars (c : comp) : list string :=
  match c with
  | CVar (NStr n) _ => [n]
  | CVar (NLit _) _ => []
  | CCall l => lazy_vars l
  end.
Definition term_vars (t : term) : list string := flat_map comp_vars t.
Definition cterm_vars (c : cterm) : list string := match c with CT t => term_vars t | _ => [] end.
Definition model_vars (m : model) : list string :=
  (flat_map cterm_vars (commons m) ++
   flat_map (fun g => cterm_vars (gexpr g) ++ cterm_vars (gfactor g)) (groups m) ++
   match resp m with Some t => term_vars t | None => [] end)%list.

Fixpoint or_rows (cols : list (list bool)) (n : nat) : list bool :=
  match cols with
  | [] => repeat false n
  | c :: r => zip_with orb c (or_rows r n)
  end.

Inductive na_action := NaDrop | NaError | NaPass.

Definition prepare_data (data : frame) (m : model) (na : na_action) : res frame :=
  if (frame_rows data =? 0)%nat then Err EValue else
  let used := model_vars m in
  let sel := filter (fun kv => existsb (String.eqb (fst kv)) used) data in
  let incomplete := or_rows (map (fun kv => col_missing (snd kv)) sel) (frame_rows data) in
  if existsb (fun b => b) incomplete then
    match na with
    | NaPass => Ok sel
    | NaDrop => Ok (map (fun kv => (fst kv, col_select (map negb incomplete) (snd kv))) sel)
    | NaError => Err EValue
    end
  else Ok sel.

Definition design_matrices (cx : dctx) (e : expr) (data : frame) (na : na_action) : res design :=
  do m <- describe e;
  do d <- prepare_data data m na;
  (* an empty selection keeps the row count: pandas keeps the index *)
  let d' := match d with [] => [("", ColNum true (repeat None (frame_rows data)))] | _ => d end in
  eval_model cx d' m.

(* ---- evaluate_new_data ---- *)
Record newres := NewRes { nr_rows : list (list cell); nr_warned : bool }.

Definition new_categoric (mode : unseen_mode) (d : dcomp) (xs : list (option string))
  : res (list (list cell) * bool) :=
  match dc_contrast d with
  | None => Err EAttr
  | Some cm =>
      let unseen := existsb (fun x => match x with
                                      | Some s => negb (existsb (String.eqb s) (dc_levels d))
                                      | None => true end) xs in
      let rows := code_rows (cmatrix cm) (contrast_width cm) (level_codes (dc_levels d) xs) in
      if negb unseen then Ok (rows, false)
      else match mode with
           | UError => Err EValue
           | UWarning => Ok (rows, true)
           | USilent => Ok (rows, false)
           end
  end.

Definition new_comp (cx : dctx) (mode : unseen_mode) (data : frame) (d : dcomp)
  : res (list (list cell) * bool) :=
  let t := dc_t d in
  let n := frame_rows data in
  match tc_src t with
  | CVar (NStr name) _ =>
      match assoc name data with
      | None => Err EKey
      | Some col =>
          match tc_kind t with
          | KNumeric =>
              match col with
              | ColNum _ xs => Ok (map (fun x => [x]) xs, false)
              | ColStr _ _ => Err EUnsupported
              end
          | _ => do nd <- categoric_data (col_value col); new_categoric mode d (snd nd)
          end
      end
  | CVar (NLit _) _ => Err EKey
  | CCall lz =>
      match tc_kind t with
      | KNumeric | KCategoric =>
          do r <- eval_lazy (ECtx data (d_extra cx) (d_sqrt cx) false) (tc_state t) lz;
          match tc_kind t, fst (fst r) with
          | KNumeric, PSeries _ xs => Ok (map (fun x => [x]) xs, false)
          | KNumeric, PMatrix rows => Ok (rows, false)
          | KNumeric, _ => Err EUnsupported
          | _, v => do nd <- categoric_data v; new_categoric mode d (snd nd)
          end
      | KOffset =>
          match tc_value t with
          | POffset (Some q) _ => Ok (repeat [Some q] n, false)
          | _ =>
              do r <- eval_lazy (ECtx data (d_extra cx) (d_sqrt cx) false) (tc_state t) lz;
              match fst (fst r) with
              | POffset None xs => Ok (map (fun x => [x]) xs, false)
              | POffset (Some q) _ => Err EAssert
              | _ => Err EAttr
              end
          end
      | KProportion =>
          match tc_value t, lz with
          | PProp _ _ (Some q), _ => Ok (repeat [Some q] n, false)
          | PProp _ _ None, LzCall _ [_; LzVar name] _ =>
              match assoc name data with
              | Some (ColNum _ xs) => Ok (map (fun x => [x]) xs, false)
              | Some _ => Err EUnsupported
              | None => Err EKey
              end
          | _, _ => Err EUnsupported
          end
      end
  end.

Definition new_term (cx : dctx) (mode : unseen_mode) (data : frame) (t : dterm)
  : res (list (list cell) * bool) :=
  if String.eqb (dt_kind t) "intercept" then Ok (repeat [zcell 1] (frame_rows data), false) else
  do parts <- mapM (new_comp cx mode data) (dt_comps t);
  match parts with
  | p :: rest =>
      Ok (fold_left rows_kron (map fst rest) (fst p), existsb (fun x => snd x) parts)
  | [] => Err EIndex
  end.

Definition hstack (blocks : list (list (list cell))) (n : nat) : list (list cell) :=
  fold_left (fun acc b => zip_with (fun x y => (x ++ y)%list) acc b) blocks (repeat [] n).

Definition new_common (cx : dctx) (mode : unseen_mode) (ds : design) (data : frame) : res newres :=
  do parts <- mapM (new_term cx mode data) (ds_common ds);
  Ok (NewRes (hstack (map fst parts) (frame_rows data)) (existsb (fun x => snd x) parts)).

Definition all_zero (r : list cell) : bool :=
  forallb (fun c => match c with Some q => Qc_eq_bool q q0 | None => false end) r.

Record newgroup := NewGroup {
  ng_rows : list (list cell);
  ng_slices : list (string * nat * nat);
  ng_new_factors : list string;
  ng_warned : bool
}.

Definition new_gterm (cx : dctx) (mode : unseen_mode) (data : frame) (g : dgterm)
  : res (list (list cell) * bool) :=
  do x <- new_term cx mode data (dg_expr g);
  do fparts <- mapM (new_comp cx mode data) (dg_factor g);
  match fparts with
  | p :: rest =>
      let j := fold_left rows_kron (map fst rest) (fst p) in
      let zero := map all_zero j in
      let j' := if existsb (fun b => b) zero
                then zip_with (fun r z => (r ++ [if z : bool then zcell 1 else zcell 0])%list) j zero
                else j in
      Ok (rows_kron j' (fst x), snd x || existsb (fun q => snd q) fparts)
  | [] => Err EIndex
  end.

Definition width (rows : list (list cell)) : nat :=
  match rows with r :: _ => List.length r | [] => O end.

Definition new_group (cx : dctx) (mode : unseen_mode) (ds : design) (data : frame) : res newgroup :=
  do parts <- mapM (new_gterm cx mode data) (ds_group ds);
  let step (acc : nat * list (string * nat * nat) * list string) (p : dgterm * (list (list cell) * bool)) :=
    let start := fst (fst acc) in
    let g := fst p in
    let w := width (fst (snd p)) in
    let nf := if negb (w =? width (dg_rows g))%nat &&
                 negb (existsb (String.eqb (dg_factor_name g)) (snd acc))
              then (snd acc ++ [dg_factor_name g])%list else snd acc in
    (start + w, (snd (fst acc) ++ [(dg_name g, start, start + w)])%list, nf) in
  let fin := fold_left step (combine (ds_group ds) parts) (0, [], []) in
  Ok (NewGroup (hstack (map fst parts) (frame_rows data)) (snd (fst fin)) (snd fin)
               (existsb (fun x => snd x) parts)).
