(* The single extracted entry point: one S-expression in, one string out.  Definitions only. *)
From Verif Require Import Base Tokens Scanner Parser Lazy Algebra Coding Contrasts Frame Eval Design.
From Verif Require TransformsCmd.
From Verif Require Import Env History.
Local Close Scope Qc_scope.
Local Close Scope Q_scope.
Local Open Scope string_scope.

Definition parse_string (s : string) : res expr := do ts <- scan s; parse ts.
Definition describe_string (s : string) : res model := do e <- parse_string s; describe e.

(* ---- decoding frames ---- *)
Definition dec_cell (x : sexp) : option cell :=
  match x with
  | SAtom "nan" => Some None
  | SAtom s => match qread s with Some q => Some (Some q) | None => None end
  | _ => None
  end.

Definition dec_ostr (x : sexp) : option string :=
  match x with SAtom s => Some s | SList _ => None end.

Fixpoint all_opt {T} (l : list (option T)) : option (list T) :=
  match l with
  | [] => Some []
  | Some x :: r => match all_opt r with Some r' => Some (x :: r') | None => None end
  | None :: _ => None
  end.

Definition dec_atoms (l : list sexp) : list string :=
  flat_map (fun x => match x with SAtom s => [s] | _ => [] end) l.

Definition dec_column (x : sexp) : option column :=
  match x with
  | SList [SAtom "num"; SAtom isint; SList cells] =>
      match all_opt (map dec_cell cells) with
      | Some cs => Some (ColNum (String.eqb isint "int") cs)
      | None => None
      end
  | SList [SAtom "str"; SList cats; SList vals] =>
      Some (ColStr (match cats with [] => None | _ => Some (dec_atoms cats) end) (map dec_ostr vals))
  | _ => None
  end.

Definition dec_frame (x : sexp) : option frame :=
  match x with
  | SList cols =>
      all_opt (map (fun c => match c with
                             | SList [SAtom name; col] =>
                                 match dec_column col with Some cc => Some (name, cc) | None => None end
                             | _ => None end) cols)
  | _ => None
  end.

Definition dec_extra (x : sexp) : list (string * pyval) :=
  match x with
  | SList l =>
      flat_map (fun e => match e with
                         | SList [SAtom n; SList (SAtom "strlist" :: vs)] => [(n, PStrList (dec_atoms vs))]
                         | SList [SAtom n; SList [SAtom "int"; SAtom v]] =>
                             match qread v with Some q => [(n, PNumber true q)] | None => [] end
                         | SList [SAtom n; SList [SAtom "str"; SAtom v]] => [(n, PStr v)]
                         | SList [SAtom n; SList [SAtom "opaque"]] => [(n, PBoolean true)]
                         | _ => [] end) l
  | _ => []
  end.

Definition dec_na (s : string) : option na_action :=
  if String.eqb s "drop" then Some NaDrop else if String.eqb s "error" then Some NaError
  else if String.eqb s "pass" then Some NaPass else None.

Definition dec_mode (s : string) : unseen_mode :=
  if String.eqb s "warning" then UWarning else if String.eqb s "silent" then USilent else UError.

(* ---- printing designs ---- *)
Definition rows_sexp (rows : list (list cell)) : sexp :=
  L (map (fun r => L (map (fun c => A (cshow c)) r)) rows).
Definition strs_sexp (l : list string) : sexp := L (map A l).
Definition ostrs_sexp (l : option (list string)) : sexp :=
  match l with Some x => L [A "some"; strs_sexp x] | None => L [] end.

Definition dterm_levels (t : dterm) : option (list string) :=
  (* Term.levels of a single-component term *)
  match dt_comps t with
  | [d] => match dc_contrast d with Some c => Some (clabels c) | None => None end
  | _ => None
  end.

Definition dterm_sexp (t : dterm) : sexp :=
  L [A (dt_name t); A (dt_kind t); ostrs_sexp (dt_labels t); rows_sexp (dt_rows t);
     ostrs_sexp (dterm_levels t)].

Definition dgterm_sexp (g : dgterm) : sexp :=
  L [A (dg_name g); A (dg_kind g); strs_sexp (dg_groups g); strs_sexp (dg_labels g);
     rows_sexp (dg_rows g)].

Definition design_sexp (d : design) : sexp :=
  L [match ds_response d with Some t => dterm_sexp t | None => L [] end;
     L (map dterm_sexp (ds_common d));
     L (map dgterm_sexp (ds_group d))].

Definition bool_sexp (b : bool) : sexp := A (if b then "true" else "false").

Definition newres_sexp (r : newres) : sexp := L [rows_sexp (nr_rows r); bool_sexp (nr_warned r)].
Definition newgroup_sexp (r : newgroup) : sexp :=
  L [rows_sexp (ng_rows r);
     L (map (fun s => L [A (fst (fst s)); AN (snd (fst s)); AN (snd s)]) (ng_slices r));
     strs_sexp (ng_new_factors r); bool_sexp (ng_warned r)].

(* ---- C11: scopes ---- *)
Fixpoint dec_obj (fuel : nat) (x : sexp) : obj :=
  match fuel with
  | O => Marker "?"
  | S f =>
      match x with
      | SList [SAtom "m"; SAtom v] => Marker v
      | SList [SAtom "mod"; SList attrs] =>
          Module (flat_map (fun a => match a with
                                     | SList [SAtom n; v] => [(n, dec_obj f v)]
                                     | _ => [] end) attrs)
      | _ => Marker "?"
      end
  end.
Definition dec_scope (x : sexp) : scope :=
  match x with
  | SList l => flat_map (fun a => match a with SList [SAtom n; v] => [(n, dec_obj 8 v)] | _ => [] end) l
  | _ => []
  end.
Definition dec_stack (x : sexp) : list pyframe :=
  match x with
  | SList l => flat_map (fun a => match a with SList [lo; gl] => [PyFrame (dec_scope lo) (dec_scope gl)] | _ => [] end) l
  | _ => []
  end.
Definition obj_sexp (o : obj) : sexp := match o with Marker m => A m | Module _ => A "<module>" end.

Section Run.
  Variable ksqrt : Qc -> Qc.

  (* Outside the modelled fragment: na_action = "pass" keeping a missing value of a str / Categorical
     column the formula uses (pandas codes it -1: numpy then takes the LAST row of the contrast matrix,
     or sorting NaN with strings raises TypeError).  The property C09 speaks of missing NUMERIC
     variables under "pass"; such inputs are reported as Unsupported and skipped by the correspondence. *)
  Definition pass_keeps_missing_level (e : expr) (f : frame) (n : na_action) : bool :=
    match n, describe e with
    | NaPass, Ok m =>
        existsb (fun kv => existsb (String.eqb (fst kv)) (model_vars m) &&
                           match snd kv with
                           | ColStr _ v => existsb (fun x => match x with None => true | _ => false end) v
                           | ColNum _ _ => false
                           end) f
    | _, _ => false
    end.

  Definition build_design (formula : string) (fr na extra : sexp) : res design :=
    do e <- parse_string formula;
    match dec_frame fr, na with
    | Some f, SAtom nas =>
        match dec_na nas with
        | Some n => if pass_keeps_missing_level e f n then Err EUnsupported
                    else design_matrices (DCtx (dec_extra extra) ksqrt) e f n
        | None => Err EValue
        end
    | _, _ => Err EAssert
    end.

  Definition run_cmd (cmd : string) (args : list sexp) : sexp :=
    match cmd, args with
    | "scan", [SAtom s] => res_sexp (fun ts => L (map tok_sexp ts)) (scan s)
    | "parse", [SAtom s] => res_sexp expr_sexp (parse_string s)
    | "describe", [SAtom s] =>
        res_sexp (fun x => x) (do m <- describe_string s; model_obs m)
    | "c01", [SAtom s] =>
        L [res_sexp expr_sexp (parse_string s);
           res_sexp (fun x => x) (do m <- describe_string s; model_obs m)]
    | "design", [SAtom formula; fr; na; extra] =>
        res_sexp design_sexp (build_design formula fr na extra)
    | "newdata", [SAtom formula; fr; na; extra; SAtom mode; SList news] =>
        match build_design formula fr na extra with
        | Err k => L [A "err"; A (errshow k)]
        | Ok d =>
            let cx := DCtx (dec_extra extra) ksqrt in
            L [A "ok"; design_sexp d;
               L (map (fun nf =>
                         match dec_frame nf with
                         | None => L [A "bad-frame"]
                         | Some f =>
                             L [match ds_common d with
                                | [] => L [A "none"]
                                | _ => res_sexp newres_sexp (new_common cx (dec_mode mode) d f) end;
                                match ds_group d with
                                | [] => L [A "none"]
                                | _ => res_sexp newgroup_sexp (new_group cx (dec_mode mode) d f) end]
                         end) news)]
        end
    | "c07", [SList formulas; SList frames; SList ops] =>
        let es := flat_map (fun f => match f with
                                     | SAtom s => match parse_string s with Ok e => [e] | Err _ => [ELiteral LNone None] end
                                     | _ => [] end) formulas in
        let frs := flat_map (fun f => match dec_frame f with Some x => [x] | None => [] end) frames in
        let p := Pools es frs (DCtx [] ksqrt) in
        let dec_op (x : sexp) : list op :=
          let num s := match zread s with Some z => Z.to_nat z | None => O end in
          match x with
          | SList [SAtom "build"; SAtom f; SAtom fr] => [OBuild (num f) (num fr)]
          | SList [SAtom "common"; SAtom d; SAtom fr] => [OEvalCommon (num d) (num fr)]
          | SList [SAtom "group"; SAtom d; SAtom fr] => [OEvalGroup (num d) (num fr)]
          | SList [SAtom "config"; SAtom v] => [OSetConfig v]
          | _ => []
          end in
        L (map (fun o => match o with
                         | OutDesign d => L [A "design"; res_sexp design_sexp d]
                         | OutCommon r => L [A "common"; res_sexp newres_sexp r]
                         | OutGroup r => L [A "group"; res_sexp newgroup_sexp r]
                         | OutConfig b => L [A "config"; bool_sexp b]
                         | OutBad => L [A "bad"] end)
               (snd (run p init_state (flat_map dec_op ops))))
    | "c11", [SAtom role; SAtom depth; SList path; data; builtins; stack; extra] =>
        let e := EnvIn (dec_scope data) (dec_scope builtins) (dec_stack stack) (dec_scope extra) in
        let d := match zread depth with Some z => Z.to_nat z | None => O end in
        res_sexp obj_sexp
          (if String.eqb role "arg"
           then match dec_atoms path with [x] => resolve_arg e d x | _ => Err EKey end
           else resolve_callee e d (dec_atoms path))
    | "c12", [SAtom formula; fr; na; extra] =>
        L [res_sexp (fun x => x) (do m <- describe_string formula; model_obs m);
           res_sexp design_sexp (build_design formula fr na extra)]
    | "c03", [SAtom formula; fr; na; extra] =>
        L [res_sexp design_sexp (build_design formula fr na extra);
           res_sexp (fun p => L [L (map (fun x => L [A (fst x); AN (snd x)]) (fst p));
                                 L (map (fun x => L [A (fst x); AN (snd x)]) (snd p))])
                    (do e <- parse_string formula;
                     do m <- describe e;
                     match dec_frame fr with
                     | Some f => do d <- prepare_data f m NaDrop;
                                 coding_counts (DCtx (dec_extra extra) ksqrt) d m
                     | None => Err EAssert end)]
    | "code", [SAtom enc; ref; SAtom spans; SList levels] =>
        let r := match ref with SAtom x => Some x | SList _ => None end in
        let e := if String.eqb enc "sum" then Sum r else Treatment r in
        res_sexp (fun c => L [L (map (fun row => L (map AZ row)) (cmatrix c)); strs_sexp (clabels c)])
                 (code e (String.eqb spans "full") (dec_atoms levels))
    | _, _ => TransformsCmd.transforms_cmd cmd args
    end.

  Definition run (x : sexp) : string :=
    match x with
    | SList (SAtom cmd :: args) => sshow (run_cmd cmd args)
    | _ => sshow (L [A "bad-input"])
    end.
End Run.
