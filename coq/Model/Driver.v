(* The single extracted entry point: one S-expression in, one string out.  Definitions only. *)
From Verif Require Import Base Tokens Scanner Parser Lazy Algebra.
Local Open Scope string_scope.

Definition parse_string (s : string) : res expr := do ts <- scan s; parse ts.
Definition describe_string (s : string) : res model := do e <- parse_string s; describe e.

Definition run_cmd (cmd : string) (args : list sexp) : sexp :=
  match cmd, args with
  | "scan", [SAtom s] => res_sexp (fun ts => L (map tok_sexp ts)) (scan s)
  | "parse", [SAtom s] => res_sexp expr_sexp (parse_string s)
  | "describe", [SAtom s] =>
      res_sexp (fun x => x) (do m <- describe_string s; model_obs m)
  | "c01", [SAtom s] =>
      L [res_sexp expr_sexp (parse_string s);
         res_sexp (fun x => x) (do m <- describe_string s; model_obs m)]
  | _, _ => L [A "bad-command"; A cmd]
  end.

Definition run (x : sexp) : string :=
  match x with
  | SList (SAtom cmd :: args) => sshow (run_cmd cmd args)
  | _ => sshow (L [A "bad-input"])
  end.
