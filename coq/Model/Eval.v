(* Lazy evaluation of call terms (formulae/terms/call_resolver.py LazyCall/LazyOperator/...),
   the built-in transforms that the design-matrix model supports (formulae/transforms.py) and
   CategoricalBox (formulae/categorical.py).  Anything outside the supported set evaluates to
   [Err EUnsupported]; the harness counts such cases and does not compare them.  Definitions only. *)
From Verif Require Import Base Tokens Lazy Coding Frame.
From Verif Require Spline Poly.
Local Close Scope Qc_scope.
Local Close Scope Q_scope.
Local Open Scope string_scope.

(* fitted parameters of stateful transforms, in evaluation order *)
Inductive tparam :=
| TPCenter (mean : cell)
| TPScale (mean sd : cell)
| TPBs (p : Spline.bs_params)
| TPPoly (raw : bool) (degree : nat) (p : Poly.poly_params).

Record ectx := ECtx {
  e_data : frame;
  e_extra : list (string * pyval);     (* caller locals / globals / extra_namespace, already merged *)
  e_sqrt : Qc -> Qc;                   (* numpy's sqrt, supplied by the driver *)
  e_fit : bool                         (* true: training pass (parameters are estimated and recorded) *)
}.

Definition builtin_value (name : string) : option pyval :=
  if String.eqb name "Treatment" then Some (PEncClass false)
  else if String.eqb name "Sum" then Some (PEncClass true)
  else None.

Definition stateful_names : list string := ["center"; "scale"; "standardize"; "bs"; "poly"].
Definition function_names : list string :=
  ["I"; "C"; "T"; "S"; "binary"; "B"; "offset"; "p"; "prop"; "proportion"; "Treatment"; "Sum"].

Definition col_value (c : column) : pyval :=
  match c with ColNum i v => PSeries i v | ColStr o v => PStrs o v end.

(* ---- numeric helpers ---- *)
Definition all_some (xs : list cell) : option (list Qc) :=
  fold_right (fun c acc => match c, acc with Some q, Some l => Some (q :: l) | _, _ => None end)
             (Some []) xs.
Definition qsum (l : list Qc) : Qc := fold_left Qcplus l q0.
Definition qlen (l : list Qc) : Qc := qz (Z.of_nat (List.length l)).
Definition mean (l : list Qc) : Qc := (qsum l / qlen l)%Qc.
Definition variance (l : list Qc) : Qc :=
  let m := mean l in (qsum (map (fun x => (x - m) * (x - m))%Qc l) / qlen l)%Qc.
(* np.mean of an array containing NaN is NaN *)
Definition cmean (xs : list cell) : cell :=
  match all_some xs with Some l => Some (mean l) | None => None end.
Definition cstd (sq : Qc -> Qc) (xs : list cell) : cell :=
  match all_some xs with Some l => Some (sq (variance l)) | None => None end.
Definition cdiv (a b : cell) : res cell :=
  match a, b with
  | Some x, Some y => if Qc_eq_bool y q0 then Err EUnsupported else Ok (Some (x / y)%Qc)
  | _, _ => Ok None
  end.

Fixpoint qpow (x : Qc) (n : nat) : Qc := match n with O => q1 | S k => (x * qpow x k)%Qc end.

Definition zip_with {X Y Z} (f : X -> Y -> Z) (a : list X) (b : list Y) : list Z :=
  map (fun p => f (fst p) (snd p)) (combine a b).

(* LazyOperator: Python's operator applied to series / scalars *)
Definition num_binop (sym : string) (ia ib : bool) (a b : cell) : res (bool * cell) :=
  if String.eqb sym "+" then Ok (ia && ib, cadd a b)
  else if String.eqb sym "-" then Ok (ia && ib, csub a b)
  else if String.eqb sym "*" then Ok (ia && ib, cmul a b)
  else if String.eqb sym "/" then (do c <- cdiv a b; Ok (false, c))
  else if String.eqb sym "**" then
    match b with
    | Some e =>
        if is_integer e && (0 <=? Qnum (this e))%Z && (Qnum (this e) <=? 8)%Z then
          Ok (ia && ib, match a with Some x => Some (qpow x (Z.to_nat (Qnum (this e)))) | None => None end)
        else Err EUnsupported
    | None => Err EUnsupported
    end
  else Err EUnsupported.

Definition apply_binop (sym : string) (a b : pyval) : res pyval :=
  match a, b with
  | PSeries ia xs, PSeries ib ys =>
      do l <- mapM (fun p => do r <- num_binop sym ia ib (fst p) (snd p); Ok (snd r)) (combine xs ys);
      do t <- num_binop sym ia ib (Some q1) (Some q1);
      Ok (PSeries (fst t) l)
  | PSeries ia xs, PNumber ib y =>
      do l <- mapM (fun x => do r <- num_binop sym ia ib x (Some y); Ok (snd r)) xs;
      do t <- num_binop sym ia ib (Some q1) (Some q1);
      Ok (PSeries (fst t) l)
  | PNumber ia x, PSeries ib ys =>
      do l <- mapM (fun y => do r <- num_binop sym ia ib (Some x) y; Ok (snd r)) ys;
      do t <- num_binop sym ia ib (Some q1) (Some q1);
      Ok (PSeries (fst t) l)
  | PNumber ia x, PNumber ib y =>
      do r <- num_binop sym ia ib (Some x) (Some y);
      match snd r with Some q => Ok (PNumber (fst r) q) | None => Err EUnsupported end
  | _, _ => Err EUnsupported
  end.

Definition apply_unop (sym : string) (a : pyval) : res pyval :=
  if String.eqb sym "+" then
    match a with PSeries _ _ | PNumber _ _ => Ok a | _ => Err EUnsupported end
  else if String.eqb sym "-" then
    match a with
    | PSeries i xs => Ok (PSeries i (map (fun c => match c with Some q => Some (- q)%Qc | None => None end) xs))
    | PNumber i q => Ok (PNumber i (- q)%Qc)
    | _ => Err EUnsupported
    end
  else Err EUnsupported.

(* ---- literals ---- *)
Definition float_q (ip fp : string) : Qc :=
  (qz (float_mant ip fp) / qz (z_pow10 (float_exp fp)))%Qc.

Definition lit_value (v : lit) : pyval :=
  match v with
  | LInt z => PNumber true (qz z)
  | LFloat ip fp => PNumber false (float_q ip fp)
  | LStr s => PStr s
  | LBool b => PBoolean b
  | LNone => PNoneV
  end.

(* ---- CategoricalBox ---- *)
Definition series_strings (v : pyval) : res (bool * option (list string) * list (option string)) :=
  match v with
  | PStrs o xs => Ok (false, o, xs)
  | PSeries true xs => Ok (true, None, map (fun c => match c with Some q => Some (int_label q) | None => None end) xs)
  | PSeries false _ => Err EUnsupported
  | _ => Err EValue
  end.

Definition same_set (a b : list string) : bool :=
  forallb (fun x => existsb (String.eqb x) b) a && forallb (fun x => existsb (String.eqb x) a) b.

Definition present (xs : list (option string)) : list string :=
  flat_map (fun x => match x with Some s => [s] | None => [] end) xs.

(* CategoricalBox(data, contrast, levels): the levels setter compares the two sets *)
Definition mk_box (num : bool) (ordered : option (list string)) (data : list (option string))
           (contrast : option encoding) (levels : option (list string)) : res pyval :=
  let levels' := match ordered, levels with Some cats, None => Some cats | _, _ => levels end in
  match levels' with
  | Some lv => if same_set lv (present data) then Ok (PBox num data contrast levels') else Err EValue
  | None => Ok (PBox num data contrast None)
  end.

Definition as_encoding (v : pyval) : res (option encoding) :=
  match v with
  | PNoneV => Ok None
  | PEncClass false => Ok (Some (Treatment None))
  | PEncClass true => Ok (Some (Sum None))
  | PEnc e => Ok (Some e)
  | _ => Err EValue
  end.

Definition as_levels (v : pyval) : res (option (list string)) :=
  match v with PNoneV => Ok None | PStrList l => Ok (Some l) | _ => Err EUnsupported end.

Definition as_label (v : pyval) : res (option string) :=
  match v with
  | PNoneV => Ok None
  | PStr s => Ok (Some s)
  | PNumber true q => Ok (Some (int_label q))
  | _ => Err EUnsupported
  end.

(* positional / keyword binding for the built-in signatures *)
Fixpoint bind_args (params : list string) (pos : list pyval) (kw : list (string * pyval))
  : res (list (string * pyval)) :=
  match params, pos with
  | [], [] =>
      Ok []
  | [], _ :: _ => Err EType
  | p :: ps, v :: vs =>
      if existsb (fun k => String.eqb (fst k) p) kw then Err EType
      else do r <- bind_args ps vs kw; Ok ((p, v) :: r)
  | p :: ps, [] =>
      do r <- bind_args ps [] kw;
      Ok (match assoc p kw with Some v => (p, v) :: r | None => r end)
  end.

Definition check_kw (params : list string) (kw : list (string * pyval)) : bool :=
  forallb (fun k => existsb (String.eqb (fst k)) params) kw.

Definition arg (name : string) (b : list (string * pyval)) : pyval :=
  match assoc name b with Some v => v | None => PNoneV end.

(* the functions of formulae.transforms that are plain functions *)
Definition call_function (cx : ectx) (name : string) (pos : list pyval) (kw : list (string * pyval))
  : res pyval :=
  let with_sig (params : list string) (required : nat) (k : list (string * pyval) -> res pyval) :=
    if negb (check_kw params kw) then Err EType
    else do b <- bind_args params pos kw;
         if forallb (fun p => existsb (fun x => String.eqb (fst x) p) b) (firstn required params)
         then k b else Err EType in
  if String.eqb name "I" then with_sig ["x"] 1 (fun b => Ok (arg "x" b))
  else if String.eqb name "Treatment" then
    with_sig ["reference"] 0 (fun b => do r <- as_label (arg "reference" b); Ok (PEnc (Treatment r)))
  else if String.eqb name "Sum" then
    with_sig ["omit"] 0 (fun b => do r <- as_label (arg "omit" b); Ok (PEnc (Sum r)))
  else if String.eqb name "C" then
    with_sig ["data"; "contrast"; "levels"] 1 (fun b =>
      do c <- as_encoding (arg "contrast" b);
      do lv <- as_levels (arg "levels" b);
      match arg "data" b with
      | PBox num d c0 lv0 =>
          mk_box num None d (match c with None => c0 | _ => c end) (match lv with None => lv0 | _ => lv end)
      | v => do s <- series_strings v; mk_box (fst (fst s)) (snd (fst s)) (snd s) c lv
      end)
  else if String.eqb name "S" then
    with_sig ["data"; "omit"; "levels"] 1 (fun b =>
      do o <- as_label (arg "omit" b);
      do lv <- as_levels (arg "levels" b);
      do s <- series_strings (arg "data" b);
      mk_box (fst (fst s)) (snd (fst s)) (snd s) (Some (Sum o)) lv)
  else if String.eqb name "T" then
    with_sig ["data"; "ref"; "levels"] 1 (fun b =>
      do o <- as_label (arg "ref" b);
      do lv <- as_levels (arg "levels" b);
      do s <- series_strings (arg "data" b);
      mk_box (fst (fst s)) (snd (fst s)) (snd s) (Some (Treatment o)) lv)
  else if String.eqb name "binary" || String.eqb name "B" then
    with_sig ["x"; "success"] 1 (fun b =>
      match arg "x" b with
      | PStrs _ xs =>
          do succ <- match arg "success" b with
                     | PNoneV => match sorted_unique_str (present xs) with s :: _ => Ok s | [] => Err EIndex end
                     | PStr s => Ok s
                     | _ => Err EUnsupported end;
          let hits := map (fun x => match x with Some s => String.eqb s succ | None => false end) xs in
          if existsb (fun h => h) hits
          then Ok (PSeries true (map (fun h => Some (if h : bool then q1 else q0)) hits))
          else Err EValue
      | PSeries i xs =>
          match all_some xs with
          | None => Err EUnsupported
          | Some l =>
              do succ <- match arg "success" b with
                         | PNoneV => match sorted_unique_qc l with s :: _ => Ok s | [] => Err EIndex end
                         | PNumber _ q => Ok q
                         | _ => Err EUnsupported end;
              let hits := map (fun x => Qc_eq_bool x succ) l in
              if existsb (fun h => h) hits
              then Ok (PSeries true (map (fun h => Some (if h : bool then q1 else q0)) hits))
              else Err EValue
          end
      | _ => Err EUnsupported
      end)
  else if String.eqb name "offset" then
    with_sig ["x"] 1 (fun b =>
      match arg "x" b with
      | PSeries _ xs => Ok (POffset None xs)
      | PNumber _ q => Ok (POffset (Some q) [])
      | _ => Err EValue
      end)
  else if String.eqb name "p" || String.eqb name "prop" || String.eqb name "proportion" then
    with_sig ["successes"; "trials"] 2 (fun b =>
      match arg "successes" b with
      | PSeries _ ss =>
          let n := List.length ss in
          do trs <- match arg "trials" b with
                   | PSeries _ ts => Ok (ts, None)
                   | PNumber true q => Ok (repeat (Some q) n, Some q)
                   | _ => Err EValue end;
          match all_some ss, all_some (fst trs) with
          | Some sl, Some tl =>
              if negb (forallb is_integer sl) then Err EValue
              else if negb (forallb is_integer tl) then Err EValue
              else if negb (forallb (fun p => qc_leb (fst p) (snd p)) (combine sl tl)) then Err EValue
              else Ok (PProp ss (fst trs) (snd trs))
          | _, _ => Err EUnsupported
          end
      | _ => Err EValue
      end)
  else Err EUnsupported.

(* stateful transforms: first call estimates and records the parameters, later calls reuse them *)
Definition opt_int (v : pyval) : res (option Z) :=
  match v with
  | PNoneV => Ok None
  | PNumber true q => Ok (Some (Qnum (this q)))
  | _ => Err EUnsupported
  end.
Definition opt_num (v : pyval) : res (option Qc) :=
  match v with PNoneV => Ok None | PNumber _ q => Ok (Some q) | _ => Err EUnsupported end.
Definition qrows (rows : list (list Qc)) : pyval := PMatrix (map (map (fun q => Some q)) rows).

(* bs(x, df, knots, degree, intercept, lower_bound, upper_bound) and poly(x, degree, raw):
   Model/Spline.v and Model/Poly.v; explicit knot lists are outside the supported argument set *)
Definition call_spline (cx : ectx) (name : string) (st : list tparam) (pos : list pyval)
           (kw : list (string * pyval)) : res (pyval * list tparam * list tparam) :=
  if String.eqb name "bs" then
    let params := ["x"; "df"; "knots"; "degree"; "intercept"; "lower_bound"; "upper_bound"] in
    if negb (check_kw params kw) then Err EType else
    do b <- bind_args params pos kw;
    match arg "x" b with
    | PSeries _ xs =>
        match all_some xs with
        | None => Err EUnsupported
        | Some l =>
            if e_fit cx then
              do df <- opt_int (arg "df" b);
              do _k <- match arg "knots" b with PNoneV => Ok tt | _ => Err EUnsupported end;
              do deg <- match assoc "degree" b with
                        | None => Ok 3%Z
                        | Some (PNumber true q) => Ok (Qnum (this q))
                        | Some _ => Err EValue end;
              do ic <- match assoc "intercept" b with
                       | None => Ok false | Some (PBoolean x) => Ok x | Some _ => Err EUnsupported end;
              do lo <- opt_num (arg "lower_bound" b);
              do hi <- opt_num (arg "upper_bound" b);
              do p <- Spline.bs_init l df None deg ic lo hi;
              do rows <- Spline.bs_apply p l;
              Ok (qrows rows, st, [TPBs p])
            else match st with
                 | TPBs p :: st' => do rows <- Spline.bs_apply p l; Ok (qrows rows, st', [])
                 | _ => Err EAssert end
        end
    | _ => Err EUnsupported
    end
  else
    let params := ["x"; "degree"; "raw"] in
    if negb (check_kw params kw) then Err EType else
    do b <- bind_args params pos kw;
    match arg "x" b with
    | PSeries _ xs =>
        match all_some xs with
        | None => Err EUnsupported
        | Some l =>
            if e_fit cx then
              do deg <- match assoc "degree" b with
                        | None => Ok 1%nat
                        | Some (PNumber true q) =>
                            if (0 <? Qnum (this q))%Z then Ok (Z.to_nat (Qnum (this q))) else Err EUnsupported
                        | Some _ => Err EUnsupported end;
              do raw <- match assoc "raw" b with
                        | None => Ok false | Some (PBoolean x) => Ok x | Some _ => Err EUnsupported end;
              let p := Poly.poly_fit l deg in
              do rows <- Poly.poly_eval (e_sqrt cx) raw deg p l;
              Ok (qrows rows, st, [TPPoly raw deg p])
            else match st with
                 | TPPoly raw deg p :: st' =>
                     do rows <- Poly.poly_eval (e_sqrt cx) raw deg p l; Ok (qrows rows, st', [])
                 | _ => Err EAssert end
        end
    | _ => Err EUnsupported
    end.

Definition call_stateful (cx : ectx) (name : string) (st : list tparam) (pos : list pyval)
           (kw : list (string * pyval)) : res (pyval * list tparam * list tparam) :=
  (* returns (value, remaining input state, parameters recorded by this call) *)
  if String.eqb name "bs" || String.eqb name "poly" then call_spline cx name st pos kw else
  if negb (check_kw ["x"] kw) then Err EType else
  do b <- bind_args ["x"] pos kw;
  match arg "x" b with
  | PSeries _ xs =>
      if String.eqb name "center" then
        if e_fit cx then
          let m := cmean xs in Ok (PSeries false (map (fun x => csub x m) xs), st, [TPCenter m])
        else match st with
             | TPCenter m :: st' => Ok (PSeries false (map (fun x => csub x m) xs), st', [])
             | _ => Err EAssert end
      else
        let go m sd :=
          do l <- mapM (fun x => cdiv (csub x m) sd) xs; Ok (PSeries false l) in
        if e_fit cx then
          let m := cmean xs in let sd := cstd (e_sqrt cx) xs in
          do v <- go m sd; Ok (v, st, [TPScale m sd])
        else match st with
             | TPScale m sd :: st' => do v <- go m sd; Ok (v, st', [])
             | _ => Err EAssert end
  | _ => Err EUnsupported
  end.

Definition lookup_name (cx : ectx) (name : string) : res pyval :=
  match assoc name (e_data cx) with
  | Some c => Ok (col_value c)
  | None =>
      match builtin_value name with
      | Some v => Ok v
      | None =>
          if existsb (String.eqb name) stateful_names || existsb (String.eqb name) function_names
          then Err EUnsupported  (* a function object used as a value *)
          else match assoc name (e_extra cx) with Some v => Ok v | None => Err EKey end
      end
  end.

(* LazyCall.eval / LazyOperator.eval / LazyVariable.eval / LazyValue.eval.
   State threading: [st] is the list of parameters still to be consumed (prediction pass); the
   second component of the result collects the parameters recorded (training pass), in the
   order the calls complete. *)
Fixpoint eval_lazy (cx : ectx) (st : list tparam) (l : lazy)
  : res (pyval * list tparam * list tparam) :=
  match l with
  | LzVar n => do v <- lookup_name cx n; Ok (v, st, [])
  | LzVal v _ => Ok (lit_value v, st, [])
  | LzOp sym [a] =>
      do ra <- eval_lazy cx st a;
      do v <- apply_unop sym (fst (fst ra));
      Ok (v, snd (fst ra), snd ra)
  | LzOp sym [a; b] =>
      do ra <- eval_lazy cx st a;
      do rb <- eval_lazy cx (snd (fst ra)) b;
      do v <- apply_binop sym (fst (fst ra)) (fst (fst rb));
      Ok (v, snd (fst rb), (snd ra ++ snd rb)%list)
  | LzOp _ _ => Err EUnsupported
  | LzCall callee args kwargs =>
      let known := existsb (String.eqb callee) stateful_names
                   || existsb (String.eqb callee) function_names in
      if negb known then
        (match assoc callee (e_extra cx) with Some _ => Err EUnsupported | None => Err EKey end)
      else
      do ra <-
        (fix go (args : list lazy) (st : list tparam) (vals : list pyval) (rec : list tparam) {struct args}
           : res (list pyval * list tparam * list tparam) :=
           match args with
           | [] => Ok (vals, st, rec)
           | a :: r =>
               do x <- eval_lazy cx st a;
               go r (snd (fst x)) (vals ++ [fst (fst x)])%list (rec ++ snd x)%list
           end) args st [] [];
      do rk <-
        (fix gok (kws : list (string * lazy)) (st : list tparam) (vals : list (string * pyval))
                 (rec : list tparam) {struct kws}
           : res (list (string * pyval) * list tparam * list tparam) :=
           match kws with
           | [] => Ok (vals, st, rec)
           | (k, a) :: r =>
               do x <- eval_lazy cx st a;
               gok r (snd (fst x)) (vals ++ [(k, fst (fst x))])%list (rec ++ snd x)%list
           end) kwargs (snd (fst ra)) [] (snd ra);
      let pos := fst (fst ra) in
      let kw := fst (fst rk) in
      let st' := snd (fst rk) in
      let rec := snd rk in
      if existsb (String.eqb callee) stateful_names then
        do r <- call_stateful cx callee st' pos kw;
        Ok (fst (fst r), snd (fst r), (rec ++ snd r)%list)
      else
        do v <- call_function cx callee pos kw; Ok (v, st', rec)
  end.

(* CallVarsExtractor: names of the variables in the arguments (not the callee) *)
Fixpoint lazy_vars (l : lazy) : list string :=
  match l with
  | LzVar n => [n]
  | LzVal _ _ => [""]
  | LzOp _ args => flat_map lazy_vars args
  | LzCall _ args kwargs => (flat_map lazy_vars args ++ flat_map (fun kv => lazy_vars (snd kv)) kwargs)%list
  end.
