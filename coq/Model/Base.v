(* Base definitions shared by every model file: result monad, error kinds, S-expressions
   (the wire format of the correspondence driver), decimal printing.  Definitions only. *)
From Coq Require Export List String Ascii ZArith Bool Arith.
From Coq Require Import DecimalString Decimal DecimalZ DecimalPos.
Export ListNotations.

Inductive errkind := OutOfFuel | EScan | EParse | EResolve | EType | EValue | EKey | EIndex | EAssert | EAttr | EUnsupported.

Inductive res (A : Type) := Ok (a : A) | Err (k : errkind).
Arguments Ok {A} a.
Arguments Err {A} k.

Definition bind {A B} (r : res A) (f : A -> res B) : res B :=
  match r with Ok a => f a | Err k => Err k end.
Notation "'do' x <- e ; f" := (bind e (fun x => f)) (at level 200, x pattern, e at level 100, f at level 200).

Definition is_ok {A} (r : res A) : bool := match r with Ok _ => true | Err _ => false end.

Fixpoint mapM {A B} (f : A -> res B) (l : list A) : res (list B) :=
  match l with
  | [] => Ok []
  | x :: xs => do y <- f x; do ys <- mapM f xs; Ok (y :: ys)
  end.

(* ---- S-expressions: the only data format crossing the OCaml boundary ---- *)
Inductive sexp := SAtom (s : string) | SList (l : list sexp).

Definition zshow (z : Z) : string := NilZero.string_of_int (Z.to_int z).
Definition nshow (n : nat) : string := zshow (Z.of_nat n).
Definition zread (s : string) : option Z :=
  match NilZero.int_of_string s with Some i => Some (Z.of_int i) | None => None end.

Local Open Scope string_scope.

Definition errshow (k : errkind) : string :=
  match k with
  | OutOfFuel => "OutOfFuel" | EScan => "Scan" | EParse => "Parse" | EResolve => "Resolve"
  | EType => "Type" | EValue => "Value" | EKey => "Key" | EIndex => "Index" | EAssert => "Assert"
  | EAttr => "Attr" | EUnsupported => "Unsupported" end.

Fixpoint concat_with (sep : string) (l : list string) : string :=
  match l with
  | [] => ""
  | [x] => x
  | x :: xs => x ++ sep ++ concat_with sep xs
  end.

(* Printing S-expressions: atoms are written between double quotes, backslash and double quote
   escaped, so any string survives the round trip through the line-oriented driver. *)
Fixpoint escape (s : string) : string :=
  match s with
  | EmptyString => EmptyString
  | String c r =>
      if Ascii.eqb c """"%char then String "\"%char (String c (escape r))
      else if Ascii.eqb c "\"%char then String "\"%char (String c (escape r))
      else if Ascii.eqb c (ascii_of_nat 10) then String "\"%char (String "n"%char (escape r))
      else if Ascii.eqb c (ascii_of_nat 9) then String "\"%char (String "t"%char (escape r))
      else if Ascii.eqb c (ascii_of_nat 13) then String "\"%char (String "r"%char (escape r))
      else String c (escape r)
  end.

Fixpoint sshow (x : sexp) : string :=
  match x with
  | SAtom s => """" ++ escape s ++ """"
  | SList l => "(" ++ concat_with " " (map sshow l) ++ ")"
  end.

Definition A (s : string) := SAtom s.
Definition L (l : list sexp) := SList l.
Definition AZ (z : Z) := SAtom (zshow z).
Definition AN (n : nat) := SAtom (nshow n).

Definition res_sexp {T} (f : T -> sexp) (r : res T) : sexp :=
  match r with Ok a => L [A "ok"; f a] | Err k => L [A "err"; A (errshow k)] end.

(* generic list helpers *)
Fixpoint existsb_eq {T} (eqb : T -> T -> bool) (x : T) (l : list T) : bool :=
  match l with [] => false | y :: ys => eqb x y || existsb_eq eqb x ys end.

Fixpoint list_eqb {T} (eqb : T -> T -> bool) (l1 l2 : list T) : bool :=
  match l1, l2 with
  | [], [] => true
  | x :: xs, y :: ys => eqb x y && list_eqb eqb xs ys
  | _, _ => false
  end.

Definition option_eqb {T} (eqb : T -> T -> bool) (a b : option T) : bool :=
  match a, b with
  | None, None => true
  | Some x, Some y => eqb x y
  | _, _ => false
  end.
