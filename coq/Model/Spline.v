(* Model of `BSpline` (formulae/transforms.py) over exact rationals.  Definitions only.

   bs_init   = BSpline._initialize : parameter validation, inner-knot placement, knot vector.
               Err EValue exactly where the Python raises ValueError:
                 degree < 0; df and knots both None; df too small for degree/intercept;
                 len(knots) <> implied number of inner knots; np.min/np.max of empty data when a
                 bound is None; lower_bound > upper_bound; some knot < lower or > upper.
               Err EIndex where np.percentile raises IndexError (empty data, df given, knots None).
   bs_apply  = BSpline.eval : one row of basis values per data point, first column dropped
               unless intercept.  Err EValue on empty data (scipy splev: "Invalid input data").

   np.percentile(x, 100*q) (default method 'linear'): on the sorted data s of length n,
     pos = q*(n-1), lo = floor pos, value = s[lo] + (pos - lo) * (s[lo+1] - s[lo]);
   q ranges over linspace(0,1,m+2)[1:-1] = i/(m+1), i = 1..m, so pos = i*(n-1)/(m+1) and floor
   and fractional part are an integer division and remainder.

   scipy.interpolate.splev(x, (t, e_i, k)) is FITPACK splev.f/fpbspl.f.  0-based, n = len t:
     l := k;  while l < n-k-2 and x >= t[l+1]: l := l+1          (find_interval)
     h := the k+1 values of the B-splines that can be non-zero on [t[l], t[l+1])  (fpbspl)
     value of basis function i  =  h[i-(l-k)] if l-k <= i <= l, else 0.
   (splev.f starts the search for later points at the previous l and can also walk downwards;
   on a non-decreasing knot vector the interval found is the same.)
   One stage j of fpbspl (`bspl_stage`), with f_i = 0 when t[l+i] = t[l+i-j] (the skip) and
   f_i = hh[i-1] / (t[l+i] - t[l+i-j]) otherwise (i = 1..j):
     h[m] = f_m * (x - t[l+m-j])  +  f_(m+1) * (t[l+m+1] - x)      (first term only for m >= 1,
                                                                    second only for m < j)
   which is exactly what the in-place Fortran loop leaves in h.

   Domain limits (not modelled): non-integer degree/df (type errors), knots of dimension > 1,
   NaN data, floating-point rounding. *)
From Verif Require Import Base Transforms.
From Coq Require Import QArith Qcanon.
Local Open Scope Qc_scope.

(* ---- sorting, min, max ---- *)
Fixpoint qinsert (a : Qc) (l : list Qc) : list Qc :=
  match l with
  | [] => [a]
  | b :: r => if qleb a b then a :: l else b :: qinsert a r
  end.
Definition qsort (l : list Qc) : list Qc := fold_right qinsert [] l.

Definition qmin (a b : Qc) : Qc := if qleb a b then a else b.
Definition qmax (a b : Qc) : Qc := if qleb a b then b else a.
Definition qmin_list (l : list Qc) : res Qc :=
  match l with [] => Err EValue | a :: r => Ok (fold_right qmin a r) end.
Definition qmax_list (l : list Qc) : res Qc :=
  match l with [] => Err EValue | a :: r => Ok (fold_right qmax a r) end.

(* ---- np.percentile, linear interpolation, at q = num/den on sorted data ---- *)
Definition percentile_lin (s : list Qc) (num den : nat) : Qc :=
  let p := (num * (List.length s - 1))%nat in
  let lo := (p / den)%nat in
  let r := (p mod den)%nat in
  let a := nth lo s 0 in
  if (r =? 0)%nat then a
  else a + (qofnat r / qofnat den) * (nth (S lo) s 0 - a).

Definition quantile_knots (x : list Qc) (m : nat) : res (list Qc) :=
  match x with
  | [] => Err EIndex
  | _ => let s := qsort x in Ok (map (fun i => percentile_lin s i (S m)) (seq 1 m))
  end.

(* ---- BSpline._initialize ---- *)
Record bs_params := { bs_knots : list Qc; bs_degree : nat; bs_intercept : bool }.

Definition bs_inner (x : list Qc) (df : option Z) (knots : option (list Qc)) (degree : Z)
    (intercept : bool) : res (list Qc) :=
  match df, knots with
  | None, None => Err EValue
  | None, Some ks => Ok ks
  | Some d, _ =>
      let n_inner := (d - (degree + 1) + (if intercept then 0 else 1))%Z in
      if (n_inner <? 0)%Z then Err EValue
      else match knots with
           | Some ks => if (Z.of_nat (List.length ks) =? n_inner)%Z then Ok ks else Err EValue
           | None => quantile_knots x (Z.to_nat n_inner)
           end
  end.

Definition all_knots (lo hi : Qc) (order : nat) (inner : list Qc) : list Qc :=
  qsort (List.concat (repeat [lo; hi] order) ++ inner).

Definition bs_init (x : list Qc) (df : option Z) (knots : option (list Qc)) (degree : Z)
    (intercept : bool) (lower upper : option Qc) : res bs_params :=
  if (degree <? 0)%Z then Err EValue else
  do inner <- bs_inner x df knots degree intercept;
  do lo <- match lower with Some l => Ok l | None => qmin_list x end;
  do hi <- match upper with Some u => Ok u | None => qmax_list x end;
  if qltb hi lo then Err EValue else
  if existsb (fun t => qltb t lo) inner then Err EValue else
  if existsb (fun t => qltb hi t) inner then Err EValue else
  Ok {| bs_knots := all_knots lo hi (S (Z.to_nat degree)) inner;
        bs_degree := Z.to_nat degree;
        bs_intercept := intercept |}.

(* ---- FITPACK evaluation ---- *)
Fixpoint find_interval (t : list Qc) (x : Qc) (lmax fuel l : nat) : nat :=
  match fuel with
  | O => l
  | S f => if (l <? lmax)%nat && qleb (nth (S l) t 0) x
           then find_interval t x lmax f (S l) else l
  end.

(* one stage of the de Boor-Cox recurrence; `i` is the Fortran loop index (starts at 1),
   `carry` the part of h[i-1] already produced by the previous iteration *)
Fixpoint bspl_stage (t : list Qc) (x : Qc) (l j i : nat) (carry : Qc) (hh : list Qc) : list Qc :=
  match hh with
  | [] => [carry]
  | a :: rest =>
      let tli := nth (l + i) t 0 in
      let tlj := nth (l + i - j) t 0 in
      let f := if qeqb tli tlj then 0 else a / (tli - tlj) in
      (carry + f * (tli - x)) :: bspl_stage t x l j (S i) (f * (x - tlj)) rest
  end.

Fixpoint fpbspl (t : list Qc) (x : Qc) (l k : nat) : list Qc :=
  match k with
  | O => [1]
  | S k' => bspl_stage t x l k 1 0 (fpbspl t x l k')
  end.

Definition bs_interval (t : list Qc) (k : nat) (x : Qc) : nat :=
  let lmax := (List.length t - k - 2)%nat in find_interval t x lmax (lmax - k) k.

Definition bs_row (t : list Qc) (k : nat) (x : Qc) : list Qc :=
  let l := bs_interval t k x in
  let h := fpbspl t x l k in
  map (fun i => if ((l - k <=? i) && (i <=? l))%nat then nth (i - (l - k)) h 0 else 0)
      (seq 0 (List.length t - (k + 1))).

Definition bs_apply (p : bs_params) (xs : list Qc) : res (list (list Qc)) :=
  match xs with
  | [] => Err EValue
  | _ => Ok (map (fun x => let r := bs_row (bs_knots p) (bs_degree p) x in
                           if bs_intercept p then r else tl r) xs)
  end.
