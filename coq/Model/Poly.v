(* Model of `Polynomial` (formulae/transforms.py) over exact rationals.  Definitions only.

   raw=True : columns x^1 .. x^degree (np.column_stack raises ValueError when degree = 0).
   raw=False: P_0 = 1,  P_i = (x - alpha[i-1]) * P_(i-1) - beta[i-1] * P_(i-2)   (second term only
              for i >= 2),  alpha[k] = sum(x * P_k^2) / sum(P_k^2),  norms2[k] = sum(P_k^2),
              beta[k] = norms2[k] / norms2[k-1];  column k is divided by sqrt(norms2[k]) and the
              first column is dropped.
   `alpha` and `norms2` are memoised in dictionaries on the first call and reused afterwards:
     poly_fit xs degree          = the dictionaries after the first call (alpha[0..degree-1],
                                   norms2[0..degree]), all computed from the first data;
     poly_apply ksqrt params ys  = the rows produced for data ys with those dictionaries
                                   (ys = first data gives the result of the first call).
   The fit carries, for every data point, the triple (x, P_(i-1)(x), P_i(x)).
   The square root is the function argument `ksqrt`.

   Domain limits (not modelled): `Polynomial.params_set` is never set to True, so degree/raw are
   re-read on every call (the model assumes the same degree/raw on later calls, as happens when a
   formula is re-evaluated on new data); a larger degree on a later call would compute the missing
   alpha/norms2 from the later data.  degree < 0.  Division by zero (fewer than degree+1 distinct
   abscissae): numpy gives nan/inf, Qc gives 0. *)
From Verif Require Import Base Transforms.
From Coq Require Import QArith Qcanon.
Local Open Scope Qc_scope.

Record poly_params := { poly_alpha : list Qc; poly_norms2 : list Qc }.

Definition poly_next (first : bool) (a b x pp pc : Qc) : Qc :=
  if first then (x - a) * pc else (x - a) * pc - b * pp.

Fixpoint poly_fit_loop (steps : nat) (first : bool) (nprev : Qc) (pts : list (Qc * Qc * Qc))
    : list Qc * list Qc :=
  let ncur := qsum (map (fun p => snd p * snd p) pts) in
  match steps with
  | O => ([], [ncur])
  | S s =>
      let a := qsum (map (fun p => fst (fst p) * (snd p * snd p)) pts) / ncur in
      let b := ncur / nprev in
      let pts' := map (fun p => (fst (fst p), snd p,
                                 poly_next first a b (fst (fst p)) (snd (fst p)) (snd p))) pts in
      let r := poly_fit_loop s false ncur pts' in
      (a :: fst r, ncur :: snd r)
  end.

Definition poly_fit (xs : list Qc) (degree : nat) : poly_params :=
  let r := poly_fit_loop degree true 1 (map (fun x => (x, 0, 1)) xs) in
  {| poly_alpha := fst r; poly_norms2 := snd r |}.

(* unnormalised P_1(x) .. P_d(x) from alpha[0..d-1] and norms2[0..] *)
Fixpoint poly_point_loop (alphas norms : list Qc) (first : bool) (nprev pp pc x : Qc) : list Qc :=
  match alphas, norms with
  | a :: als, ncur :: ns =>
      let pn := poly_next first a (ncur / nprev) x pp pc in
      pn :: poly_point_loop als ns false ncur pc pn x
  | _, _ => []
  end.

Definition poly_point (p : poly_params) (x : Qc) : list Qc :=
  poly_point_loop (poly_alpha p) (poly_norms2 p) true 1 0 1 x.

Definition poly_row (ksqrt : Qc -> Qc) (p : poly_params) (x : Qc) : list Qc :=
  map (fun pn => fst pn / ksqrt (snd pn)) (combine (poly_point p x) (tl (poly_norms2 p))).

Definition poly_apply (ksqrt : Qc -> Qc) (p : poly_params) (xs : list Qc) : list (list Qc) :=
  map (poly_row ksqrt p) xs.

Definition poly_raw_row (degree : nat) (x : Qc) : list Qc :=
  map (fun k => x ^ k) (seq 1 degree).

(* Polynomial.eval for either value of `raw` *)
Definition poly_eval (ksqrt : Qc -> Qc) (raw : bool) (degree : nat) (p : poly_params)
    (xs : list Qc) : res (list (list Qc)) :=
  if raw then (if (degree =? 0)%nat then Err EValue else Ok (map (poly_raw_row degree) xs))
  else Ok (poly_apply ksqrt p xs).
