(* Soundness of the parser model with respect to the grammar: whatever the parser accepts is a
   sentence whose derivation accounts for every consumed token. *)
From Verif Require Import Base Tokens Parser Grammar.
From Coq Require Import Lia.

Definition Lang := list token -> expr -> Prop.

Definition sound (p : P) (D : Lang) : Prop :=
  forall ts e rest, p ts = Ok (e, rest) -> exists pre, ts = pre ++ rest /\ D pre e.

Lemma bind_ok {A B} (r : res A) (f : A -> res B) b :
  bind r f = Ok b -> exists a, r = Ok a /\ f a = Ok b.
Proof. destruct r as [a|k]; simpl; intros H; [eauto | discriminate]. Qed.

Lemma kind_eqb_eq a b : kind_eqb a b = true <-> a = b.
Proof. unfold kind_eqb; destruct (kind_eq_dec a b); split; congruence. Qed.

Lemma kind_eqb_neq a b : kind_eqb a b = false <-> a <> b.
Proof. unfold kind_eqb; destruct (kind_eq_dec a b); split; congruence. Qed.

Lemma match_tok_some ks ts t r :
  match_tok ks ts = Some (t, r) -> ts = t :: r /\ is_kind ks t = true /\ tkind t <> EOF.
Proof.
  destruct ts as [|t' r']; simpl; [discriminate|].
  destruct (kind_eqb (tkind t') EOF) eqn:He; simpl; [discriminate|].
  destruct (is_kind ks t') eqn:Hk; [|discriminate].
  intros H; inversion H; subst. repeat split; auto. now apply kind_eqb_neq.
Qed.

Lemma is_kind_single k t : is_kind [k] t = true -> tkind t = k.
Proof. unfold is_kind; simpl. rewrite orb_false_r. apply kind_eqb_eq. Qed.

Lemma consume_ok k ts r : consume k ts = Ok r -> exists t, ts = t :: r /\ tkind t = k.
Proof.
  unfold consume. destruct (match_tok [k] ts) as [[t r']|] eqn:Hm; [|discriminate].
  intros H; inversion H; subst. apply match_tok_some in Hm as (-> & Hk & _).
  exists t; split; auto. now apply is_kind_single.
Qed.

(* ---- binary levels ---- *)
Section Levels.
  Variable next : P.
  Variable c : list (list kind).
  Variable ks : list kind.
  Hypothesis next_sound : sound next (DLev c).

  Lemma binloop_sound m :
    forall e0 ts e rest pre0,
      DLev (ks :: c) pre0 e0 ->
      binloop next ks m e0 ts = Ok (e, rest) ->
      exists pre, ts = pre ++ rest /\ DLev (ks :: c) (pre0 ++ pre) e.
  Proof.
    induction m as [|m IH]; intros e0 ts e rest pre0 H0 H; simpl in H; [discriminate|].
    destruct (match_tok ks ts) as [[op ts']|] eqn:Hm.
    - apply match_tok_some in Hm as (-> & Hk & Hne).
      apply bind_ok in H as ((r & ts'') & Hn & H).
      apply next_sound in Hn as (pr & -> & Dr).
      eapply IH in H as (pre & -> & D); [|eapply DL_bin; eauto].
      exists (op :: pr ++ pre). split.
      + simpl. now rewrite <- app_assoc.
      + rewrite <- app_assoc in D. exact D.
    - inversion H; subst. exists []. split; auto. now rewrite app_nil_r.
  Qed.

  Lemma binlevel_sound : sound (binlevel next ks) (DLev (ks :: c)).
  Proof.
    intros ts e rest H. unfold binlevel in H.
    apply bind_ok in H as ((e0 & ts') & Hn & H).
    apply next_sound in Hn as (pr & -> & D0).
    eapply binloop_sound in H as (pre & -> & D); [|eapply DL_up; eauto].
    exists (pr ++ pre). split; auto. now rewrite app_assoc.
  Qed.
End Levels.

Lemma levels_sound base c : sound base (DLev []) -> sound (levels base c) (DLev c).
Proof.
  intros Hb. induction c as [|ks c IH]; simpl; auto.
  apply binlevel_sound; auto.
Qed.

(* ---- primary, call, unary ---- *)
Section Inner.
  Variable expression : P.
  Hypothesis expr_sound : sound expression DExpr.

  Lemma primary_nobracket_sound : sound (primary_nobracket expression) DPrimary.
  Proof.
    intros ts e rest H. unfold primary_nobracket in H.
    destruct ts as [|t r]; [discriminate|].
    destruct (tkind t) eqn:Hk; try discriminate.
    - (* LEFT_PAREN *)
      apply bind_ok in H as ((e1 & r') & He & H).
      apply bind_ok in H as (r'' & Hc & H). inversion H; subst.
      apply expr_sound in He as (pre & -> & D).
      apply consume_ok in Hc as (rp & -> & Hrp).
      exists (t :: pre ++ [rp]). split; [simpl; now rewrite <- app_assoc|].
      now apply DP_group.
    - (* LEFT_BRACE *)
      apply bind_ok in H as ((e1 & r') & He & H).
      apply bind_ok in H as (r'' & Hc & H). inversion H; subst.
      apply expr_sound in He as (pre & -> & D).
      apply consume_ok in Hc as (rp & -> & Hrp).
      exists (t :: pre ++ [rp]). split; [simpl; now rewrite <- app_assoc|].
      now apply DP_brace.
    - (* NUMBER *)
      destruct (literal t) as [v|] eqn:Hl; [|discriminate]. inversion H; subst.
      exists [t]; split; auto. apply DP_number; auto.
    - (* IDENTIFIER *)
      inversion H; subst. exists [t]; split; auto. now apply DP_var.
    - (* PYTHON_LITERAL *)
      destruct (literal t) as [v|] eqn:Hl; [|discriminate]. inversion H; subst.
      exists [t]; split; auto. apply DP_number; auto.
    - (* STRING *)
      destruct (literal t) as [v|] eqn:Hl; [|discriminate]. inversion H; subst.
      exists [t]; split; auto. now apply DP_string.
    - (* BQNAME *)
      inversion H; subst. exists [t]; split; auto. now apply DP_bqname.
  Qed.

  Lemma primary_sound m : sound (primary expression m) DPrimary.
  Proof.
    induction m as [|m IH]; intros ts e rest H.
    - destruct ts as [|t [|b r]]; simpl in H; try (now apply primary_nobracket_sound).
      destruct (kind_eqb (tkind t) IDENTIFIER && kind_eqb (tkind b) LEFT_BRACKET);
        [discriminate | now apply primary_nobracket_sound].
    - destruct ts as [|t [|b r]]; simpl in H; try (now apply primary_nobracket_sound).
      destruct (kind_eqb (tkind t) IDENTIFIER && kind_eqb (tkind b) LEFT_BRACKET) eqn:Hb;
        [|now apply primary_nobracket_sound].
      apply andb_prop in Hb as (Ht & Hlb). apply kind_eqb_eq in Ht, Hlb.
      apply bind_ok in H as ((lv & r') & Hp & H).
      apply bind_ok in H as (lv' & Hlc & H).
      apply bind_ok in H as (r'' & Hc & H). inversion H; subst.
      apply IH in Hp as (pre & -> & D).
      apply consume_ok in Hc as (rb & -> & Hrb).
      exists (t :: b :: pre ++ [rb]). split; [simpl; now rewrite <- app_assoc|].
      eapply DP_level; eauto.
  Qed.

  Lemma args_loop_sound m :
    forall acc ts args rest,
      args_loop expression m acc ts = Ok (args, rest) ->
      exists pre more, ts = pre ++ rest /\ args = acc ++ more /\ DArgs pre more.
  Proof.
    induction m as [|m IH]; intros acc ts args rest H; simpl in H; [discriminate|].
    apply bind_ok in H as ((a & r) & He & H).
    apply expr_sound in He as (pa & -> & Da).
    destruct (match_tok [COMMA] r) as [[c r']|] eqn:Hm.
    - apply match_tok_some in Hm as (-> & Hk & _). apply is_kind_single in Hk.
      apply IH in H as (pre & more & -> & -> & D).
      exists (pa ++ c :: pre), (a :: more). repeat split.
      + now rewrite <- app_assoc.
      + now rewrite <- app_assoc.
      + now apply DA_cons.
    - inversion H; subst. exists pa, [a]. repeat split; auto. now apply DA_one.
  Qed.

  Lemma finishcall_sound callee ts e rest pre0 lp :
    DCall pre0 callee -> tkind lp = LEFT_PAREN ->
    finishcall expression callee ts = Ok (e, rest) ->
    exists pre, ts = pre ++ rest /\ DCall (pre0 ++ lp :: pre) e.
  Proof.
    intros D0 Hlp H. unfold finishcall in H.
    destruct (match_tok [RIGHT_PAREN] ts) as [[rp r]|] eqn:Hm.
    - apply bind_ok in H as (r' & Hc & H). inversion H; subst.
      apply consume_ok in Hc as (rp' & -> & Hrp).
      exists [rp']. split; auto.
      replace (pre0 ++ [lp; rp']) with (pre0 ++ [lp; rp']) by auto.
      now apply DC_call0.
    - apply bind_ok in H as ((args & r) & Ha & H).
      apply bind_ok in H as (r' & Hc & H). inversion H; subst.
      apply args_loop_sound in Ha as (pre & more & -> & -> & Da).
      apply consume_ok in Hc as (rp & -> & Hrp).
      exists (pre ++ [rp]). split; [now rewrite <- app_assoc|].
      simpl. now apply DC_call.
  Qed.

  Lemma call_loop_sound m :
    forall e0 ts e rest pre0,
      DCall pre0 e0 ->
      call_loop expression m e0 ts = Ok (e, rest) ->
      exists pre, ts = pre ++ rest /\ DCall (pre0 ++ pre) e.
  Proof.
    induction m as [|m IH]; intros e0 ts e rest pre0 D0 H; simpl in H; [discriminate|].
    destruct (match_tok [LEFT_PAREN] ts) as [[lp r]|] eqn:Hm.
    - apply match_tok_some in Hm as (-> & Hk & _). apply is_kind_single in Hk.
      apply bind_ok in H as ((e' & r') & Hf & H).
      eapply finishcall_sound in Hf as (p1 & -> & D1); eauto.
      eapply IH in H as (p2 & -> & D2); eauto.
      exists (lp :: p1 ++ p2). split; [simpl; now rewrite <- app_assoc|].
      rewrite <- app_assoc in D2. exact D2.
    - inversion H; subst. exists []. split; auto. now rewrite app_nil_r.
  Qed.

  Lemma call_sound : sound (call expression) DCall.
  Proof.
    intros ts e rest H. unfold call in H.
    apply bind_ok in H as ((e0 & r) & Hp & H).
    apply primary_sound in Hp as (p0 & -> & D0).
    eapply call_loop_sound in H as (p1 & -> & D1); [|eapply DC_primary; eauto].
    exists (p0 ++ p1). split; auto. now rewrite app_assoc.
  Qed.

  Lemma unary_sound : sound (unary expression) DUnary.
  Proof.
    intros ts. induction ts as [|t r IH]; intros e rest H; cbn [unary] in H.
    - apply call_sound in H as (pre & Hp & D). exists pre; split; auto. now apply DU_call.
    - destruct (negb (kind_eqb (tkind t) EOF) && is_kind unary_kinds t) eqn:Hu.
      + apply andb_prop in Hu as (Hne & Hk).
        apply bind_ok in H as ((e1 & r') & Hr & H). inversion H; subst.
        apply IH in Hr as (pre & -> & D).
        exists (t :: pre). split; auto. apply DU_sign; auto.
        apply negb_true_iff in Hne. now apply kind_eqb_neq.
      + apply call_sound in H as (pre & Hp & D). exists pre; split; auto. now apply DU_call.
  Qed.

  Lemma unary_sound_lev : sound (unary expression) (DLev []).
  Proof.
    intros ts e rest H. apply unary_sound in H as (pre & Hp & D).
    exists pre; split; auto. now apply DL_base.
  Qed.

  Lemma tilde_sound ts e rest :
    tilde expression ts = Ok (e, rest) ->
    exists pre, ts = pre ++ rest /\
      (DLev precedence pre e \/
       exists tl l op tr r, pre = tl ++ op :: tr /\ e = EBinary l op r /\
         DLev precedence tl l /\ tkind op = TILDE /\ DLev additive_suffix tr r).
  Proof.
    intros H. unfold tilde in H.
    apply bind_ok in H as ((l & r) & Hl & H).
    apply (levels_sound _ chain unary_sound_lev) in Hl as (pl & -> & Dl).
    destruct (match_tok [TILDE] r) as [[op r']|] eqn:Hm.
    - apply match_tok_some in Hm as (-> & Hk & _). apply is_kind_single in Hk.
      apply bind_ok in H as ((rt & r'') & Hr & H). inversion H; subst.
      apply (levels_sound _ _ unary_sound_lev) in Hr as (pr & -> & Dr).
      exists (pl ++ op :: pr). split; [now rewrite <- app_assoc|].
      right. exists pl, l, op, pr, rt. repeat split; auto.
    - inversion H; subst. exists pl. split; auto.
  Qed.

  Lemma assignment_sound : sound (assignment expression) DExpr.
  Proof.
    intros ts e rest H. unfold assignment in H.
    apply bind_ok in H as ((l & r) & Hl & H).
    apply tilde_sound in Hl as (pl & -> & Dl).
    destruct (match_tok [EQUAL] r) as [[op r']|] eqn:Hm.
    - apply match_tok_some in Hm as (-> & Hk & _). apply is_kind_single in Hk.
      apply bind_ok in H as ((rt & r'') & Hr & H).
      apply (levels_sound _ _ unary_sound_lev) in Hr as (pr & -> & Dr).
      destruct l; try discriminate. inversion H; subst.
      exists (pl ++ op :: pr). split; [now rewrite <- app_assoc|].
      destruct Dl as [Dl | (tl & l & op' & tr & r & _ & Habs & _)]; [|discriminate].
      now apply DE_assign.
    - inversion H; subst. exists pl. split; auto.
      destruct Dl as [Dl | (tl & l & op' & tr & r0 & -> & -> & D1 & Hop & D2)].
      + now apply DE_plain.
      + now apply DE_tilde.
  Qed.
End Inner.

Lemma expression_sound fuel : sound (expression fuel) DExpr.
Proof.
  induction fuel as [|f IH]; simpl.
  - intros ts e rest H; discriminate.
  - now apply assignment_sound.
Qed.

Theorem parse_sound ts e : parse ts = Ok e -> Sentence ts e.
Proof.
  unfold parse, parse_with, parse_checks_eof. intros H.
  destruct ts as [|t ts]; [discriminate|].
  apply bind_ok in H as ((e' & r) & He & H).
  destruct (at_end r) eqn:Hend; [|discriminate]. inversion H; subst.
  apply expression_sound in He as (pre & Hp & D).
  exists pre, r. auto.
Qed.

(* the tokens of an accepted list are exactly those of the derivation plus the end marker *)
Corollary parse_no_leftover ts e :
  parse ts = Ok e -> exists body rest, ts = body ++ rest /\ at_end rest = true /\ DExpr body e.
Proof. exact (parse_sound ts e). Qed.
