(* Non-vacuity examples and refuted non-examples for PredictionGroups.v. *)
From Verif Require Import Base Tokens Lazy Algebra Coding Contrasts Frame Eval Design Scanner Parser Driver.
From Verif Require Import DesignStructure DesignCoding FrameStructure Unseen PermKernel Prediction PredictionGroups PermSpline.
From Coq Require Import Lia Permutation.
Local Close Scope Qc_scope.
Local Close Scope Q_scope.
Local Open Scope string_scope.
Local Open Scope list_scope.
Local Open Scope nat_scope.

Definition q (z : Z) : cell := Some (qz z).
Definition get {T} (d : T) (r : res T) : T := match r with Ok x => x | Err _ => d end.
Definition show (rows : list (list cell)) : list (list string) := map (map cshow) rows.
Definition mdl (s : string) : model := get (Mod None [] []) (describe_string s).
Definition design0 : design := Design 0 None [] [].
Definition cx0 : dctx := DCtx [] (fun x => x).

(* f: strings; k: integers used as a grouping factor (coded on its labels "3", "7", "11") *)
Definition D1 : frame :=
  [("y", ColNum false [q 1; q 2; q 3; q 4; q 5]);
   ("x", ColNum true [q 2; q 4; q 6; q 8; q 10]);
   ("k", ColNum true [q 7; q 3; q 7; q 3; q 11]);
   ("f", ColStr None [Some "b"; Some "a"; Some "c"; Some "a"; Some "b"]);
   ("h", ColStr None [Some "b"; None; Some "c"; Some "a"; Some "b"])].

Definition m1 : model := Eval vm_compute in mdl "y ~ x + (x|f) + (1|k) + (1|f:k) + (center(x)|f)".
Definition ds1 : design := Eval vm_compute in get design0 (eval_model cx0 D1 m1).
Definition idx1 : list nat := [4; 0; 0; 2].
Definition keep1 : list bool := [true; false; true; false; true].

Lemma D1_wf : frame_wf D1.
Proof. repeat constructor. Qed.
Lemma D1_unordered : frame_unordered D1.
Proof. repeat constructor. Qed.
Lemma cx0_scalar : scalar_extras cx0.
Proof. intros k v H. discriminate H. Qed.
Lemma ds1_trained : eval_model cx0 D1 m1 = Ok ds1.
Proof. vm_compute. reflexivity. Qed.

Ltac comps_ok_tac :=
  let c := fresh "c" in let Hc := fresh "Hc" in
  intros c Hc; simpl in Hc;
  repeat (destruct Hc as [<-|Hc]; [|]); try contradiction;
  (split; [first [exact I | split; [reflexivity|exact D1_unordered]]
          |let tc := fresh "tc" in let H := fresh "H" in
           intros tc H; vm_compute in H; injection H as <-; exact I]).

Lemma m1_groups_ok : model_ok_groups [] cx0 D1 m1.
Proof.
  intros g Hg. simpl in Hg.
  repeat (destruct Hg as [<-|Hg]; [|]); try contradiction;
    (split; [intros t Ht; try discriminate Ht; injection Ht as <-; comps_ok_tac
            |intros f Hf; injection Hf as <-; split; [discriminate|comps_ok_tac]]).
Qed.

(** G1: the theorem applies ... *)
Example new_group_pick_ex mode :
  new_group cx0 mode ds1 (frame_pick idx1 D1)
  = Ok (NewGroup (pick idx1 (group_matrix ds1)) (group_slices ds1) [] false).
Proof.
  apply (new_group_pick cx0 idx1 D1 mode m1 ds1 D1_wf cx0_scalar m1_groups_ok); [|exact ds1_trained].
  exists 4. split; [left; reflexivity|simpl; lia].
Qed.

Example new_group_select_ex mode :
  new_group cx0 mode ds1 (frame_select keep1 D1)
  = Ok (NewGroup (select keep1 (group_matrix ds1)) (group_slices ds1) [] false).
Proof.
  apply (new_group_select cx0 keep1 D1 mode m1 ds1 D1_wf cx0_scalar m1_groups_ok);
    [reflexivity|discriminate|exact ds1_trained].
Qed.

(* ... and this is what it says *)
Example new_group_pick_value :
  group_slices ds1 = [("1|f", 0, 3); ("x|f", 3, 6); ("1|k", 6, 9); ("1|f:k", 9, 18); ("center(x)|f", 18, 21)] /\
  match new_group cx0 UError ds1 (frame_pick idx1 D1) with
  | Ok g => (show (ng_rows g), ng_slices g, ng_new_factors g, ng_warned g)
  | Err _ => ([], [], [], true) end
  = ([["0"; "1"; "0"; "0"; "10"; "0"; "0"; "0"; "1"; "0"; "0"; "0"; "0"; "0"; "1"; "0"; "0"; "0"; "0"; "4"; "0"];
      ["0"; "1"; "0"; "0"; "2"; "0"; "0"; "1"; "0"; "0"; "0"; "0"; "0"; "1"; "0"; "0"; "0"; "0"; "0"; "-4"; "0"];
      ["0"; "1"; "0"; "0"; "2"; "0"; "0"; "1"; "0"; "0"; "0"; "0"; "0"; "1"; "0"; "0"; "0"; "0"; "0"; "-4"; "0"];
      ["0"; "0"; "1"; "0"; "0"; "6"; "0"; "1"; "0"; "0"; "0"; "0"; "0"; "0"; "0"; "0"; "1"; "0"; "0"; "0"; "0"]],
     [("1|f", 0, 3); ("x|f", 3, 6); ("1|k", 6, 9); ("1|f:k", 9, 18); ("center(x)|f", 18, 21)], [], false).
Proof. split; vm_compute; reflexivity. Qed.

(** refuted: the empty selection.  Every block has width 0, which [new_group] reads as a change
    of width: both factors are reported as having new groups, and the slices collapse. *)
Example empty_selection_refuted :
  match new_group cx0 UError ds1 (frame_pick [] D1) with
  | Ok g => (show (ng_rows g), ng_slices g, ng_new_factors g, ng_warned g)
  | Err _ => ([], [], [], true) end
  = ([], [("1|f", 0, 0); ("x|f", 0, 0); ("1|k", 0, 0); ("1|f:k", 0, 0); ("center(x)|f", 0, 0)], ["f"; "k"; "f:k"], false).
Proof. vm_compute. reflexivity. Qed.

(** refuted: a grouping factor C(h) with a missing value ([box_complete] fails).  Training codes
    the row as zeros; on new data the same row is a "new group": a column is appended (mode
    silent) or the evaluation fails (mode error). *)
Definition ds2 : design := Eval vm_compute in get design0 (eval_model cx0 D1 (mdl "y ~ x + (1|C(h))")).
Example box_missing_group_refuted :
  show (group_matrix ds2) = [["0"; "1"; "0"]; ["0"; "0"; "0"]; ["0"; "0"; "1"]; ["1"; "0"; "0"]; ["0"; "1"; "0"]] /\
  match new_group cx0 USilent ds2 (frame_pick [0; 1; 2] D1) with
  | Ok g => (show (ng_rows g), ng_slices g, ng_new_factors g, ng_warned g)
  | Err _ => ([], [], [], true) end
  = ([["0"; "1"; "0"; "0"]; ["0"; "0"; "0"; "1"]; ["0"; "0"; "1"; "0"]], [("1|C(h)", 0, 4)], ["C(h)"], false) /\
  new_group cx0 UError ds2 (frame_pick [0; 1; 2] D1) = Err EValue.
Proof. repeat split; vm_compute; reflexivity. Qed.

(** G2: the whole design m1, group-specific terms included, on the permuted frame *)
Definition perm1 : list nat := [3; 0; 4; 1; 2].
Lemma perm1_perm : Permutation perm1 (seq 0 (frame_rows D1)).
Proof.
  apply NoDup_Permutation.
  - repeat constructor; simpl; intuition discriminate.
  - apply seq_NoDup.
  - intros x. simpl. intuition (subst; auto); lia.
Qed.

Example perm_rows_groups_ex :
  exists ds',
    eval_model cx0 (frame_pick perm1 D1) m1 = Ok ds' /\
    map dg_rows (ds_group ds') = map (pick perm1) (map dg_rows (ds_group ds1)) /\
    map dg_labels (ds_group ds') = map dg_labels (ds_group ds1) /\
    map dg_groups (ds_group ds') = map dg_groups (ds_group ds1).
Proof.
  destruct (perm_rows_groups perm1 D1 [] (fun x => x) m1 ds1 D1_wf D1_unordered) as [E _].
  - intros k w H. discriminate H.
  - exact perm1_perm.
  - intros t Ht. simpl in Ht.
    repeat (destruct Ht as [Ht|Ht]; [try discriminate Ht; injection Ht as <-; repeat constructor|]);
      contradiction.
  - intros t Ht. injection Ht as <-. repeat constructor.
  - intros g Hg. simpl in Hg.
    repeat (destruct Hg as [<-|Hg]; [|]); try contradiction;
      (split; intros t Ht; try discriminate Ht; injection Ht as <-; repeat constructor).
  - exact ds1_trained.
  - eexists. split; [exact E|].
    destruct (design_sel_groups_spec perm1 (frame_rows D1) ds1) as (_ & _ & _ & _ & _ & _ & G & L & _ & R & _).
    cbv zeta in *. auto.
Qed.

Example perm_rows_groups_value :
  match eval_model cx0 (frame_pick perm1 D1) m1 with
  | Ok ds' => (show (group_matrix ds'), map dg_groups (ds_group ds')) | Err _ => ([], []) end
  = (show (pick perm1 (group_matrix ds1)), map dg_groups (ds_group ds1)).
Proof. vm_compute. reflexivity. Qed.

(** G3: a design with poly and bs (and a group-specific term) on the permuted frame *)
Definition D6 : frame :=
  [("y", ColNum false [q 1; q 2; q 3; q 4; q 5; q 6]);
   ("x", ColNum true [q 2; q 4; q 6; q 8; q 10; q 13]);
   ("g", ColStr None [Some "u"; Some "v"; Some "u"; Some "w"; Some "v"; Some "u"])].
Definition m6 : model := Eval vm_compute in mdl "y ~ 0 + poly(x, 2) + bs(x, df=4) + (poly(x, 2)|g)".
Definition ds6 : design := Eval vm_compute in get design0 (eval_model cx0 D6 m6).
Definition perm6 : list nat := [5; 3; 0; 4; 1; 2].

Lemma perm6_perm : Permutation perm6 (seq 0 (frame_rows D6)).
Proof.
  apply NoDup_Permutation.
  - repeat constructor; simpl; intuition discriminate.
  - apply seq_NoDup.
  - intros x. simpl. intuition (subst; auto); lia.
Qed.

Example perm_rows_groups_bs_ex :
  eval_model cx0 (frame_pick perm6 D6) m6 = Ok (design_sel_groups (sel_pick perm6) (frame_rows D6) ds6).
Proof.
  apply (perm_rows_groups_bs perm6 D6 [] (fun x => x) m6 ds6).
  - repeat constructor.
  - repeat constructor.
  - discriminate.
  - intros k w H. discriminate H.
  - exact perm6_perm.
  - intros t Ht. simpl in Ht.
    repeat (destruct Ht as [Ht|Ht]; [try discriminate Ht; injection Ht as <-; repeat constructor|]);
      contradiction.
  - intros t Ht. injection Ht as <-. repeat constructor.
  - intros g Hg. simpl in Hg.
    repeat (destruct Hg as [<-|Hg]; [|]); try contradiction;
      (split; intros t Ht; try discriminate Ht; injection Ht as <-; repeat constructor).
  - vm_compute. reflexivity.
Qed.

Example perm_rows_groups_bs_value :
  match eval_model cx0 (frame_pick perm6 D6) m6 with
  | Ok ds' => (show (common_matrix ds'), show (group_matrix ds')) | Err _ => ([], []) end
  = (show (pick perm6 (common_matrix ds6)), show (pick perm6 (group_matrix ds6))).
Proof. vm_compute. reflexivity. Qed.

Print Assumptions new_comp_sel_forced.
Print Assumptions new_gterm_sel.
Print Assumptions new_group_sel.
Print Assumptions eval_model_trained_groups.
Print Assumptions new_group_pick_gen.
Print Assumptions new_group_select.
Print Assumptions design_new_group_pick.
Print Assumptions design_new_group_select.
Print Assumptions design_drop_new_group_pick.
Print Assumptions set_type_gterm_refit.
Print Assumptions set_data_gterm_refit.
Print Assumptions eval_model_refit_groups.
Print Assumptions perm_rows_groups.
Print Assumptions perm_rows_full_statement_proved.
Print Assumptions perm_rows_groups_gen.
Print Assumptions poly_fit_perm.
Print Assumptions bs_init_perm.
Print Assumptions call_spline_refit.
Print Assumptions eval_lazy_perm_bs.
Print Assumptions perm_rows_groups_bs.
