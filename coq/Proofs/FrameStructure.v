(* Properties C09 (missing-value policy) and C08 (irrelevant frame structure).
   P3: [prepare_data] / [design_matrices] under the three missing-value policies:
       [drop_is_filter], [drop_no_missing], [drop_then_any], [design_drop_is_filter],
       [error_iff], [pass_keeps_rows], [unused_columns_irrelevant].
   P4: [design_frame_agree]: two frames that agree (by name) on the columns the model uses give the
       same design, whatever the order of the columns and whatever other columns they hold.
   Also here, because both P4 and Prediction.v need them: an induction principle for [lazy] with
   its nested lists, and named versions of the two local loops of [eval_lazy]. *)
From Verif Require Import Base Tokens Lazy Algebra Coding Contrasts Frame Eval Design DesignStructure.
From Coq Require Import Lia Permutation.
Local Close Scope Qc_scope.
Local Close Scope Q_scope.
Local Open Scope string_scope.
Local Open Scope list_scope.
Local Open Scope nat_scope.

Notation anyb l := (existsb (fun b : bool => b) l).

(* ------------------------------------------------------------------------------------------ *)
(** * Frames: selection of rows, used columns, masks *)

Definition frame_select (keep : list bool) (f : frame) : frame :=
  map (fun kv => (fst kv, col_select keep (snd kv))) f.

Definition used_in (m : model) (kv : string * column) : bool :=
  existsb (String.eqb (fst kv)) (model_vars m).

(* the columns the model names, in frame order *)
Definition used_cols (data : frame) (m : model) : frame := filter (used_in m) data.

(* true at the rows with a missing cell in some used column *)
Definition incomplete_mask (data : frame) (m : model) : list bool :=
  or_rows (map (fun kv => col_missing (snd kv)) (used_cols data m)) (frame_rows data).

Definition complete_mask (data : frame) (m : model) : list bool := map negb (incomplete_mask data m).

Definition has_missing (c : column) : bool := anyb (col_missing c).

(* all columns have n cells *)
Definition rect (n : nat) (f : frame) : Prop := Forall (fun kv => col_len (snd kv) = n) f.
Definition frame_wf (f : frame) : Prop := rect (frame_rows f) f.

Lemma prepare_data_unfold data m na :
  prepare_data data m na =
  if (frame_rows data =? 0) then Err EValue else
  if anyb (incomplete_mask data m) then
    match na with
    | NaPass => Ok (used_cols data m)
    | NaDrop => Ok (frame_select (complete_mask data m) (used_cols data m))
    | NaError => Err EValue
    end
  else Ok (used_cols data m).
Proof. reflexivity. Qed.

(** ** list lemmas *)

Lemma col_missing_length c : List.length (col_missing c) = col_len c.
Proof. destruct c; simpl; apply map_length. Qed.

Lemma col_missing_select keep c : col_missing (col_select keep c) = select keep (col_missing c).
Proof. destruct c; simpl; symmetry; apply select_map. Qed.

Lemma select_length {T} keep (v : list T) :
  List.length v = List.length keep -> List.length (select keep v) = count_true keep.
Proof.
  revert v; induction keep as [|k keep IH]; intros [|x v] H; simpl in *; try discriminate; auto.
  destruct k; simpl; rewrite IH by lia; reflexivity.
Qed.

Lemma select_length_eq {S T} keep (a : list S) (b : list T) :
  List.length a = List.length b -> List.length (select keep a) = List.length (select keep b).
Proof.
  revert a b; induction keep as [|k keep IH]; intros [|x a] [|y b] H; simpl in *; try discriminate; auto.
  destruct k; simpl; rewrite (IH a b) by lia; reflexivity.
Qed.

Lemma or_rows_length cols n :
  Forall (fun c => List.length c = n) cols -> List.length (or_rows cols n) = n.
Proof.
  induction 1 as [|c cols Hc _ IH]; simpl; [apply repeat_length|].
  rewrite zip_with_length, IH, Hc. lia.
Qed.

Lemma anyb_repeat_false n : anyb (repeat false n) = false.
Proof. induction n; simpl; auto. Qed.

Lemma anyb_zip_orb a : forall b,
  List.length a = List.length b -> anyb (zip_with orb a b) = anyb a || anyb b.
Proof.
  induction a as [|x a IH]; intros [|y b] H; simpl in H; try discriminate; [reflexivity|].
  rewrite zip_with_cons. cbn [existsb]. rewrite IH by lia.
  destruct x, y; simpl; try reflexivity. destruct (anyb a); reflexivity.
Qed.

Lemma anyb_or_rows cols n :
  Forall (fun c => List.length c = n) cols ->
  anyb (or_rows cols n) = existsb (fun c => anyb c) cols.
Proof.
  induction 1 as [|c cols Hc Hcs IH]; simpl; [apply anyb_repeat_false|].
  rewrite anyb_zip_orb, IH; [reflexivity|]. rewrite or_rows_length; assumption.
Qed.

Lemma existsb_map' {S T} (f : T -> bool) (g : S -> T) l : existsb f (map g l) = existsb (fun x => f (g x)) l.
Proof. induction l as [|x l IH]; simpl; [reflexivity|]. rewrite IH. reflexivity. Qed.

Definition ble (a b : bool) : Prop := a = true -> b = true.

Lemma zip_orb_ge_l a : forall X, List.length a = List.length X -> Forall2 ble a (zip_with orb a X).
Proof.
  induction a as [|x a IH]; intros [|y X] H; simpl in H; try discriminate; [constructor|].
  rewrite zip_with_cons. constructor; [|apply IH; lia]. intros ->. reflexivity.
Qed.

Lemma zip_orb_ge_r c X : Forall2 ble c X ->
  forall a, List.length a = List.length X -> Forall2 ble c (zip_with orb a X).
Proof.
  induction 1 as [|x y c X Hxy _ IH]; intros [|z a] Hl; simpl in Hl; try discriminate; [constructor|].
  rewrite zip_with_cons. constructor; [|apply IH; lia].
  intros E. rewrite (Hxy E). apply orb_true_r.
Qed.

Lemma or_rows_ge cols n c :
  Forall (fun c => List.length c = n) cols -> In c cols -> Forall2 ble c (or_rows cols n).
Proof.
  induction 1 as [|c0 cols Hc0 Hcs IH]; intros Hin; [contradiction|].
  simpl. assert (L : List.length c0 = List.length (or_rows cols n))
    by (rewrite or_rows_length; assumption).
  destruct Hin as [->|Hin]; [apply zip_orb_ge_l; assumption|].
  apply zip_orb_ge_r; [apply IH; assumption|assumption].
Qed.

Lemma select_negb_clean miss mask :
  Forall2 ble miss mask -> anyb (select (map negb mask) miss) = false.
Proof.
  induction 1 as [|x y miss mask Hxy _ IH]; [reflexivity|]. simpl.
  destruct y; simpl; [assumption|]. rewrite IH.
  destruct x; [|reflexivity]. discriminate (Hxy eq_refl).
Qed.

Lemma select_all_true {T} mask : forall (v : list T),
  anyb mask = false -> List.length v = List.length mask -> select (map negb mask) v = v.
Proof.
  induction mask as [|b mask IH]; intros [|x v] Hm Hl; simpl in *; try discriminate; [reflexivity|].
  destruct b; simpl in *; [discriminate|]. f_equal. apply IH; [assumption|lia].
Qed.

Lemma count_true_all mask : anyb mask = false -> count_true (map negb mask) = List.length mask.
Proof.
  induction mask as [|b mask IH]; simpl; [reflexivity|].
  destruct b; simpl; [discriminate|]. intros H. rewrite IH by assumption. reflexivity.
Qed.

Lemma or_rows_select keep cols :
  or_rows (map (select keep) cols) (count_true keep)
  = select keep (or_rows cols (List.length keep)).
Proof.
  induction cols as [|c cols IH]; simpl.
  - symmetry. apply select_repeat.
  - rewrite IH. apply select_zip_with.
Qed.

Lemma filter_frame_select keep (f : string * column -> bool) (d : frame) :
  (forall k c c', f (k, c) = f (k, c')) ->
  filter f (frame_select keep d) = frame_select keep (filter f d).
Proof.
  intros Hf. induction d as [|[k c] d IH]; simpl; [reflexivity|].
  rewrite (Hf k (col_select keep c) c). destruct (f (k, c)); simpl; rewrite IH; reflexivity.
Qed.

Lemma used_cols_select keep d m : used_cols (frame_select keep d) m = frame_select keep (used_cols d m).
Proof. apply filter_frame_select. reflexivity. Qed.

Lemma used_cols_rect n d m : rect n d -> rect n (used_cols d m).
Proof.
  unfold rect, used_cols. rewrite !Forall_forall. intros H kv Hin.
  apply filter_In in Hin as [Hin _]. auto.
Qed.

Lemma frame_rows_rect n (d : frame) : rect n d -> d <> [] -> frame_rows d = n.
Proof. destruct d as [|[k c] d]; [congruence|]. intros H _. inversion H; subst. reflexivity. Qed.

Lemma mask_cols_length n d m :
  rect n d ->
  Forall (fun c => List.length c = n) (map (fun kv => col_missing (snd kv)) (used_cols d m)).
Proof.
  intros H. apply (used_cols_rect n d m) in H. apply Forall_map.
  eapply Forall_impl; [|exact H]. intros kv Hkv. simpl. rewrite col_missing_length. assumption.
Qed.

Lemma incomplete_mask_length d m : frame_wf d -> List.length (incomplete_mask d m) = frame_rows d.
Proof. intros H. apply or_rows_length. apply mask_cols_length. assumption. Qed.

Lemma frame_select_rows keep d :
  frame_wf d -> d <> [] -> List.length keep = frame_rows d ->
  frame_rows (frame_select keep d) = count_true keep.
Proof.
  destruct d as [|[k c] d]; [congruence|]. intros H _ Hl. simpl in *.
  destruct c; simpl in *; apply select_length; congruence.
Qed.

Lemma frame_select_all mask d :
  anyb mask = false -> rect (List.length mask) d -> frame_select (map negb mask) d = d.
Proof.
  intros Hm H. unfold frame_select. rewrite <- (map_id d) at 2. apply map_ext_in.
  intros [k c] Hin. unfold rect in H. rewrite Forall_forall in H. specialize (H _ Hin).
  simpl in *. f_equal. destruct c; simpl in *; f_equal; apply select_all_true; assumption.
Qed.

(* ------------------------------------------------------------------------------------------ *)
(** * P3. The missing-value policy *)

(** "pass" returns the used columns unchanged. *)
Theorem pass_keeps_rows data m :
  frame_rows data <> 0 -> prepare_data data m NaPass = Ok (used_cols data m).
Proof.
  intros Hn. rewrite prepare_data_unfold. apply Nat.eqb_neq in Hn. rewrite Hn.
  destruct (anyb _); reflexivity.
Qed.

(** "error" raises exactly when a used column has a missing cell; otherwise it returns the used
    columns unchanged. *)
Theorem error_iff data m :
  frame_wf data -> frame_rows data <> 0 ->
  (prepare_data data m NaError = Err EValue <->
   exists kv, In kv (used_cols data m) /\ has_missing (snd kv) = true) /\
  (prepare_data data m NaError <> Err EValue ->
   prepare_data data m NaError = Ok (used_cols data m)).
Proof.
  intros Hwf Hn. rewrite prepare_data_unfold. apply Nat.eqb_neq in Hn. rewrite Hn.
  unfold incomplete_mask. rewrite (anyb_or_rows _ _ (mask_cols_length _ _ m Hwf)).
  rewrite existsb_map'.
  destruct (existsb _ (used_cols data m)) eqn:E.
  - split; [|congruence]. split; [intros _|reflexivity]. apply existsb_exists in E. exact E.
  - split; [|reflexivity]. split; [discriminate|]. intros H.
    assert (existsb (fun kv => anyb (col_missing (snd kv))) (used_cols data m) = true);
      [|congruence].
    apply existsb_exists. exact H.
Qed.

(** "drop": the result is the used columns restricted to the complete rows. *)
Theorem drop_is_filter data m :
  frame_wf data -> frame_rows data <> 0 ->
  prepare_data data m NaDrop = Ok (frame_select (complete_mask data m) (used_cols data m)).
Proof.
  intros Hwf Hn. rewrite prepare_data_unfold. apply Nat.eqb_neq in Hn. rewrite Hn.
  destruct (anyb (incomplete_mask data m)) eqn:E; [reflexivity|].
  unfold complete_mask. rewrite frame_select_all; [reflexivity|assumption|].
  rewrite incomplete_mask_length by assumption. apply used_cols_rect. assumption.
Qed.

(** ... and no column of the result has a missing cell. *)
Theorem drop_no_missing data m :
  frame_wf data ->
  Forall (fun kv => has_missing (snd kv) = false)
         (frame_select (complete_mask data m) (used_cols data m)).
Proof.
  intros Hwf. apply Forall_forall. intros kv Hin. unfold frame_select in Hin.
  apply in_map_iff in Hin as ([k c] & <- & Hin). cbn [fst snd].
  unfold has_missing. rewrite col_missing_select. apply select_negb_clean.
  apply or_rows_ge; [apply mask_cols_length; assumption|].
  apply in_map_iff. exists (k, c). split; [reflexivity|assumption].
Qed.

Lemma complete_mask_length d m : frame_wf d -> List.length (complete_mask d m) = frame_rows d.
Proof. intros H. unfold complete_mask. rewrite map_length. apply incomplete_mask_length; assumption. Qed.

Lemma frame_rows_nonempty (d : frame) : frame_rows d <> 0 -> d <> [].
Proof. destruct d; simpl; congruence. Qed.

(* the mask of the data from which the incomplete rows were removed is everywhere false *)
Lemma incomplete_mask_after_drop data m :
  frame_wf data -> frame_rows data <> 0 ->
  anyb (incomplete_mask (frame_select (complete_mask data m) data) m) = false.
Proof.
  intros Hwf Hn. unfold incomplete_mask at 1.
  rewrite used_cols_select, (frame_select_rows _ _ Hwf (frame_rows_nonempty _ Hn) (complete_mask_length _ m Hwf)).
  unfold frame_select. rewrite map_map. cbn [snd].
  rewrite (map_ext _ (fun kv => select (complete_mask data m) (col_missing (snd kv))))
    by (intros; apply col_missing_select).
  rewrite <- (map_map (fun kv => col_missing (snd kv)) (select (complete_mask data m))).
  rewrite or_rows_select, (complete_mask_length _ m Hwf).
  fold (incomplete_mask data m). unfold complete_mask.
  apply select_negb_clean.
  clear. induction (incomplete_mask data m); constructor; [intros H; exact H|assumption].
Qed.

(** Removing the incomplete rows first and then applying ANY policy is the same as "drop" on the
    original data -- provided at least one row is complete (otherwise the filtered frame is empty
    and is rejected, see [drop_all_rows_refuted]). *)
Theorem drop_then_any data m na :
  frame_wf data -> frame_rows data <> 0 -> count_true (complete_mask data m) <> 0 ->
  prepare_data (frame_select (complete_mask data m) data) m na = prepare_data data m NaDrop.
Proof.
  intros Hwf Hn Hc. rewrite (drop_is_filter _ _ Hwf Hn). rewrite prepare_data_unfold.
  rewrite (frame_select_rows _ _ Hwf (frame_rows_nonempty _ Hn) (complete_mask_length _ m Hwf)).
  apply Nat.eqb_neq in Hc. rewrite Hc.
  rewrite (incomplete_mask_after_drop _ _ Hwf Hn). rewrite used_cols_select. reflexivity.
Qed.

(** The same on [design_matrices]. *)
Theorem design_drop_is_filter cx e data m na :
  describe e = Ok m ->
  frame_wf data -> frame_rows data <> 0 -> count_true (complete_mask data m) <> 0 ->
  design_matrices cx e (frame_select (complete_mask data m) data) na
  = design_matrices cx e data NaDrop.
Proof.
  intros Hd Hwf Hn Hc. unfold design_matrices. rewrite Hd. cbn [bind].
  rewrite (drop_then_any _ _ na Hwf Hn Hc), (drop_is_filter _ _ Hwf Hn). cbn [bind].
  destruct (used_cols data m) as [|kv u] eqn:Eu; [|reflexivity].
  (* no used column: nothing is dropped *)
  cbn [frame_select map].
  rewrite (frame_select_rows _ _ Hwf (frame_rows_nonempty _ Hn) (complete_mask_length _ m Hwf)).
  unfold complete_mask, incomplete_mask. rewrite Eu. cbn [map or_rows].
  rewrite count_true_all by apply anyb_repeat_false. rewrite repeat_length. reflexivity.
Qed.

(** [prepare_data] only depends on the used columns (in frame order) and the number of rows:
    adding, removing, reordering other columns or putting NaN into them changes nothing. *)
Theorem unused_columns_irrelevant d1 d2 m na :
  used_cols d1 m = used_cols d2 m -> frame_rows d1 = frame_rows d2 ->
  prepare_data d1 m na = prepare_data d2 m na.
Proof.
  intros Hu Hr. rewrite !prepare_data_unfold. unfold complete_mask, incomplete_mask.
  rewrite Hu, Hr. reflexivity.
Qed.

(* an unused column inserted anywhere (behind the first column, so that the row count is read
   from the same column) is not seen *)
Corollary unused_column_insert kv0 a b k c m na :
  existsb (String.eqb k) (model_vars m) = false ->
  prepare_data (kv0 :: a ++ (k, c) :: b) m na = prepare_data (kv0 :: a ++ b) m na.
Proof.
  intros Hk. apply unused_columns_irrelevant; [|reflexivity].
  assert (U : used_in m (k, c) = false) by exact Hk.
  unfold used_cols. cbn [filter]. rewrite !filter_app. cbn [filter]. rewrite U. reflexivity.
Qed.

(* an unused column in front, of the same length *)
Corollary unused_column_front d k c m na :
  existsb (String.eqb k) (model_vars m) = false -> col_len c = frame_rows d ->
  prepare_data ((k, c) :: d) m na = prepare_data d m na.
Proof.
  intros Hk Hl. apply unused_columns_irrelevant; [|exact Hl].
  assert (U : used_in m (k, c) = false) by exact Hk.
  unfold used_cols. cbn [filter]. rewrite U. reflexivity.
Qed.

(* the contents of an unused column do not matter *)
Corollary unused_column_contents a b k c c' m na :
  existsb (String.eqb k) (model_vars m) = false -> (a = [] -> col_len c = col_len c') ->
  prepare_data (a ++ (k, c) :: b) m na = prepare_data (a ++ (k, c') :: b) m na.
Proof.
  intros Hk Hl. apply unused_columns_irrelevant.
  - assert (U : forall x, used_in m (k, x) = false) by (intros; exact Hk).
    unfold used_cols. rewrite !filter_app. cbn [filter]. rewrite !U. reflexivity.
  - destruct a as [|[k0 c0] a]; [simpl; auto|reflexivity].
Qed.

(* ------------------------------------------------------------------------------------------ *)
(** * An induction principle for [lazy], and the loops of [eval_lazy] by name *)

Section LazyInd.
  Variable P : lazy -> Prop.
  Hypothesis Hop : forall sym args, Forall P args -> P (LzOp sym args).
  Hypothesis Hvar : forall n, P (LzVar n).
  Hypothesis Hval : forall v lx, P (LzVal v lx).
  Hypothesis Hcall : forall c args kw,
      Forall P args -> Forall (fun kv => P (snd kv)) kw -> P (LzCall c args kw).

  Fixpoint lazy_ind' (l : lazy) : P l :=
    match l with
    | LzOp sym args =>
        Hop sym args ((fix go (a : list lazy) : Forall P a :=
                         match a with [] => Forall_nil P | x :: r => Forall_cons x (lazy_ind' x) (go r) end) args)
    | LzVar n => Hvar n
    | LzVal v lx => Hval v lx
    | LzCall c args kw =>
        Hcall c args kw
              ((fix go (a : list lazy) : Forall P a :=
                  match a with [] => Forall_nil P | x :: r => Forall_cons x (lazy_ind' x) (go r) end) args)
              ((fix gok (a : list (string * lazy)) : Forall (fun kv => P (snd kv)) a :=
                  match a with
                  | [] => Forall_nil _
                  | x :: r => Forall_cons x (lazy_ind' (snd x)) (gok r)
                  end) kw)
    end.
End LazyInd.

Definition evres := res (pyval * list tparam * list tparam).

Section Loops.
  Variable ev : list tparam -> lazy -> evres.

  Fixpoint eval_args (args : list lazy) (st : list tparam) (vals : list pyval) (rec : list tparam)
           {struct args} : res (list pyval * list tparam * list tparam) :=
    match args with
    | [] => Ok (vals, st, rec)
    | a :: r =>
        do x <- ev st a;
        eval_args r (snd (fst x)) (vals ++ [fst (fst x)])%list (rec ++ snd x)%list
    end.

  Fixpoint eval_kwargs (kws : list (string * lazy)) (st : list tparam) (vals : list (string * pyval))
           (rec : list tparam) {struct kws} : res (list (string * pyval) * list tparam * list tparam) :=
    match kws with
    | [] => Ok (vals, st, rec)
    | (k, a) :: r =>
        do x <- ev st a;
        eval_kwargs r (snd (fst x)) (vals ++ [(k, fst (fst x))])%list (rec ++ snd x)%list
    end.
End Loops.

Definition known_callee (callee : string) : bool :=
  existsb (String.eqb callee) stateful_names || existsb (String.eqb callee) function_names.

Lemma eval_lazy_call cx st callee args kwargs :
  eval_lazy cx st (LzCall callee args kwargs) =
  if negb (known_callee callee) then
    (match assoc callee (e_extra cx) with Some _ => Err EUnsupported | None => Err EKey end)
  else
    do ra <- eval_args (eval_lazy cx) args st [] [];
    do rk <- eval_kwargs (eval_lazy cx) kwargs (snd (fst ra)) [] (snd ra);
    if existsb (String.eqb callee) stateful_names then
      do r <- call_stateful cx callee (snd (fst rk)) (fst (fst ra)) (fst (fst rk));
      Ok (fst (fst r), snd (fst r), (snd rk ++ snd r)%list)
    else
      do v <- call_function cx callee (fst (fst ra)) (fst (fst rk)); Ok (v, snd (fst rk), snd rk).
Proof. reflexivity. Qed.

Lemma eval_args_ext ev1 ev2 args :
  Forall (fun a => forall st, ev1 st a = ev2 st a) args ->
  forall st vals rec, eval_args ev1 args st vals rec = eval_args ev2 args st vals rec.
Proof.
  induction 1 as [|a args Ha _ IH]; intros st vals rec; simpl; [reflexivity|].
  rewrite Ha. destruct (ev2 st a); simpl; [apply IH|reflexivity].
Qed.

Lemma eval_kwargs_ext ev1 ev2 (kws : list (string * lazy)) :
  Forall (fun kv => forall st, ev1 st (snd kv) = ev2 st (snd kv)) kws ->
  forall st vals rec, eval_kwargs ev1 kws st vals rec = eval_kwargs ev2 kws st vals rec.
Proof.
  induction 1 as [|[k a] kws Ha _ IH]; intros st vals rec; simpl; [reflexivity|].
  simpl in Ha. rewrite Ha. destruct (ev2 st a); simpl; [apply IH|reflexivity].
Qed.

(* ------------------------------------------------------------------------------------------ *)
(** * P4. Frames that agree by name give the same design *)

(* two frames that cannot be told apart by lookups and by the row count *)
Definition frame_equiv (d1 d2 : frame) : Prop :=
  (forall k, assoc k d1 = assoc k d2) /\ frame_rows d1 = frame_rows d2.

(* evaluation only looks up the variables [lazy_vars] lists *)
Lemma eval_lazy_vars_ext d1 d2 ex sq fit l :
  (forall k, In k (lazy_vars l) -> assoc k d1 = assoc k d2) ->
  forall st, eval_lazy (ECtx d1 ex sq fit) st l = eval_lazy (ECtx d2 ex sq fit) st l.
Proof.
  induction l as [sym args IH|n|v lx|c args kw IHa IHk] using lazy_ind'; intros Ha st.
  - assert (IH' : Forall (fun a => forall st, eval_lazy (ECtx d1 ex sq fit) st a
                                              = eval_lazy (ECtx d2 ex sq fit) st a) args).
    { rewrite Forall_forall in *. intros a Hin. apply IH; [assumption|].
      intros k Hk. apply Ha. simpl. apply in_flat_map. exists a. auto. }
    destruct args as [|a [|b [|c r]]]; try reflexivity.
    + inversion IH' as [|? ? Ha1 _]; subst. cbn [eval_lazy]. rewrite Ha1. reflexivity.
    + inversion IH' as [|? ? Ha1 IH'']; subst. inversion IH'' as [|? ? Hb1 _]; subst.
      cbn [eval_lazy]. rewrite Ha1. destruct (eval_lazy (ECtx d2 ex sq fit) st a); [|reflexivity].
      cbn [bind]. rewrite Hb1. reflexivity.
  - cbn [eval_lazy]. unfold lookup_name. cbn [e_data e_extra]. rewrite Ha by (left; reflexivity).
    reflexivity.
  - reflexivity.
  - assert (IHa' : Forall (fun a => forall st, eval_lazy (ECtx d1 ex sq fit) st a
                                               = eval_lazy (ECtx d2 ex sq fit) st a) args).
    { rewrite Forall_forall in *. intros a Hin. apply IHa; [assumption|].
      intros k Hk. apply Ha. simpl. apply in_or_app. left. apply in_flat_map. exists a. auto. }
    assert (IHk' : Forall (fun kv : string * lazy =>
                             forall st, eval_lazy (ECtx d1 ex sq fit) st (snd kv)
                                        = eval_lazy (ECtx d2 ex sq fit) st (snd kv)) kw).
    { rewrite Forall_forall in *. intros kv Hin. apply IHk; [assumption|].
      intros k Hk. apply Ha. simpl. apply in_or_app. right. apply in_flat_map. exists kv. auto. }
    rewrite !eval_lazy_call. cbn [e_extra].
    rewrite (eval_args_ext _ _ _ IHa').
    destruct (negb (known_callee c)); [reflexivity|].
    destruct (eval_args (eval_lazy (ECtx d2 ex sq fit)) args st [] []) as [ra|]; [|reflexivity].
    cbn [bind]. rewrite (eval_kwargs_ext _ _ _ IHk'). reflexivity.
Qed.

Lemma eval_lazy_frame_ext d1 d2 ex sq fit l :
  (forall k, assoc k d1 = assoc k d2) ->
  forall st, eval_lazy (ECtx d1 ex sq fit) st l = eval_lazy (ECtx d2 ex sq fit) st l.
Proof. intros Ha. apply eval_lazy_vars_ext. intros; apply Ha. Qed.

Lemma mapM_ext_in {A B} (f g : A -> res B) l : (forall x, In x l -> f x = g x) -> mapM f l = mapM g l.
Proof.
  intros H. induction l as [|x l IH]; simpl; [reflexivity|].
  rewrite H by (left; reflexivity). rewrite IH; [reflexivity|]. intros; apply H; right; assumption.
Qed.

Lemma mapM_ext {A B} (f g : A -> res B) l : (forall x, f x = g x) -> mapM f l = mapM g l.
Proof. intros H. apply mapM_ext_in. intros; apply H. Qed.

Lemma set_type_comp_vars_ext cx d1 d2 r c :
  (forall k, In k (comp_vars c) -> assoc k d1 = assoc k d2) ->
  set_type_comp cx d1 r c = set_type_comp cx d2 r c.
Proof.
  intros Ha. destruct c as [[name|v] lvl|lz]; simpl in *;
    [rewrite Ha by (left; reflexivity); reflexivity|reflexivity|].
  rewrite (eval_lazy_vars_ext d1 d2 _ _ _ lz Ha). reflexivity.
Qed.

Lemma set_type_comps_vars_ext cx d1 d2 r t :
  (forall k, In k (term_vars t) -> assoc k d1 = assoc k d2) ->
  mapM (set_type_comp cx d1 r) t = mapM (set_type_comp cx d2 r) t.
Proof.
  intros Ha. apply mapM_ext_in. intros c Hc. apply set_type_comp_vars_ext.
  intros k Hk. apply Ha. unfold term_vars. apply in_flat_map. exists c. auto.
Qed.

Lemma set_type_term_vars_ext cx d1 d2 r t :
  (forall k, In k (term_vars t) -> assoc k d1 = assoc k d2) ->
  set_type_term cx d1 r t = set_type_term cx d2 r t.
Proof. intros Ha. unfold set_type_term. rewrite (set_type_comps_vars_ext cx d1 d2 r t Ha). reflexivity. Qed.

Lemma add_extra_terms_frame_ext cx d1 d2 enc ts : add_extra_terms cx d1 enc ts = add_extra_terms cx d2 enc ts.
Proof. induction ts as [|t ts IH]; simpl; [reflexivity|]. rewrite IH. reflexivity. Qed.

(** [eval_model] only reads the columns named in [model_vars m], and the row count. *)
Theorem eval_model_vars_ext cx d1 d2 m :
  (forall k, In k (model_vars m) -> assoc k d1 = assoc k d2) -> frame_rows d1 = frame_rows d2 ->
  eval_model cx d1 m = eval_model cx d2 m.
Proof.
  intros Ha Hr. unfold eval_model. rewrite Hr.
  assert (Hc : forall c, In c (commons m) -> forall k, In k (cterm_vars c) -> assoc k d1 = assoc k d2).
  { intros c Hc k Hk. apply Ha. unfold model_vars. apply in_or_app. left.
    apply in_flat_map. exists c. auto. }
  assert (Hg : forall g, In g (groups m) ->
                         forall k, In k (cterm_vars (gexpr g) ++ cterm_vars (gfactor g)) -> assoc k d1 = assoc k d2).
  { intros g Hg k Hk. apply Ha. unfold model_vars. apply in_or_app. right. apply in_or_app. left.
    apply in_flat_map. exists g. auto. }
  rewrite (mapM_ext_in (type_common cx d1) (type_common cx d2)).
  2:{ intros [| |t] Hin; simpl; try reflexivity. apply set_type_term_vars_ext. exact (Hc _ Hin). }
  rewrite (mapM_ext_in (set_type_gterm cx d1) (set_type_gterm cx d2)).
  2:{ intros g Hin. specialize (Hg g Hin). unfold set_type_gterm.
      destruct (gfactor g) as [| |f]; try reflexivity.
      rewrite (set_type_comps_vars_ext cx d1 d2 false f)
        by (intros k Hk; apply Hg; apply in_or_app; right; exact Hk).
      destruct (gexpr g) as [| |t]; try reflexivity.
      rewrite (set_type_term_vars_ext cx d1 d2 false t)
        by (intros k Hk; apply Hg; apply in_or_app; left; exact Hk).
      reflexivity. }
  destruct (mapM (type_common cx d2) (commons m)) as [tcs|]; [|reflexivity]. cbn [bind].
  destruct (mapM (set_type_gterm cx d2) (groups m)) as [tgs|]; [|reflexivity]. cbn [bind].
  destruct (encoding_bools _) as [enc1|]; [|reflexivity]. cbn [bind].
  rewrite (add_extra_terms_frame_ext cx d1 d2).
  destruct (resp m) as [t|] eqn:Er; [|reflexivity].
  rewrite (set_type_term_vars_ext cx d1 d2 true t); [reflexivity|].
  intros k Hk. apply Ha. unfold model_vars. apply in_or_app. right. apply in_or_app. right.
  rewrite Er. exact Hk.
Qed.

Theorem eval_model_frame_ext cx d1 d2 m :
  frame_equiv d1 d2 -> eval_model cx d1 m = eval_model cx d2 m.
Proof. intros [Ha Hr]. apply eval_model_vars_ext; [intros; apply Ha|exact Hr]. Qed.

(** ** association lists with distinct keys *)

Lemma assoc_In {V} k (v : V) l : assoc k l = Some v -> In (k, v) l.
Proof.
  induction l as [|[k' v'] l IH]; simpl; [discriminate|].
  destruct (String.eqb_spec k k') as [->|]; [intros H; injection H as ->; auto|auto].
Qed.

Lemma In_assoc {V} k (v : V) l : NoDup (map fst l) -> In (k, v) l -> assoc k l = Some v.
Proof.
  induction l as [|[k' v'] l IH]; simpl; [tauto|]. intros Hnd [H|H].
  - injection H as -> ->. rewrite String.eqb_refl. reflexivity.
  - inversion Hnd as [|? ? Hk Hnd']; subst.
    destruct (String.eqb_spec k k') as [->|]; [|auto].
    exfalso. apply Hk. apply in_map_iff. exists (k', v). auto.
Qed.

Lemma assoc_None_iff {V} k (l : list (string * V)) : assoc k l = None <-> ~ In k (map fst l).
Proof.
  induction l as [|[k' v'] l IH]; simpl; [tauto|].
  destruct (String.eqb_spec k k') as [->|Hne].
  - split; [discriminate|]. intros H. exfalso. apply H. auto.
  - rewrite IH. split; [intros H [E|E]; [congruence|contradiction]|tauto].
Qed.

Lemma assoc_same_members {V} (l1 l2 : list (string * V)) :
  NoDup (map fst l1) -> NoDup (map fst l2) -> (forall x, In x l1 <-> In x l2) ->
  forall k, assoc k l1 = assoc k l2.
Proof.
  intros H1 H2 Hm k. destruct (assoc k l1) as [v|] eqn:E1.
  - apply assoc_In in E1. apply Hm in E1. symmetry. apply In_assoc; assumption.
  - destruct (assoc k l2) as [v|] eqn:E2; [|reflexivity].
    apply assoc_In in E2. apply Hm in E2. apply In_assoc in E2; [congruence|assumption].
Qed.

Lemma NoDup_keys_filter {V} (f : string * V -> bool) l : NoDup (map fst l) -> NoDup (map fst (filter f l)).
Proof.
  induction l as [|[k v] l IH]; simpl; [auto|]. intros H. inversion H as [|? ? Hk Hnd]; subst.
  destruct (f (k, v)); simpl; [|auto]. constructor; [|auto].
  intros Hin. apply Hk. apply in_map_iff in Hin as (x & <- & Hx). apply filter_In in Hx as [Hx _].
  apply in_map. assumption.
Qed.

Lemma NoDup_keys_NoDup {V} (l : list (string * V)) : NoDup (map fst l) -> NoDup l.
Proof. apply NoDup_map_inv. Qed.

Lemma frame_select_keys keep d : map fst (frame_select keep d) = map fst d.
Proof. unfold frame_select. rewrite map_map. reflexivity. Qed.

(** ** the mask does not depend on the order of the columns *)

Lemma zip_orb_swap a : forall b X,
  zip_with orb a (zip_with orb b X) = zip_with orb b (zip_with orb a X).
Proof.
  induction a as [|x a IH]; intros b X.
  - change (zip_with orb [] X) with (@nil bool). rewrite zip_with_nil_r. reflexivity.
  - destruct b as [|y b].
    + change (zip_with orb [] X) with (@nil bool). rewrite zip_with_nil_r. reflexivity.
    + destruct X as [|z X]; [rewrite !zip_with_nil_r; reflexivity|].
      rewrite !zip_with_cons. f_equal; [|apply IH]. destruct x, y, z; reflexivity.
Qed.

Lemma or_rows_perm c1 c2 n : Permutation c1 c2 -> or_rows c1 n = or_rows c2 n.
Proof.
  induction 1 as [|c l1 l2 _ IH|a b l|l1 l2 l3 _ IH1 _ IH2]; simpl.
  - reflexivity.
  - rewrite IH. reflexivity.
  - apply zip_orb_swap.
  - congruence.
Qed.

(** ** the theorem *)

(* the used columns of two frames with distinct column names that agree by name on the model's
   variables are the same set of (name, column) pairs *)
Lemma used_cols_members d1 d2 m :
  NoDup (map fst d1) -> NoDup (map fst d2) ->
  (forall k, In k (model_vars m) -> assoc k d1 = assoc k d2) ->
  forall x, In x (used_cols d1 m) <-> In x (used_cols d2 m).
Proof.
  assert (Half : forall d1 d2, NoDup (map fst d1) ->
                  (forall k, In k (model_vars m) -> assoc k d1 = assoc k d2) ->
                  forall x, In x (used_cols d1 m) -> In x (used_cols d2 m)).
  { clear. intros d1 d2 H1 Ha [k c] Hin. unfold used_cols in *.
    apply filter_In in Hin as [Hin Hu]. apply filter_In. split; [|exact Hu].
    unfold used_in in Hu. cbn [fst] in Hu. apply existsb_exists in Hu as (k' & Hk' & E).
    apply String.eqb_eq in E. subst k'.
    apply assoc_In. rewrite <- Ha by assumption. apply In_assoc; assumption. }
  intros H1 H2 Ha x. split; apply Half; auto. intros k Hk. symmetry. auto.
Qed.

(** Two frames with distinct column names, rectangular, with the same number of rows, that agree
    by name on every variable of the model (the same column or absent in both) give the same
    design under every missing-value policy.  Nothing depends on the order of the columns or on
    the columns the model does not name. *)
Theorem design_frame_agree cx e d1 d2 na :
  NoDup (map fst d1) -> NoDup (map fst d2) ->
  frame_wf d1 -> frame_wf d2 -> frame_rows d1 = frame_rows d2 ->
  (forall m, describe e = Ok m -> forall k, In k (model_vars m) -> assoc k d1 = assoc k d2) ->
  design_matrices cx e d1 na = design_matrices cx e d2 na.
Proof.
  intros Hn1 Hn2 Hw1 Hw2 Hr Hagree. unfold design_matrices.
  destruct (describe e) as [m|] eqn:Hd; [|reflexivity]. cbn [bind].
  specialize (Hagree m eq_refl).
  pose proof (used_cols_members d1 d2 m Hn1 Hn2 Hagree) as Hmem.
  assert (Hk1 : NoDup (map fst (used_cols d1 m))) by (apply NoDup_keys_filter; assumption).
  assert (Hk2 : NoDup (map fst (used_cols d2 m))) by (apply NoDup_keys_filter; assumption).
  assert (Hperm : Permutation (used_cols d1 m) (used_cols d2 m)).
  { apply NoDup_Permutation; [apply NoDup_keys_NoDup; assumption|apply NoDup_keys_NoDup; assumption|exact Hmem]. }
  assert (Hmask : incomplete_mask d1 m = incomplete_mask d2 m).
  { unfold incomplete_mask. rewrite Hr. apply or_rows_perm. apply Permutation_map. exact Hperm. }
  (* the two prepared frames are equivalent *)
  assert (Hequiv : forall keep,
             frame_equiv (frame_select keep (used_cols d1 m)) (frame_select keep (used_cols d2 m)) /\
             (frame_select keep (used_cols d1 m) = [] <-> frame_select keep (used_cols d2 m) = [])).
  { intros keep. split; [split|].
    - apply assoc_same_members; try (rewrite frame_select_keys; assumption).
      intros x. unfold frame_select. rewrite !in_map_iff.
      split; intros (y & <- & Hy); exists y; (split; [reflexivity|]); apply Hmem; assumption.
    - pose proof (used_cols_rect _ _ m Hw1) as R1. pose proof (used_cols_rect _ _ m Hw2) as R2.
      destruct (used_cols d1 m) as [|[k1 c1] u1] eqn:E1; destruct (used_cols d2 m) as [|[k2 c2] u2] eqn:E2.
      + reflexivity.
      + exfalso. apply (Hmem (k2, c2)). left; reflexivity.
      + exfalso. apply (Hmem (k1, c1)). left; reflexivity.
      + inversion R1 as [|? ? L1 _]; inversion R2 as [|? ? L2 _]; subst. cbn [snd] in L1, L2.
        cbn [frame_select map frame_rows fst snd].
        destruct c1, c2; cbn [col_select col_len] in *; apply select_length_eq; congruence.
    - pose proof (Permutation_length Hperm) as L. unfold frame_select.
      destruct (used_cols d1 m), (used_cols d2 m); simpl in *; try discriminate; split; auto; discriminate. }
  rewrite !prepare_data_unfold. unfold complete_mask. rewrite <- Hr, <- Hmask.
  destruct (frame_rows d1 =? 0); [reflexivity|].
  (* the unselected frames: take keep = all rows *)
  assert (Hplain : frame_equiv (used_cols d1 m) (used_cols d2 m) /\
                   (used_cols d1 m = [] <-> used_cols d2 m = [])).
  { split; [split|].
    - apply assoc_same_members; assumption.
    - pose proof (used_cols_rect _ _ m Hw1) as R1. pose proof (used_cols_rect _ _ m Hw2) as R2.
      destruct (used_cols d1 m) as [|[k1 c1] u1] eqn:E1; destruct (used_cols d2 m) as [|[k2 c2] u2] eqn:E2.
      + reflexivity.
      + exfalso. apply (Hmem (k2, c2)). left; reflexivity.
      + exfalso. apply (Hmem (k1, c1)). left; reflexivity.
      + inversion R1; inversion R2; subst. simpl in *. congruence.
    - pose proof (Permutation_length Hperm) as L.
      destruct (used_cols d1 m), (used_cols d2 m); simpl in *; try discriminate; split; auto; discriminate. }
  assert (Fin : forall p1 p2 : frame,
             frame_equiv p1 p2 -> (p1 = [] <-> p2 = []) ->
             eval_model cx match p1 with [] => [("", ColNum true (repeat None (frame_rows d1)))] | _ => p1 end m
             = eval_model cx match p2 with [] => [("", ColNum true (repeat None (frame_rows d1)))] | _ => p2 end m).
  { intros p1 p2 Heq Hnil. destruct p1 as [|x1 p1], p2 as [|x2 p2].
    - reflexivity.
    - exfalso. destruct Hnil as [Hnil _]. discriminate (Hnil eq_refl).
    - exfalso. destruct Hnil as [_ Hnil]. discriminate (Hnil eq_refl).
    - apply eval_model_frame_ext. assumption. }
  destruct (anyb (incomplete_mask d1 m)); [destruct na|]; cbn [bind]; try reflexivity.
  - destruct (Hequiv (map negb (incomplete_mask d1 m))) as [A B]. apply Fin; assumption.
  - destruct Hplain as [A B]. apply Fin; assumption.
  - destruct Hplain as [A B]. apply Fin; assumption.
Qed.

(* ------------------------------------------------------------------------------------------ *)
(** * [design_matrices] as [eval_model] on the original frame *)

Lemma assoc_used_cols k D m : In k (model_vars m) -> assoc k (used_cols D m) = assoc k D.
Proof.
  intros Hk. induction D as [|[k' c] D IH]; [reflexivity|]. unfold used_cols in *. cbn [filter].
  unfold used_in at 1. cbn [fst].
  destruct (String.eqb_spec k k') as [<-|Hne].
  - assert (E : existsb (String.eqb k) (model_vars m) = true).
    { apply existsb_exists. exists k. split; [assumption|apply String.eqb_refl]. }
    rewrite E. simpl. rewrite String.eqb_refl. reflexivity.
  - destruct (existsb (String.eqb k') (model_vars m)); simpl.
    + apply String.eqb_neq in Hne. rewrite Hne. exact IH.
    + apply String.eqb_neq in Hne. rewrite Hne. exact IH.
Qed.

Lemma frame_select_wf keep D :
  frame_wf D -> D <> [] -> List.length keep = frame_rows D -> frame_wf (frame_select keep D).
Proof.
  intros Hwf Hne Hl. unfold frame_wf. rewrite (frame_select_rows _ _ Hwf Hne Hl).
  unfold rect, frame_select. apply Forall_map. eapply Forall_impl; [|exact Hwf].
  intros [k c] Hc. cbn [fst snd] in *. destruct c; cbn [col_select col_len] in *;
    apply select_length; congruence.
Qed.

(** When nothing has to be dropped (or under "pass") [design_matrices] is [eval_model] on the
    frame as given: the restriction to the used columns is invisible.  Under "drop" it is
    [eval_model] on the frame without its incomplete rows. *)
Theorem design_matrices_eval_model cx e D m :
  describe e = Ok m -> frame_wf D -> frame_rows D <> 0 -> used_cols D m <> [] ->
  (forall na, na = NaPass \/ anyb (incomplete_mask D m) = false ->
              design_matrices cx e D na = eval_model cx D m) /\
  (count_true (complete_mask D m) <> 0 ->
   design_matrices cx e D NaDrop = eval_model cx (frame_select (complete_mask D m) D) m).
Proof.
  assert (Main : forall D, describe e = Ok m -> frame_wf D -> frame_rows D <> 0 -> used_cols D m <> [] ->
                 forall na, na = NaPass \/ anyb (incomplete_mask D m) = false ->
                            design_matrices cx e D na = eval_model cx D m).
  { clear D. intros D Hd Hwf Hn Hu na Hna. unfold design_matrices. rewrite Hd. cbn [bind].
    assert (P : prepare_data D m na = Ok (used_cols D m)).
    { rewrite prepare_data_unfold. apply Nat.eqb_neq in Hn. rewrite Hn.
      destruct Hna as [-> | ->]; [destruct (anyb _); reflexivity|reflexivity]. }
    rewrite P. cbn [bind]. destruct (used_cols D m) as [|kv u] eqn:Eu; [congruence|].
    rewrite <- Eu. apply eval_model_vars_ext.
    - intros k Hk. apply assoc_used_cols. assumption.
    - apply frame_rows_rect; [apply used_cols_rect; exact Hwf|congruence]. }
  intros Hd Hwf Hn Hu. split; [apply Main; assumption|].
  intros Hc. rewrite <- (design_drop_is_filter cx e D m NaPass Hd Hwf Hn Hc).
  pose proof (frame_rows_nonempty _ Hn) as Hne.
  pose proof (complete_mask_length _ m Hwf) as Hl.
  apply Main; auto.
  - apply frame_select_wf; assumption.
  - rewrite (frame_select_rows _ _ Hwf Hne Hl). assumption.
  - rewrite used_cols_select. destruct (used_cols D m); [congruence|discriminate].
Qed.
