(* Property C06: evaluating a design on new data made of rows of the training frame reproduces the
   corresponding rows of the training matrices; the parameters of stateful transforms are frozen.
   Also here (Section Refit), for property C08: training again on a frame whose rows are permuted.

   Everything is proved for an abstract row operation [sel] on lists that is natural in the
   element type ([sel_map]), commutes with [combine] on lists of equal length ([sel_combine]) and
   only returns elements of its argument ([sel_In]).  Two instances are given at the end:
   [select keep] (a boolean mask) and [pick idx] (an arbitrary list of row numbers: any order,
   repetitions allowed).

   Layers:  [eval_lazy_sel] (call trees, state threading)  ->  [new_comp_sel] (components)
            ->  [new_term_sel] (terms)  ->  [new_common_sel] (matrices)
            ->  [eval_model_new_common_sel] (on [eval_model])
            ->  [design_new_common_select]/[_pick] (on [design_matrices]).
   Fragment: [rowwise_safe] (core), [rowwise_safe_poly], [rowwise_safe_bs] = [safe_gen extra].
   Refit:   [eval_lazy_refit] -> [set_type_comp_refit], [set_data_comp_refit]
            -> [set_data_term_refit] -> [eval_model_refit] -> [perm_rows].
   Purity:  [eval_lazy_predict_pure] (the prediction pass records nothing, for every call tree),
            [eval_new_state_unchanged]. *)
From Verif Require Import Base Tokens Lazy Algebra Coding Contrasts Frame Eval Design.
From Verif Require Import DesignStructure DesignCoding FrameStructure Unseen PermKernel.
From Coq Require Import Lia Permutation.
Local Close Scope Qc_scope.
Local Close Scope Q_scope.
Local Open Scope string_scope.
Local Open Scope list_scope.
Local Open Scope nat_scope.

(* ------------------------------------------------------------------------------------------ *)
(** * The fragment *)

Definition safe_callees : list string :=
  ["I"; "center"; "scale"; "standardize"; "Treatment"; "Sum"; "offset"; "C"; "S"; "T"].
Definition box_callees : list string := ["C"; "S"; "T"].

Definition spline_callees : list string := ["bs"; "poly"].

(** Call trees covered by the theorems: variables, literals, the unary and binary operators,
    and calls of I, center, scale, standardize, Treatment, Sum, offset, C, S, T -- the last three
    with at most two positional arguments and no [levels=] keyword -- and of the callees listed
    in [extra] (the theorems allow [extra] within bs, poly; bs needs a non-empty selection).
    Not covered: binary/B (re-estimates the success value), p/prop/proportion (response only),
    C/S/T with explicit levels (re-validated against the new data). *)
Fixpoint safe_gen (extra : list string) (l : lazy) : bool :=
  match l with
  | LzVar _ => true
  | LzVal _ _ => true
  | LzOp _ args => forallb (safe_gen extra) args
  | LzCall c args kw =>
      existsb (String.eqb c) (safe_callees ++ extra) &&
      forallb (safe_gen extra) args &&
      forallb (fun kv => match kv with (_, a) => safe_gen extra a end) kw &&
      (if existsb (String.eqb c) box_callees
       then (List.length args <=? 2) && negb (existsb (fun kv => String.eqb (fst kv) "levels") kw)
       else true)
  end.

(* the core fragment: no bs, no poly *)
Definition rowwise_safe : lazy -> bool := safe_gen [].
(* with the polynomial basis; with both bases (bs needs at least one selected row) *)
Definition rowwise_safe_poly : lazy -> bool := safe_gen ["poly"].
Definition rowwise_safe_bs : lazy -> bool := safe_gen ["poly"; "bs"].

Definition is_scalar (v : pyval) : bool :=
  match v with
  | PNumber _ _ | PStr _ | PBoolean _ | PNoneV | PStrList _ | PEncClass _ | PEnc _ => true
  | _ => false
  end.

(* no column is an ordered Categorical (one that declares its own levels) *)
Definition frame_unordered (D : frame) : Prop :=
  Forall (fun kv => match snd kv with ColStr (Some _) _ => False | _ => True end) D.

(* the labels of numeric categorical data are decimal numerals *)
Definition num_labels_ok (num : bool) (d : list (option string)) : Prop :=
  num = true -> forall s, In (Some s) d -> exists z, s = zshow z.

(* what the training pass produces on a rectangular frame with n rows, in the fragment *)
Definition good (n : nat) (v : pyval) : Prop :=
  match v with
  | PSeries _ xs => List.length xs = n
  | PMatrix rows => List.length rows = n /\ exists w, Forall (fun r => List.length r = w) rows
  | PStrs o xs => o = None /\ List.length xs = n
  | PBox num d _ lv => lv = None /\ List.length d = n /\ num_labels_ok num d
  | POffset c xs => c = None -> List.length xs = n
  | PProp _ _ _ => False   (* a response-only value: never produced in the fragment *)
  | _ => True
  end.

(* ------------------------------------------------------------------------------------------ *)
(** * Generic monad lemmas *)

Definition rows_eq (D : frame) (n : nat) : Prop := frame_rows D = n.
Definition is_nil (l : list string) : Prop := l = [].


Lemma mapM_pairs {A B} (f : A -> res B) (q : list (A * B)) :
  Forall (fun xy => f (fst xy) = Ok (snd xy)) q -> mapM f (map fst q) = Ok (map snd q).
Proof.
  induction 1 as [|[x y] q H _ IH]; simpl; [reflexivity|].
  simpl in H. rewrite H. simpl. rewrite IH. reflexivity.
Qed.

Lemma Forall2_combine {A B} (P : A -> B -> Prop) l r :
  Forall2 P l r -> Forall (fun xy => P (fst xy) (snd xy)) (combine l r).
Proof. induction 1; simpl; constructor; auto. Qed.

Lemma map_const_tt {T} (l : list T) : map (fun _ => tt) l = repeat tt (List.length l).
Proof. induction l; simpl; [reflexivity|f_equal; assumption]. Qed.

Lemma repeat_map_tt {T} (x : T) n : repeat x n = map (fun _ => x) (repeat tt n).
Proof. induction n; simpl; [reflexivity|f_equal; assumption]. Qed.

(* ------------------------------------------------------------------------------------------ *)
Section Sel.
  Variable sel : forall T : Type, list T -> list T.
  Arguments sel {T} _.
  Hypothesis sel_map : forall (S T : Type) (f : S -> T) (l : list S), sel (map f l) = map f (sel l).
  Hypothesis sel_combine : forall (S T : Type) (a : list S) (b : list T),
      List.length a = List.length b -> combine (sel a) (sel b) = sel (combine a b).
  Hypothesis sel_In : forall (T : Type) (x : T) (l : list T), In x (sel l) -> In x l.

  (* the additional stateful callees that are allowed *)
  Variable extra : list string.
  Hypothesis extra_ok : forall c, In c extra -> In c spline_callees.
  Notation rsafe := (safe_gen extra).

  (** ** consequences of the three hypotheses *)

  Lemma sel_nil {T} : sel (@nil T) = [].
  Proof.
    destruct (sel (@nil T)) as [|x r] eqn:E; [reflexivity|].
    exfalso. apply (sel_In T x []). rewrite E. left; reflexivity.
  Qed.

  (* how many rows are selected out of n *)
  Definition seln (n : nat) : nat := List.length (sel (repeat tt n)).

  Lemma sel_length {T} (l : list T) : List.length (sel l) = seln (List.length l).
  Proof.
    unfold seln. rewrite <- map_const_tt, sel_map, map_length. reflexivity.
  Qed.

  Lemma seln_0 : seln 0 = 0.
  Proof. unfold seln. simpl. rewrite sel_nil. reflexivity. Qed.

  Lemma sel_repeat {T} (x : T) n : sel (repeat x n) = repeat x (seln n).
  Proof.
    rewrite repeat_map_tt, sel_map. unfold seln.
    induction (sel (repeat tt n)); simpl; [reflexivity|f_equal; assumption].
  Qed.

  Lemma sel_zip_with {X Y Z} (f : X -> Y -> Z) a b :
    List.length a = List.length b -> zip_with f (sel a) (sel b) = sel (zip_with f a b).
  Proof. intros H. unfold zip_with. rewrite sel_combine by assumption. symmetry. apply sel_map. Qed.

  Lemma sel_Forall {T} (P : T -> Prop) l : Forall P l -> Forall P (sel l).
  Proof. rewrite !Forall_forall. intros H x Hx. apply H. apply sel_In. assumption. Qed.

  Lemma sel_mapM {A B} (f : A -> res B) l r : mapM f l = Ok r -> mapM f (sel l) = Ok (sel r).
  Proof.
    intros H. pose proof (mapM_length _ _ _ H) as Hl. apply mapM_ok in H.
    apply Forall2_combine in H. apply sel_Forall in H. apply mapM_pairs in H.
    rewrite <- !sel_map in H.
    rewrite map_fst_combine_eq, map_snd_combine_eq in H by congruence. exact H.
  Qed.

  Lemma sel_existsb {T} (f : T -> bool) l : existsb f (sel l) = true -> existsb f l = true.
  Proof.
    rewrite !existsb_exists. intros (x & Hx & Hf). exists x. split; [apply sel_In|]; assumption.
  Qed.

  (** ** rows of columns, frames, values *)

  Definition col_sel (c : column) : column :=
    match c with ColNum i v => ColNum i (sel v) | ColStr o v => ColStr o (sel v) end.

  Definition frame_sel (f : frame) : frame := map (fun kv => (fst kv, col_sel (snd kv))) f.

  Definition val_sel (v : pyval) : pyval :=
    match v with
    | PSeries i xs => PSeries i (sel xs)
    | PMatrix rows => PMatrix (sel rows)
    | PStrs o xs => PStrs o (sel xs)
    | PBox num d c lv => PBox num (sel d) c lv
    | POffset c xs => POffset c (sel xs)
    | PProp ss ts ct => PProp (sel ss) (sel ts) ct
    | _ => v
    end.

  Lemma assoc_frame_sel k f : assoc k (frame_sel f) = option_map col_sel (assoc k f).
  Proof.
    induction f as [|[k' c] f IH]; simpl; [reflexivity|].
    destruct (String.eqb k k'); [reflexivity|exact IH].
  Qed.

  Lemma frame_rows_sel f : frame_rows (frame_sel f) = seln (frame_rows f).
  Proof.
    destruct f as [|[k c] f]; simpl; [symmetry; apply seln_0|].
    destruct c; simpl; apply sel_length.
  Qed.

  Lemma col_value_sel c : col_value (col_sel c) = val_sel (col_value c).
  Proof. destruct c; reflexivity. Qed.

  Lemma val_sel_scalar v : is_scalar v = true -> val_sel v = v.
  Proof. destruct v; simpl; intros H; try reflexivity; discriminate. Qed.

  Lemma good_sel n v : good n v -> good (seln n) (val_sel v).
  Proof.
    destruct v; simpl; auto.
    - intros <-. apply sel_length.
    - intros [<- (w & Hw)]. split; [apply sel_length|]. exists w. apply sel_Forall. exact Hw.
    - intros [-> <-]. split; [reflexivity|apply sel_length].
    - intros (-> & <- & H). split; [reflexivity|]. split; [apply sel_length|].
      intros E s Hs. apply (H E). apply sel_In. assumption.
    - intros H E. rewrite <- (H E). apply sel_length.
  Qed.

  (** ** the row-wise operators *)

  Lemma apply_binop_sel n sym a b v :
    good n a -> good n b -> apply_binop sym a b = Ok v ->
    apply_binop sym (val_sel a) (val_sel b) = Ok (val_sel v) /\ good n v.
  Proof.
    intros Ga Gb H.
    destruct a as [ia xs| | | ia x| | | | | | | | |]; try discriminate H;
      destruct b as [ib ys| | | ib y| | | | | | | | |]; try discriminate H;
      cbn [apply_binop val_sel good] in *.
    - apply bind_ok in H as (l & Hl & H). apply bind_ok in H as (t & Ht & H). injection H as <-.
      rewrite sel_combine by congruence. rewrite (sel_mapM _ _ _ Hl). cbn [bind]. rewrite Ht.
      cbn [bind val_sel good]. split; [reflexivity|].
      rewrite (mapM_length _ _ _ Hl), combine_length. lia.
    - apply bind_ok in H as (l & Hl & H). apply bind_ok in H as (t & Ht & H). injection H as <-.
      rewrite (sel_mapM _ _ _ Hl). cbn [bind]. rewrite Ht. cbn [bind val_sel good].
      split; [reflexivity|]. rewrite (mapM_length _ _ _ Hl). assumption.
    - apply bind_ok in H as (l & Hl & H). apply bind_ok in H as (t & Ht & H). injection H as <-.
      rewrite (sel_mapM _ _ _ Hl). cbn [bind]. rewrite Ht. cbn [bind val_sel good].
      split; [reflexivity|]. rewrite (mapM_length _ _ _ Hl). assumption.
    - apply bind_ok in H as (r & Hr & H). rewrite Hr. cbn [bind].
      destruct (snd r); [|discriminate H]. injection H as <-. split; reflexivity.
  Qed.

  Lemma apply_unop_sel n sym a v :
    good n a -> apply_unop sym a = Ok v ->
    apply_unop sym (val_sel a) = Ok (val_sel v) /\ good n v.
  Proof.
    unfold apply_unop. intros Ga H.
    destruct (String.eqb sym "+").
    - destruct a; try discriminate H; injection H as <-; split; auto.
    - destruct (String.eqb sym "-"); [|discriminate H].
      destruct a; try discriminate H; injection H as <-; cbn [val_sel good] in *.
      + rewrite sel_map. split; [reflexivity|]. rewrite map_length. assumption.
      + split; reflexivity.
  Qed.

  (** ** argument binding *)

  Definition kv_sel (kv : string * pyval) : string * pyval := (fst kv, val_sel (snd kv)).

  Lemma assoc_kv_sel k l : assoc k (map kv_sel l) = option_map val_sel (assoc k l).
  Proof.
    induction l as [|[k' v] l IH]; simpl; [reflexivity|].
    destruct (String.eqb k k'); [reflexivity|exact IH].
  Qed.

  Lemma existsb_key_sel (f : string -> bool) l :
    existsb (fun k : string * pyval => f (fst k)) (map kv_sel l) = existsb (fun k => f (fst k)) l.
  Proof. rewrite existsb_map'. reflexivity. Qed.

  Lemma forallb_map' {S T} (f : T -> bool) (g : S -> T) l : forallb f (map g l) = forallb (fun x => f (g x)) l.
  Proof. induction l as [|x l IH]; simpl; [reflexivity|]. rewrite IH. reflexivity. Qed.

  Lemma forallb_ext' {T} (f g : T -> bool) l : (forall x, f x = g x) -> forallb f l = forallb g l.
  Proof. intros H. induction l as [|x l IH]; simpl; [reflexivity|]. rewrite H, IH. reflexivity. Qed.

  Lemma check_kw_sel params kw : check_kw params (map kv_sel kw) = check_kw params kw.
  Proof. unfold check_kw. rewrite forallb_map'. reflexivity. Qed.

  Lemma bind_args_sel params : forall pos kw b,
    bind_args params pos kw = Ok b ->
    bind_args params (map val_sel pos) (map kv_sel kw) = Ok (map kv_sel b).
  Proof.
    induction params as [|p ps IH]; intros [|v vs] kw b H; simpl in *.
    - injection H as <-. reflexivity.
    - discriminate.
    - apply bind_ok in H as (r & Hr & H). pose proof (IH [] _ _ Hr) as IH'. simpl in IH'.
      rewrite IH'. cbn [bind]. rewrite assoc_kv_sel. destruct (assoc p kw); injection H as <-; reflexivity.
    - rewrite (existsb_key_sel (fun k => String.eqb k p)).
      destruct (existsb _ kw); [discriminate|].
      apply bind_ok in H as (r & Hr & H). rewrite (IH _ _ _ Hr). injection H as <-. reflexivity.
  Qed.

  Lemma bind_args_Forall (P : pyval -> Prop) params : forall pos kw b,
    bind_args params pos kw = Ok b -> Forall P pos -> Forall (fun kv => P (snd kv)) kw ->
    Forall (fun kv => P (snd kv)) b.
  Proof.
    induction params as [|p ps IH]; intros [|v vs] kw b H Hp Hk; simpl in *.
    - injection H as <-. constructor.
    - discriminate.
    - apply bind_ok in H as (r & Hr & H). specialize (IH _ _ _ Hr Hp Hk).
      destruct (assoc p kw) as [v|] eqn:E; injection H as <-; [|assumption].
      constructor; [|assumption]. apply assoc_In in E. rewrite Forall_forall in Hk.
      apply (Hk _ E).
    - destruct (existsb _ kw); [discriminate|].
      apply bind_ok in H as (r & Hr & H). injection H as <-. inversion Hp; subst.
      constructor; [assumption|]. eapply IH; eauto.
  Qed.

  (* a parameter that is neither given by position nor by keyword stays unbound *)
  Lemma bind_args_unbound name params : forall pos kw b,
    bind_args params pos kw = Ok b -> assoc name kw = None ->
    ~ In name (firstn (List.length pos) params) -> assoc name b = None.
  Proof.
    induction params as [|p ps IH]; intros [|v vs] kw b H Hk Hn; simpl in *.
    - injection H as <-. reflexivity.
    - discriminate.
    - apply bind_ok in H as (r & Hr & H). specialize (IH [] kw r Hr Hk).
      simpl in IH. specialize (IH (fun x => x)).
      destruct (assoc p kw) as [v|] eqn:E; injection H as <-; [|assumption].
      simpl. destruct (String.eqb_spec name p) as [->|]; [congruence|assumption].
    - destruct (existsb _ kw); [discriminate|].
      apply bind_ok in H as (r & Hr & H). injection H as <-. simpl.
      destruct (String.eqb_spec name p) as [->|]; [exfalso; apply Hn; left; reflexivity|].
      apply (IH _ _ _ Hr Hk). intros Hin. apply Hn. right. assumption.
  Qed.

  Lemma arg_sel name b : arg name (map kv_sel b) = val_sel (arg name b).
  Proof. unfold arg. rewrite assoc_kv_sel. destruct (assoc name b); reflexivity. Qed.

  Lemma arg_good n name b : Forall (fun kv => good n (snd kv)) b -> good n (arg name b).
  Proof.
    intros H. unfold arg. destruct (assoc name b) as [v|] eqn:E; [|exact I].
    apply assoc_In in E. rewrite Forall_forall in H. apply (H _ E).
  Qed.

  (* the signature wrapper of call_function *)
  Definition with_sig (pos : list pyval) (kw : list (string * pyval)) (params : list string)
             (required : nat) (k : list (string * pyval) -> res pyval) : res pyval :=
    if negb (check_kw params kw) then Err EType
    else do b <- bind_args params pos kw;
         if forallb (fun p => existsb (fun x => String.eqb (fst x) p) b) (firstn required params)
         then k b else Err EType.

  Lemma with_sig_sel n (Q : Prop) pos kw params req k v :
    Forall (good n) pos -> Forall (fun kv => good n (snd kv)) kw ->
    (forall b, Forall (fun kv => good n (snd kv)) b ->
               (forall name, assoc name kw = None ->
                             ~ In name (firstn (List.length pos) params) -> assoc name b = None) ->
               k b = Ok v -> k (map kv_sel b) = Ok (val_sel v) /\ Q) ->
    with_sig pos kw params req k = Ok v ->
    with_sig (map val_sel pos) (map kv_sel kw) params req k = Ok (val_sel v) /\ Q.
  Proof.
    unfold with_sig. intros Hp Hk Hcont H. rewrite check_kw_sel.
    destruct (negb (check_kw params kw)); [discriminate|].
    apply bind_ok in H as (b & Hb & H). rewrite (bind_args_sel _ _ _ _ Hb). cbn [bind].
    rewrite (forallb_ext' _ (fun p => existsb (fun x => String.eqb (fst x) p) b)).
    2:{ intros p. apply (existsb_key_sel (fun k => String.eqb k p)). }
    destruct (forallb _ (firstn req params)); [|discriminate].
    apply Hcont; [|intros name; apply (bind_args_unbound name _ _ _ _ Hb)|exact H].
    apply (bind_args_Forall (good n) _ _ _ _ Hb Hp Hk).
  Qed.

  (** ** the plain functions of the fragment *)

  Definition k_I (b : list (string * pyval)) : res pyval := Ok (arg "x" b).
  Definition k_Treatment (b : list (string * pyval)) : res pyval :=
    do r <- as_label (arg "reference" b); Ok (PEnc (Treatment r)).
  Definition k_Sum (b : list (string * pyval)) : res pyval :=
    do r <- as_label (arg "omit" b); Ok (PEnc (Sum r)).
  Definition k_offset (b : list (string * pyval)) : res pyval :=
    match arg "x" b with
    | PSeries _ xs => Ok (POffset None xs)
    | PNumber _ q => Ok (POffset (Some q) [])
    | _ => Err EValue
    end.
  Definition k_C (b : list (string * pyval)) : res pyval :=
    do c <- as_encoding (arg "contrast" b);
    do lv <- as_levels (arg "levels" b);
    match arg "data" b with
    | PBox num d c0 lv0 =>
        mk_box num None d (match c with None => c0 | _ => c end) (match lv with None => lv0 | _ => lv end)
    | v => do s <- series_strings v; mk_box (fst (fst s)) (snd (fst s)) (snd s) c lv
    end.
  Definition k_S (b : list (string * pyval)) : res pyval :=
    do o <- as_label (arg "omit" b);
    do lv <- as_levels (arg "levels" b);
    do s <- series_strings (arg "data" b);
    mk_box (fst (fst s)) (snd (fst s)) (snd s) (Some (Sum o)) lv.
  Definition k_T (b : list (string * pyval)) : res pyval :=
    do o <- as_label (arg "ref" b);
    do lv <- as_levels (arg "levels" b);
    do s <- series_strings (arg "data" b);
    mk_box (fst (fst s)) (snd (fst s)) (snd s) (Some (Treatment o)) lv.

  Lemma call_function_I cx pos kw : call_function cx "I" pos kw = with_sig pos kw ["x"] 1 k_I.
  Proof. reflexivity. Qed.
  Lemma call_function_Treatment cx pos kw :
    call_function cx "Treatment" pos kw = with_sig pos kw ["reference"] 0 k_Treatment.
  Proof. reflexivity. Qed.
  Lemma call_function_Sum cx pos kw : call_function cx "Sum" pos kw = with_sig pos kw ["omit"] 0 k_Sum.
  Proof. reflexivity. Qed.
  Lemma call_function_offset cx pos kw : call_function cx "offset" pos kw = with_sig pos kw ["x"] 1 k_offset.
  Proof. reflexivity. Qed.
  Lemma call_function_C cx pos kw :
    call_function cx "C" pos kw = with_sig pos kw ["data"; "contrast"; "levels"] 1 k_C.
  Proof. reflexivity. Qed.
  Lemma call_function_S cx pos kw :
    call_function cx "S" pos kw = with_sig pos kw ["data"; "omit"; "levels"] 1 k_S.
  Proof. reflexivity. Qed.
  Lemma call_function_T cx pos kw :
    call_function cx "T" pos kw = with_sig pos kw ["data"; "ref"; "levels"] 1 k_T.
  Proof. reflexivity. Qed.

  Lemma as_label_sel v : as_label (val_sel v) = as_label v.
  Proof. destruct v; reflexivity. Qed.
  Lemma as_encoding_sel v : as_encoding (val_sel v) = as_encoding v.
  Proof. destruct v; reflexivity. Qed.
  Lemma as_levels_sel v : as_levels (val_sel v) = as_levels v.
  Proof. destruct v; reflexivity. Qed.

  (* a categorical box made from a series, without declared levels *)
  Lemma box_of_series_sel n dv c s v :
    good n dv -> series_strings dv = Ok s ->
    mk_box (fst (fst s)) (snd (fst s)) (snd s) c None = Ok v ->
    exists s', series_strings (val_sel dv) = Ok s' /\
               mk_box (fst (fst s')) (snd (fst s')) (snd s') c None = Ok (val_sel v) /\ good n v.
  Proof.
    intros G Hs Hm. destruct dv as [i xs| |o xs| | | | | | | | | |]; try discriminate Hs.
    - destruct i; [|discriminate Hs]. cbn [series_strings] in Hs. injection Hs as <-.
      cbn [fst snd mk_box] in Hm. injection Hm as <-.
      eexists. cbn [val_sel series_strings]. split; [reflexivity|]. cbn [fst snd mk_box].
      rewrite sel_map. split; [reflexivity|]. cbn [good] in *.
      split; [reflexivity|]. split; [rewrite map_length; assumption|].
      intros _ s Hin. apply in_map_iff in Hin as ([q|] & E & _); [|discriminate].
      injection E as <-. eexists. reflexivity.
    - cbn [series_strings] in Hs. injection Hs as <-. cbn [good] in G. destruct G as [-> G].
      cbn [fst snd mk_box] in Hm. injection Hm as <-.
      eexists. cbn [val_sel series_strings]. split; [reflexivity|]. cbn [fst snd mk_box].
      split; [reflexivity|]. cbn [good]. split; [reflexivity|]. split; [assumption|].
      intros E. discriminate E.
  Qed.

  Lemma k_C_sel n b v :
    Forall (fun kv => good n (snd kv)) b -> assoc "levels" b = None ->
    k_C b = Ok v -> k_C (map kv_sel b) = Ok (val_sel v) /\ good n v.
  Proof.
    unfold k_C. intros G Hl H. rewrite !arg_sel, as_encoding_sel, as_levels_sel.
    apply bind_ok in H as (c & Hc & H). rewrite Hc. cbn [bind].
    assert (El : arg "levels" b = PNoneV) by (unfold arg; rewrite Hl; reflexivity).
    rewrite El in *. cbn [as_levels bind] in *.
    pose proof (arg_good n "data" b G) as Gd.
    destruct (arg "data" b) as [i xs| |o xs| | | | | | | |num d c0 lv0| |] eqn:Ed;
      try (apply bind_ok in H as (ss & Hss & H); discriminate Hss).
    - apply bind_ok in H as (s & Hs & H).
      destruct (box_of_series_sel n _ c s v Gd Hs H) as (s' & Hs' & Hm' & Gv).
      cbn [val_sel] in *. rewrite Hs'. cbn [bind]. auto.
    - apply bind_ok in H as (s & Hs & H).
      destruct (box_of_series_sel n _ c s v Gd Hs H) as (s' & Hs' & Hm' & Gv).
      cbn [val_sel] in *. rewrite Hs'. cbn [bind]. auto.
    - cbn [good] in Gd. destruct Gd as (-> & Gl & Gn). cbn [val_sel mk_box] in *.
      injection H as <-. cbn [val_sel good]. auto.
  Qed.

  Lemma k_S_sel n b v :
    Forall (fun kv => good n (snd kv)) b -> assoc "levels" b = None ->
    k_S b = Ok v -> k_S (map kv_sel b) = Ok (val_sel v) /\ good n v.
  Proof.
    unfold k_S. intros G Hl H. rewrite !arg_sel, as_label_sel, as_levels_sel.
    apply bind_ok in H as (o & Ho & H). rewrite Ho. cbn [bind].
    assert (El : arg "levels" b = PNoneV) by (unfold arg; rewrite Hl; reflexivity).
    rewrite El in *. cbn [as_levels bind] in *.
    apply bind_ok in H as (s & Hs & H).
    destruct (box_of_series_sel n _ _ s v (arg_good n "data" b G) Hs H) as (s' & Hs' & Hm' & Gv).
    rewrite Hs'. cbn [bind]. auto.
  Qed.

  Lemma k_T_sel n b v :
    Forall (fun kv => good n (snd kv)) b -> assoc "levels" b = None ->
    k_T b = Ok v -> k_T (map kv_sel b) = Ok (val_sel v) /\ good n v.
  Proof.
    unfold k_T. intros G Hl H. rewrite !arg_sel, as_label_sel, as_levels_sel.
    apply bind_ok in H as (o & Ho & H). rewrite Ho. cbn [bind].
    assert (El : arg "levels" b = PNoneV) by (unfold arg; rewrite Hl; reflexivity).
    rewrite El in *. cbn [as_levels bind] in *.
    apply bind_ok in H as (s & Hs & H).
    destruct (box_of_series_sel n _ _ s v (arg_good n "data" b G) Hs H) as (s' & Hs' & Hm' & Gv).
    rewrite Hs'. cbn [bind]. auto.
  Qed.

  Definition fun_callees : list string := ["I"; "Treatment"; "Sum"; "offset"; "C"; "S"; "T"].

  Lemma levels_unbound (pos : list pyval) (kw b : list (string * pyval)) p2 :
    List.length pos <= 2 /\ assoc "levels" kw = None -> p2 <> "levels" ->
    (forall nm, assoc nm kw = None ->
                ~ In nm (firstn (List.length pos) ["data"; p2; "levels"]) -> assoc nm b = None) ->
    assoc "levels" b = None.
  Proof.
    intros [Hlen Hk] Hp Hun. apply Hun; [assumption|].
    intros Hf. destruct pos as [|p1 [|p3 [|p4 r]]]; simpl in Hlen; try lia; simpl in Hf.
    - assumption.
    - destruct Hf as [E|[]]; discriminate E.
    - destruct Hf as [E|[E|[]]]; [discriminate E|congruence].
  Qed.

  Lemma call_function_sel n cx cx' name pos kw v :
    In name fun_callees ->
    Forall (good n) pos -> Forall (fun kv => good n (snd kv)) kw ->
    (In name box_callees -> List.length pos <= 2 /\ assoc "levels" kw = None) ->
    call_function cx name pos kw = Ok v ->
    call_function cx' name (map val_sel pos) (map kv_sel kw) = Ok (val_sel v) /\ good n v.
  Proof.
    intros Hin Gp Gk Hbox H.
    simpl in Hin. destruct Hin as [<-|[<-|[<-|[<-|[<-|[<-|[<-|[]]]]]]]].
    - rewrite call_function_I in *. apply (with_sig_sel n (good n v) _ _ _ _ _ _ Gp Gk); [|exact H].
      unfold k_I. intros b G _ E. injection E as <-. rewrite arg_sel. split; [reflexivity|].
      apply arg_good. assumption.
    - rewrite call_function_Treatment in *. apply (with_sig_sel n (good n v) _ _ _ _ _ _ Gp Gk); [|exact H].
      unfold k_Treatment. intros b G _ E. rewrite arg_sel, as_label_sel.
      apply bind_ok in E as (r & Hr & E). rewrite Hr. injection E as <-. split; reflexivity.
    - rewrite call_function_Sum in *. apply (with_sig_sel n (good n v) _ _ _ _ _ _ Gp Gk); [|exact H].
      unfold k_Sum. intros b G _ E. rewrite arg_sel, as_label_sel.
      apply bind_ok in E as (r & Hr & E). rewrite Hr. injection E as <-. split; reflexivity.
    - rewrite call_function_offset in *. apply (with_sig_sel n (good n v) _ _ _ _ _ _ Gp Gk); [|exact H].
      unfold k_offset. intros b G _ E. rewrite arg_sel. pose proof (arg_good n "x" b G) as Gx.
      destruct (arg "x" b); try discriminate E; injection E as <-; cbn [val_sel good] in *.
      + split; [reflexivity|]. intros _. assumption.
      + rewrite sel_nil. split; [reflexivity|]. discriminate.
    - rewrite call_function_C in *. apply (with_sig_sel n (good n v) _ _ _ _ _ _ Gp Gk); [|exact H].
      intros b G Hun E. apply k_C_sel; try assumption.
      apply (levels_unbound pos kw b "contrast"); [apply Hbox; simpl; auto|discriminate|exact Hun].
    - rewrite call_function_S in *. apply (with_sig_sel n (good n v) _ _ _ _ _ _ Gp Gk); [|exact H].
      intros b G Hun E. apply k_S_sel; try assumption.
      apply (levels_unbound pos kw b "omit"); [apply Hbox; simpl; auto|discriminate|exact Hun].
    - rewrite call_function_T in *. apply (with_sig_sel n (good n v) _ _ _ _ _ _ Gp Gk); [|exact H].
      intros b G Hun E. apply k_T_sel; try assumption.
      apply (levels_unbound pos kw b "ref"); [apply Hbox; simpl; auto|discriminate|exact Hun].
  Qed.


  (** ** the stateful transforms center / scale / standardize *)

  Definition stat_callees : list string := ["center"; "scale"; "standardize"].

  Definition stateful_body (cx : ectx) (is_center : bool) (st : list tparam) (b : list (string * pyval))
    : res (pyval * list tparam * list tparam) :=
    match arg "x" b with
    | PSeries _ xs =>
        if is_center then
          if e_fit cx then
            let m := cmean xs in Ok (PSeries false (map (fun x => csub x m) xs), st, [TPCenter m])
          else match st with
               | TPCenter m :: st' => Ok (PSeries false (map (fun x => csub x m) xs), st', [])
               | _ => Err EAssert end
        else
          let go m sd :=
            do l <- mapM (fun x => cdiv (csub x m) sd) xs; Ok (PSeries false l) in
          if e_fit cx then
            let m := cmean xs in let sd := cstd (e_sqrt cx) xs in
            do v <- go m sd; Ok (v, st, [TPScale m sd])
          else match st with
               | TPScale m sd :: st' => do v <- go m sd; Ok (v, st', [])
               | _ => Err EAssert end
    | _ => Err EUnsupported
    end.

  Lemma call_stateful_unfold cx name st pos kw :
    In name stat_callees ->
    call_stateful cx name st pos kw =
    if negb (check_kw ["x"] kw) then Err EType else
    do b <- bind_args ["x"] pos kw; stateful_body cx (String.eqb name "center") st b.
  Proof. intros [<-|[<-|[<-|[]]]]; reflexivity. Qed.

  (** The training pass ([e_fit = true]) leaves the incoming state alone and records exactly the
      parameters that the prediction pass ([e_fit = false]) consumes from the head of its state;
      with those parameters the prediction pass on the selected rows returns the selected rows of
      the training value.  Nothing is re-estimated. *)
  Lemma call_stateful_sel n d dP ex sq name st pos kw v st1 rec :
    In name stat_callees ->
    Forall (good n) pos -> Forall (fun kv => good n (snd kv)) kw ->
    call_stateful (ECtx d ex sq true) name st pos kw = Ok (v, st1, rec) ->
    st1 = st /\ good n v /\
    forall rest, call_stateful (ECtx dP ex sq false) name (rec ++ rest) (map val_sel pos) (map kv_sel kw)
                 = Ok (val_sel v, rest, []).
  Proof.
    intros Hin Gp Gk H. rewrite (call_stateful_unfold _ _ _ _ _ Hin) in H.
    assert (Hp : forall rest,
               call_stateful (ECtx dP ex sq false) name (rec ++ rest) (map val_sel pos) (map kv_sel kw)
               = if negb (check_kw ["x"] kw) then Err EType else
                 do b <- bind_args ["x"] (map val_sel pos) (map kv_sel kw);
                 stateful_body (ECtx dP ex sq false) (String.eqb name "center") (rec ++ rest) b).
    { intros rest. rewrite (call_stateful_unfold _ _ _ _ _ Hin), check_kw_sel. reflexivity. }
    destruct (negb (check_kw ["x"] kw)); [discriminate|].
    apply bind_ok in H as (b & Hb & H).
    pose proof (bind_args_Forall (good n) _ _ _ _ Hb Gp Gk) as Gb.
    pose proof (arg_good n "x" b Gb) as Gx.
    unfold stateful_body in H. cbn [e_fit e_sqrt] in H.
    destruct (arg "x" b) as [i xs| | | | | | | | | | | |] eqn:Ex; try discriminate H.
    cbn [good] in Gx.
    assert (Hp' : forall rest,
               call_stateful (ECtx dP ex sq false) name (rec ++ rest) (map val_sel pos) (map kv_sel kw)
               = stateful_body (ECtx dP ex sq false) (String.eqb name "center") (rec ++ rest) (map kv_sel b)).
    { intros rest. rewrite Hp, (bind_args_sel _ _ _ _ Hb). reflexivity. }
    clear Hp. unfold stateful_body in Hp'. rewrite arg_sel, Ex in Hp'. cbn [val_sel e_fit e_sqrt] in Hp'.
    destruct (String.eqb name "center").
    - injection H as <- <- <-. split; [reflexivity|]. split; [cbn [good]; rewrite map_length; assumption|].
      intros rest. rewrite Hp'. cbn [app val_sel]. rewrite sel_map. reflexivity.
    - apply bind_ok in H as (v0 & Hv & H). apply bind_ok in Hv as (l & Hl & Hv).
      injection Hv as <-. injection H as <- <- <-.
      split; [reflexivity|]. split; [cbn [good]; rewrite (mapM_length _ _ _ Hl); assumption|].
      intros rest. rewrite Hp'. cbn [app]. rewrite (sel_mapM _ _ _ Hl). reflexivity.
  Qed.


  (** ** the stateful transforms bs / poly: prediction applies the recorded parameters row by row *)

  Lemma all_some_map (l : list Qc) : all_some (map (fun q : Qc => Some q) l) = Some l.
  Proof.
    induction l as [|x l IH]; [reflexivity|]. unfold all_some in *. cbn [map fold_right]. rewrite IH.
    reflexivity.
  Qed.

  Lemma all_some_inv xs : forall l, all_some xs = Some l -> xs = map (fun q : Qc => Some q) l.
  Proof.
    induction xs as [|x xs IH]; intros l H; unfold all_some in *; cbn [fold_right] in H.
    - injection H as <-. reflexivity.
    - destruct x as [q|]; [|discriminate H].
      match type of H with match ?e with _ => _ end = _ => destruct e as [l'|] eqn:E end;
        [|discriminate H]. injection H as <-.
      cbn [map]. f_equal. apply IH. reflexivity.
  Qed.

  Lemma all_some_sel xs l : all_some xs = Some l -> all_some (sel xs) = Some (sel l).
  Proof. intros H. apply all_some_inv in H. subst. rewrite sel_map. apply all_some_map. Qed.

  Lemma all_some_length xs l : all_some xs = Some l -> List.length l = List.length xs.
  Proof. intros H. apply all_some_inv in H. subst. rewrite map_length. reflexivity. Qed.

  Definition regular_rows {T} (rows : list (list T)) : Prop :=
    exists w, Forall (fun r => List.length r = w) rows.

  Lemma regular_map {S T} (f : S -> list T) w l :
    (forall x, List.length (f x) = w) -> regular_rows (map f l).
  Proof. intros H. exists w. apply Forall_map. apply Forall_forall. intros x _. apply H. Qed.

  Lemma bs_row_length t k x : List.length (Spline.bs_row t k x) = List.length t - (k + 1).
  Proof. unfold Spline.bs_row. cbv zeta. rewrite map_length, seq_length. reflexivity. Qed.

  Lemma bs_apply_sel p l rows :
    Spline.bs_apply p l = Ok rows -> sel l <> [] ->
    Spline.bs_apply p (sel l) = Ok (sel rows) /\ List.length rows = List.length l /\ regular_rows rows.
  Proof.
    unfold Spline.bs_apply. intros H Hne.
    set (f := fun x : Qc => let r := Spline.bs_row (Spline.bs_knots p) (Spline.bs_degree p) x in
                            if Spline.bs_intercept p then r else tl r) in *.
    assert (E : rows = map f l) by (destruct l; [discriminate H|injection H as <-; reflexivity]).
    subst rows. rewrite sel_map, map_length. split; [|split; [reflexivity|]].
    - destruct (sel l); [congruence|reflexivity].
    - apply (regular_map f (if Spline.bs_intercept p
                            then List.length (Spline.bs_knots p) - (Spline.bs_degree p + 1)
                            else List.length (Spline.bs_knots p) - (Spline.bs_degree p + 1) - 1)).
      intros x. unfold f. cbv zeta. destruct (Spline.bs_intercept p); [apply bs_row_length|].
      pose proof (bs_row_length (Spline.bs_knots p) (Spline.bs_degree p) x) as L.
      destruct (Spline.bs_row (Spline.bs_knots p) (Spline.bs_degree p) x); simpl in *; lia.
  Qed.

  Lemma poly_point_loop_length als : forall ns first nprev pp pc x,
    List.length (Poly.poly_point_loop als ns first nprev pp pc x) = Nat.min (List.length als) (List.length ns).
  Proof.
    induction als as [|a als IH]; intros [|nc ns] first nprev pp pc x; simpl; try reflexivity.
    rewrite IH. reflexivity.
  Qed.

  Lemma poly_eval_sel sq raw deg p l rows :
    Poly.poly_eval sq raw deg p l = Ok rows ->
    Poly.poly_eval sq raw deg p (sel l) = Ok (sel rows) /\ List.length rows = List.length l /\
    regular_rows rows.
  Proof.
    unfold Poly.poly_eval, Poly.poly_apply. intros H.
    destruct raw; [destruct (deg =? 0); [discriminate H|]|]; injection H as <-;
      rewrite sel_map, map_length; (split; [reflexivity|split; [reflexivity|]]).
    - apply (regular_map _ deg). intros x. unfold Poly.poly_raw_row. rewrite map_length, seq_length. reflexivity.
    - apply (regular_map _ (Nat.min (Nat.min (List.length (Poly.poly_alpha p)) (List.length (Poly.poly_norms2 p)))
                                     (List.length (tl (Poly.poly_norms2 p))))).
      intros x. unfold Poly.poly_row, Poly.poly_point. rewrite map_length, combine_length, poly_point_loop_length.
      reflexivity.
  Qed.

  Lemma qrows_good n rows : List.length rows = n -> regular_rows rows -> good n (qrows rows).
  Proof.
    intros L (w & Hw). unfold qrows. cbn [good]. split; [rewrite map_length; exact L|].
    exists w. apply Forall_map. eapply Forall_impl; [|exact Hw]. intros r Hr. rewrite map_length. exact Hr.
  Qed.

  Lemma qrows_sel rows : qrows (sel rows) = val_sel (qrows rows).
  Proof. unfold qrows. cbn [val_sel]. rewrite sel_map. reflexivity. Qed.

  Definition spline_params (name : string) : list string :=
    if String.eqb name "bs"
    then ["x"; "df"; "knots"; "degree"; "intercept"; "lower_bound"; "upper_bound"]
    else ["x"; "degree"; "raw"].

  Lemma call_stateful_spline cx name st pos kw :
    In name spline_callees -> call_stateful cx name st pos kw = call_spline cx name st pos kw.
  Proof. intros [<-|[<-|[]]]; reflexivity. Qed.

  Lemma call_spline_predict d ex sq name st pos kw :
    In name spline_callees ->
    call_spline (ECtx d ex sq false) name st pos kw =
    if negb (check_kw (spline_params name) kw) then Err EType else
    do b <- bind_args (spline_params name) pos kw;
    match arg "x" b with
    | PSeries _ xs =>
        match all_some xs with
        | None => Err EUnsupported
        | Some l =>
            if String.eqb name "bs" then
              match st with
              | TPBs p :: st' => do rows <- Spline.bs_apply p l; Ok (qrows rows, st', [])
              | _ => Err EAssert end
            else
              match st with
              | TPPoly raw deg p :: st' => do rows <- Poly.poly_eval sq raw deg p l; Ok (qrows rows, st', [])
              | _ => Err EAssert end
        end
    | _ => Err EUnsupported
    end.
  Proof. intros [<-|[<-|[]]]; reflexivity. Qed.

  Lemma call_spline_fit_inv d ex sq name st pos kw v st1 rec :
    In name spline_callees ->
    call_spline (ECtx d ex sq true) name st pos kw = Ok (v, st1, rec) ->
    check_kw (spline_params name) kw = true /\
    exists b i xs l rows,
      bind_args (spline_params name) pos kw = Ok b /\ arg "x" b = PSeries i xs /\
      all_some xs = Some l /\ v = qrows rows /\ st1 = st /\
      ((name = "bs" /\ exists p, rec = [TPBs p] /\ Spline.bs_apply p l = Ok rows) \/
       (name = "poly" /\ exists raw deg p, rec = [TPPoly raw deg p] /\ Poly.poly_eval sq raw deg p l = Ok rows)).
  Proof.
    intros [<-|[<-|[]]] H; unfold call_spline in H.
    - rewrite String.eqb_refl in H. change (spline_params "bs")
        with ["x"; "df"; "knots"; "degree"; "intercept"; "lower_bound"; "upper_bound"].
      cbn [e_fit e_sqrt] in H.
      destruct (check_kw _ kw); [|discriminate H]. cbn [negb] in H. split; [reflexivity|].
      apply bind_ok in H as (b & Hb & H).
      destruct (arg "x" b) as [i xs| | | | | | | | | | | |] eqn:Ex; try discriminate H.
      destruct (all_some xs) as [l|] eqn:El; [|discriminate H].
      repeat (apply bind_ok in H as (? & ? & H)). injection H as <- <- <-.
      match goal with Hr : Spline.bs_apply ?p l = Ok ?rows |- _ =>
        exists b, i, xs, l, rows; repeat split; auto; left; split; [reflexivity|]; exists p; auto end.
    - change (String.eqb "poly" "bs") with false in H. change (spline_params "poly") with ["x"; "degree"; "raw"].
      cbn [e_fit e_sqrt] in H.
      destruct (check_kw _ kw); [|discriminate H]. cbn [negb] in H. split; [reflexivity|].
      apply bind_ok in H as (b & Hb & H).
      destruct (arg "x" b) as [i xs| | | | | | | | | | | |] eqn:Ex; try discriminate H.
      destruct (all_some xs) as [l|] eqn:El; [|discriminate H].
      repeat (apply bind_ok in H as (? & ? & H)). injection H as <- <- <-.
      match goal with Hr : Poly.poly_eval sq ?raw ?deg ?p l = Ok ?rows |- _ =>
        exists b, i, xs, l, rows; repeat split; auto; right; split; [reflexivity|]; exists raw, deg, p; auto end.
  Qed.

  (** The spline and polynomial bases: the prediction pass applies the recorded knots /
      recurrence coefficients to the selected rows, and gets the selected rows of the training
      basis.  ([bs] rejects an empty input, hence the side condition.) *)
  Lemma call_spline_sel n d dP ex sq name st pos kw v st1 rec :
    In name spline_callees -> (name = "bs" -> seln n <> 0) ->
    Forall (good n) pos -> Forall (fun kv => good n (snd kv)) kw ->
    call_stateful (ECtx d ex sq true) name st pos kw = Ok (v, st1, rec) ->
    st1 = st /\ good n v /\
    forall rest, call_stateful (ECtx dP ex sq false) name (rec ++ rest) (map val_sel pos) (map kv_sel kw)
                 = Ok (val_sel v, rest, []).
  Proof.
    intros Hin Hbs Gp Gk H. rewrite (call_stateful_spline _ _ _ _ _ Hin) in H.
    destruct (call_spline_fit_inv _ _ _ _ _ _ _ _ _ _ Hin H)
      as (Hck & b & i & xs & l & rows & Hb & Ex & El & -> & -> & Hcase).
    pose proof (arg_good n "x" b (bind_args_Forall (good n) _ _ _ _ Hb Gp Gk)) as Gx.
    rewrite Ex in Gx. cbn [good] in Gx.
    pose proof (all_some_length _ _ El) as Ll.
    assert (Pre : forall rest,
               call_stateful (ECtx dP ex sq false) name (rec ++ rest) (map val_sel pos) (map kv_sel kw)
               = if String.eqb name "bs" then
                   match rec ++ rest with
                   | TPBs p :: st' => do rows <- Spline.bs_apply p (sel l); Ok (qrows rows, st', [])
                   | _ => Err EAssert end
                 else
                   match rec ++ rest with
                   | TPPoly raw deg p :: st' => do rows <- Poly.poly_eval sq raw deg p (sel l); Ok (qrows rows, st', [])
                   | _ => Err EAssert end).
    { intros rest. rewrite (call_stateful_spline _ _ _ _ _ Hin), (call_spline_predict _ _ _ _ _ _ _ Hin).
      rewrite check_kw_sel, Hck. cbn [negb]. rewrite (bind_args_sel _ _ _ _ Hb). cbn [bind].
      rewrite arg_sel, Ex. cbn [val_sel]. rewrite (all_some_sel _ _ El). reflexivity. }
    split; [reflexivity|].
    destruct Hcase as [[-> (p & -> & Hr)]|[-> (raw & deg & p & -> & Hr)]].
    - assert (Hne : sel l <> []).
      { intros E. apply (Hbs eq_refl). rewrite <- Gx, <- Ll, <- sel_length, E. reflexivity. }
      destruct (bs_apply_sel _ _ _ Hr Hne) as (Hr' & Lr & Rr).
      split; [apply qrows_good; [congruence|exact Rr]|].
      intros rest. rewrite Pre. cbn [app]. rewrite String.eqb_refl, Hr'. cbn [bind].
      rewrite qrows_sel. reflexivity.
    - destruct (poly_eval_sel _ _ _ _ _ _ Hr) as (Hr' & Lr & Rr).
      split; [apply qrows_good; [congruence|exact Rr]|].
      intros rest. rewrite Pre. cbn [app]. change (String.eqb "poly" "bs") with false.
      cbn iota. rewrite Hr'. cbn [bind]. rewrite qrows_sel. reflexivity.
  Qed.

  (** ** the induction over call trees *)

  Section Eval.
    Variable D : frame.
    Variable n : nat.
    Hypothesis D_rect : rect n D.
    Hypothesis D_unord : frame_unordered D.
    Variable ex : list (string * pyval).
    Hypothesis ex_scalar : forall k v, assoc k ex = Some v -> is_scalar v = true.
    Variable sq : Qc -> Qc.
    Hypothesis bs_ok : In "bs" extra -> seln n <> 0.

    (* training pass on D; prediction pass on the selected rows of D *)
    Definition cxF : ectx := ECtx D ex sq true.
    Definition cxP : ectx := ECtx (frame_sel D) ex sq false.

    Definition sel_spec (l : lazy) : Prop :=
      forall st v st1 rec,
        eval_lazy cxF st l = Ok (v, st1, rec) ->
        st1 = st /\ good n v /\
        forall rest, eval_lazy cxP (rec ++ rest) l = Ok (val_sel v, rest, []).

    Lemma lookup_name_sel name v :
      lookup_name cxF name = Ok v -> good n v /\ lookup_name cxP name = Ok (val_sel v).
    Proof.
      unfold lookup_name, cxF, cxP. cbn [e_data e_extra]. rewrite assoc_frame_sel.
      destruct (assoc name D) as [c|] eqn:E; cbn [option_map].
      - intros H. injection H as <-. rewrite col_value_sel. split; [|reflexivity].
        apply assoc_In in E. unfold rect in D_rect. unfold frame_unordered in D_unord.
        rewrite Forall_forall in D_rect, D_unord. specialize (D_rect _ E). specialize (D_unord _ E).
        cbn [snd] in *. destruct c as [i xs|o xs]; cbn [col_value good col_len] in *; [assumption|].
        destruct o; [contradiction|]. split; [reflexivity|assumption].
      - unfold builtin_value.
        destruct (String.eqb name "Treatment"); [intros H; injection H as <-; split; [exact I|reflexivity]|].
        destruct (String.eqb name "Sum"); [intros H; injection H as <-; split; [exact I|reflexivity]|].
        destruct (_ || _); [discriminate|].
        destruct (assoc name ex) as [w|] eqn:Ew; [|discriminate].
        intros H. injection H as <-. pose proof (ex_scalar _ _ Ew) as Hs.
        rewrite (val_sel_scalar _ Hs). split; [|reflexivity].
        destruct w; try discriminate Hs; exact I.
    Qed.

    Lemma eval_args_sel args :
      Forall (fun a => rsafe a = true -> sel_spec a) args ->
      forallb rsafe args = true ->
      forall st vals0 rec0 vals st1 rec,
        eval_args (eval_lazy cxF) args st vals0 rec0 = Ok (vals, st1, rec) ->
        st1 = st /\
        exists vs recs,
          vals = vals0 ++ vs /\ rec = rec0 ++ recs /\ Forall (good n) vs /\
          List.length vs = List.length args /\
          forall rest pv pr,
            eval_args (eval_lazy cxP) args (recs ++ rest) pv pr = Ok (pv ++ map val_sel vs, rest, pr).
    Proof.
      induction 1 as [|a args Ha _ IH]; intros Hs st vals0 rec0 vals st1 rec H.
      - simpl in H. injection H as <- <- <-. split; [reflexivity|]. exists [], [].
        rewrite !app_nil_r. repeat split; auto. intros rest pv pr. simpl. rewrite app_nil_r. reflexivity.
      - simpl in Hs. apply andb_true_iff in Hs as [Hsa Hs]. simpl in H.
        apply bind_ok in H as ([[va sta] reca] & Hx & H). cbn [fst snd] in H.
        destruct (Ha Hsa _ _ _ _ Hx) as (-> & Gva & Pa).
        destruct (IH Hs _ _ _ _ _ _ H) as (-> & vs & recs & -> & -> & Gvs & Lvs & Ps).
        split; [reflexivity|]. exists (va :: vs), (reca ++ recs).
        rewrite <- !app_assoc. split; [reflexivity|]. split; [reflexivity|].
        split; [constructor; assumption|]. split; [simpl; congruence|].
        intros rest pv pr. simpl. rewrite <- app_assoc, Pa. cbn [bind fst snd].
        rewrite Ps, app_nil_r, <- app_assoc. reflexivity.
    Qed.

    Lemma eval_kwargs_sel (kws : list (string * lazy)) :
      Forall (fun kv => rsafe (snd kv) = true -> sel_spec (snd kv)) kws ->
      forallb (fun kv => match kv with (_, a) => rsafe a end) kws = true ->
      forall st vals0 rec0 vals st1 rec,
        eval_kwargs (eval_lazy cxF) kws st vals0 rec0 = Ok (vals, st1, rec) ->
        st1 = st /\
        exists kvs recs,
          vals = vals0 ++ kvs /\ rec = rec0 ++ recs /\ Forall (fun kv => good n (snd kv)) kvs /\
          map fst kvs = map fst kws /\
          forall rest pv pr,
            eval_kwargs (eval_lazy cxP) kws (recs ++ rest) pv pr = Ok (pv ++ map kv_sel kvs, rest, pr).
    Proof.
      induction 1 as [|[k a] kws Ha _ IH]; intros Hs st vals0 rec0 vals st1 rec H.
      - simpl in H. injection H as <- <- <-. split; [reflexivity|]. exists [], [].
        rewrite !app_nil_r. repeat split; auto. intros rest pv pr. simpl. rewrite app_nil_r. reflexivity.
      - simpl in Hs. apply andb_true_iff in Hs as [Hsa Hs]. simpl in H, Ha.
        apply bind_ok in H as ([[va sta] reca] & Hx & H). cbn [fst snd] in H.
        destruct (Ha Hsa _ _ _ _ Hx) as (-> & Gva & Pa).
        destruct (IH Hs _ _ _ _ _ _ H) as (-> & kvs & recs & -> & -> & Gvs & Lvs & Ps).
        split; [reflexivity|]. exists ((k, va) :: kvs), (reca ++ recs).
        rewrite <- !app_assoc. split; [reflexivity|]. split; [reflexivity|].
        split; [constructor; assumption|]. split; [simpl; congruence|].
        intros rest pv pr. simpl. rewrite <- app_assoc, Pa. cbn [bind fst snd].
        rewrite Ps, app_nil_r, <- app_assoc. reflexivity.
    Qed.

    Lemma rsafe_call c args kw :
      rsafe (LzCall c args kw) =
      existsb (String.eqb c) (safe_callees ++ extra) &&
      forallb rsafe args &&
      forallb (fun kv => match kv with (_, a) => rsafe a end) kw &&
      (if existsb (String.eqb c) box_callees
       then (List.length args <=? 2) && negb (existsb (fun kv => String.eqb (fst kv) "levels") kw)
       else true).
    Proof. reflexivity. Qed.

    Lemma safe_callee_cases c :
      existsb (String.eqb c) (safe_callees ++ extra) = true ->
      known_callee c = true /\
      ((In c stat_callees /\ existsb (String.eqb c) stateful_names = true) \/
       (In c extra /\ In c spline_callees /\ existsb (String.eqb c) stateful_names = true) \/
       (In c fun_callees /\ existsb (String.eqb c) stateful_names = false)).
    Proof.
      intros H. apply existsb_exists in H as (x & Hx & E). apply String.eqb_eq in E. subst x.
      apply in_app_or in Hx. destruct Hx as [Hx|Hx].
      - simpl in Hx.
        destruct Hx as [<-|[<-|[<-|[<-|[<-|[<-|[<-|[<-|[<-|[<-|[]]]]]]]]]]];
          (split; [reflexivity|]);
          first [ left; split; [simpl; tauto|reflexivity]
                | right; right; split; [simpl; tauto|reflexivity] ].
      - pose proof (extra_ok c Hx) as Hsp.
        assert (K : known_callee c = true /\ existsb (String.eqb c) stateful_names = true).
        { destruct Hsp as [<-|[<-|[]]]; split; reflexivity. }
        destruct K as [K1 K2]. split; [exact K1|]. right; left. auto.
    Qed.

    Lemma existsb_eqb_In' c l : In c l -> existsb (String.eqb c) l = true.
    Proof. intros H. apply existsb_exists. exists c. split; [assumption|apply String.eqb_refl]. Qed.

    (** The main theorem of this layer. *)
    Theorem eval_lazy_sel l : rsafe l = true -> sel_spec l.
    Proof.
      induction l as [sym args IH|name|lit lx|c args kw IHa IHk] using lazy_ind'; intros Hs.
      - (* operators *)
        simpl in Hs. intros st v st1 rec H.
        destruct args as [|a [|b [|c r]]]; try discriminate H.
        + inversion IH as [|? ? Ha _]; subst. simpl in Hs. rewrite andb_true_r in Hs.
          cbn [eval_lazy] in H. apply bind_ok in H as ([[va sta] reca] & Hx & H).
          apply bind_ok in H as (w & Hw & H). cbn [fst snd] in *. injection H as <- <- <-.
          destruct (Ha Hs _ _ _ _ Hx) as (-> & Gva & Pa).
          destruct (apply_unop_sel n sym va w Gva Hw) as [Hw' Gw].
          split; [reflexivity|]. split; [assumption|]. intros rest.
          cbn [eval_lazy]. rewrite Pa. cbn [bind fst snd]. rewrite Hw'. reflexivity.
        + inversion IH as [|? ? Ha IH']; subst. inversion IH' as [|? ? Hb _]; subst.
          simpl in Hs. rewrite andb_true_r in Hs. apply andb_true_iff in Hs as [Hsa Hsb].
          cbn [eval_lazy] in H. apply bind_ok in H as ([[va sta] reca] & Hx & H).
          apply bind_ok in H as ([[vb stb] recb] & Hy & H).
          apply bind_ok in H as (w & Hw & H). cbn [fst snd] in *. injection H as <- <- <-.
          destruct (Ha Hsa _ _ _ _ Hx) as (-> & Gva & Pa).
          destruct (Hb Hsb _ _ _ _ Hy) as (-> & Gvb & Pb).
          destruct (apply_binop_sel n sym va vb w Gva Gvb Hw) as [Hw' Gw].
          split; [reflexivity|]. split; [assumption|]. intros rest.
          cbn [eval_lazy]. rewrite <- app_assoc, Pa. cbn [bind fst snd]. rewrite Pb.
          cbn [bind fst snd]. rewrite Hw'. reflexivity.
      - (* variables *)
        intros st v st1 rec H. cbn [eval_lazy] in H. apply bind_ok in H as (w & Hw & H).
        injection H as <- <- <-. destruct (lookup_name_sel _ _ Hw) as [Gw Pw].
        split; [reflexivity|]. split; [assumption|]. intros rest. cbn [eval_lazy app].
        rewrite Pw. reflexivity.
      - (* literals *)
        intros st v st1 rec H. cbn [eval_lazy] in H. injection H as <- <- <-.
        split; [reflexivity|]. split; [destruct lit; exact I|]. intros rest. cbn [eval_lazy app].
        destruct lit; reflexivity.
      - (* calls *)
        rewrite rsafe_call in Hs.
        apply andb_true_iff in Hs as [Hs Hbox]. apply andb_true_iff in Hs as [Hs Hsk].
        apply andb_true_iff in Hs as [Hc Hsa].
        destruct (safe_callee_cases c Hc) as [Hknown Hkind].
        intros st v st1 rec H. rewrite eval_lazy_call in H. rewrite Hknown in H. cbn [negb] in H.
        apply bind_ok in H as ([[pos sta] reca] & Hra & H).
        apply bind_ok in H as ([[kws stk] reck] & Hrk & H). cbn [fst snd] in H.
        destruct (eval_args_sel args IHa Hsa _ _ _ _ _ _ Hra) as (-> & vs & recsA & -> & -> & Gvs & Lvs & Pa).
        destruct (eval_kwargs_sel kw IHk Hsk _ _ _ _ _ _ Hrk) as (-> & kvs & recsK & -> & -> & Gks & Kks & Pk).
        cbn [app] in *.
        assert (Hpred : forall rest0 (F : list tparam -> evres),
                   (forall rest, F rest =
                      if existsb (String.eqb c) stateful_names then
                        do r <- call_stateful cxP c rest (map val_sel vs) (map kv_sel kvs);
                        Ok (fst (fst r), snd (fst r), ([] ++ snd r)%list)
                      else
                        do v <- call_function cxP c (map val_sel vs) (map kv_sel kvs); Ok (v, rest, [])) ->
                   eval_lazy cxP (recsA ++ recsK ++ rest0) (LzCall c args kw) = F rest0).
        { intros rest0 F HF. rewrite eval_lazy_call, Hknown. cbn [negb].
          rewrite Pa. cbn [bind fst snd app]. rewrite Pk. cbn [bind fst snd app]. rewrite HF. reflexivity. }
        destruct Hkind as [[Hin Hst]|[(Hex & Hin & Hst)|[Hin Hst]]]; rewrite Hst in H.
        + (* center / scale / standardize *)
          apply bind_ok in H as ([[w stw] recw] & Hw & H). cbn [fst snd] in H. injection H as <- <- <-.
          destruct (call_stateful_sel n _ (frame_sel D) _ _ _ _ _ _ _ _ _ Hin Gvs Gks Hw) as (-> & Gw & Pw).
          split; [reflexivity|]. split; [assumption|]. intros rest.
          rewrite <- !app_assoc.
          rewrite (Hpred (recw ++ rest)
                         (fun rest' => do r <- call_stateful cxP c rest' (map val_sel vs) (map kv_sel kvs);
                                       Ok (fst (fst r), snd (fst r), ([] ++ snd r)%list))).
          * unfold cxP. rewrite Pw. reflexivity.
          * intros rest'. rewrite Hst. reflexivity.
        + (* bs / poly *)
          apply bind_ok in H as ([[w stw] recw] & Hw & H). cbn [fst snd] in H. injection H as <- <- <-.
          assert (Hbs : c = "bs" -> seln n <> 0) by (intros ->; exact (bs_ok Hex)).
          destruct (call_spline_sel n _ (frame_sel D) _ _ _ _ _ _ _ _ _ Hin Hbs Gvs Gks Hw) as (-> & Gw & Pw).
          split; [reflexivity|]. split; [assumption|]. intros rest.
          rewrite <- !app_assoc.
          rewrite (Hpred (recw ++ rest)
                         (fun rest' => do r <- call_stateful cxP c rest' (map val_sel vs) (map kv_sel kvs);
                                       Ok (fst (fst r), snd (fst r), ([] ++ snd r)%list))).
          * unfold cxP. rewrite Pw. reflexivity.
          * intros rest'. rewrite Hst. reflexivity.
        + (* plain function *)
          apply bind_ok in H as (w & Hw & H). injection H as <- <- <-.
          assert (Hb : In c box_callees -> List.length vs <= 2 /\ assoc "levels" kvs = None).
          { intros Hbc. rewrite (existsb_eqb_In' _ _ Hbc) in Hbox.
            apply andb_true_iff in Hbox as [Hlen Hlev]. apply Nat.leb_le in Hlen.
            split; [lia|]. apply assoc_None_iff. rewrite Kks. intros Hin'.
            apply negb_true_iff in Hlev.
            assert (existsb (fun kv : string * lazy => String.eqb (fst kv) "levels") kw = true); [|congruence].
            apply in_map_iff in Hin' as (kv & E & Hkv). apply existsb_exists. exists kv.
            split; [assumption|]. rewrite E. reflexivity. }
          destruct (call_function_sel n cxF cxP c vs kvs w Hin Gvs Gks Hb Hw) as [Hw' Gw].
          split; [reflexivity|]. split; [assumption|]. intros rest.
          rewrite <- app_assoc.
          rewrite (Hpred rest
                         (fun rest' => do v <- call_function cxP c (map val_sel vs) (map kv_sel kvs);
                                       Ok (v, rest', []))).
          * rewrite Hw'. reflexivity.
          * intros rest'. rewrite Hst. reflexivity.
    Qed.

    (** Closed form: the whole call, training state empty, prediction state = what was recorded. *)
    Corollary eval_lazy_frozen l v st1 rec :
      rsafe l = true ->
      eval_lazy cxF [] l = Ok (v, st1, rec) ->
      st1 = [] /\ good n v /\ eval_lazy cxP rec l = Ok (val_sel v, [], []).
    Proof.
      intros Hs H. destruct (eval_lazy_sel l Hs _ _ _ _ H) as (-> & G & P).
      split; [reflexivity|]. split; [assumption|]. specialize (P []). rewrite app_nil_r in P. exact P.
    Qed.

  End Eval.


  (** ** levels: no value of the training data is unseen in a selection of its rows *)

  Lemma sort_levels_cover num d s :
    num_labels_ok num d -> In (Some s) d -> In s (sort_levels num (present d)).
  Proof.
    intros Hn Hin.
    assert (Hp : In s (present d)).
    { unfold present. apply in_flat_map. exists (Some s). split; [assumption|left; reflexivity]. }
    unfold sort_levels. destruct num.
    - destruct (Hn eq_refl s Hin) as (z & ->). apply in_map.
      apply (Permutation_in _ (Permutation_sym (isort_perm _ _))).
      apply nodup_by_In_rev; [intros a b; apply Z.eqb_eq|].
      apply in_flat_map. exists (zshow z). split; [assumption|]. rewrite zread_zshow. left; reflexivity.
    - unfold sorted_unique_str. apply (Permutation_in _ (Permutation_sym (isort_perm _ _))).
      apply nodup_by_In_rev; [intros a b; apply String.eqb_eq|assumption].
  Qed.

  Lemma no_unseen cats (xs : list (option string)) :
    (forall x, In x xs -> exists s, x = Some s /\ In s cats) ->
    existsb (unseen_val cats) (sel xs) = false.
  Proof.
    intros H. destruct (existsb (unseen_val cats) (sel xs)) eqn:E; [|reflexivity].
    apply sel_existsb in E. apply existsb_exists in E as (x & Hx & U).
    destruct (H x Hx) as (s & -> & Hs). simpl in U. apply negb_true_iff in U.
    apply existsb_eqb_In in Hs. congruence.
  Qed.

  (** A categoric component evaluated on a selection of its own training values: no value is
      unseen, whatever the mode, and the rows are the selected training rows. *)
  Lemma categoric_rows_sel mode d cm xs :
    dc_contrast d = Some cm ->
    dc_rows d = code_rows (cmatrix cm) (contrast_width cm) (level_codes (dc_levels d) xs) ->
    (forall x, In x xs -> exists s, x = Some s /\ In s (dc_levels d)) ->
    new_categoric mode d (sel xs) = Ok (sel (dc_rows d), false) /\
    List.length (dc_rows d) = List.length xs.
  Proof.
    intros Hc Hr Hcov. rewrite (new_categoric_unfold _ _ _ _ Hc), (no_unseen _ _ Hcov). cbn [negb].
    assert (R : dc_rows d = map (cat_row cm (dc_levels d)) xs).
    { rewrite Hr, code_rows_map. unfold level_codes. rewrite map_map. reflexivity. }
    rewrite R, sel_map, map_length. split; reflexivity.
  Qed.

  Lemma no_missing_spec (d : list (option string)) :
    existsb (fun x => match x with None => true | _ => false end) d = false ->
    forall x, In x d -> exists s, x = Some s.
  Proof.
    intros H x Hx. destruct x as [s|]; [eauto|].
    assert (existsb (fun x : option string => match x with None => true | _ => false end) d = true);
      [|congruence].
    apply existsb_exists. exists None. auto.
  Qed.

  (* what set_data_comp does with a categoric predictor *)
  Lemma set_data_comp_cat_inv t spans nrows dc :
    tc_kind t = KCategoric -> tc_response t = false -> set_data_comp t spans nrows = Ok dc ->
    exists cm num o d,
      dc_contrast dc = Some cm /\ categoric_data (tc_value t) = Ok (num, o, d) /\ dc_t dc = t /\
      dc_rows dc = code_rows (cmatrix cm) (contrast_width cm) (level_codes (dc_levels dc) d) /\
      dc_levels dc = match declared_levels t with Some cs => cs | None => sort_levels num (present d) end /\
      ((forall a b c e, tc_value t <> PBox a b c e) -> forall x, In x d -> exists s, x = Some s).
  Proof.
    unfold set_data_comp, declared_levels. intros Hk Hresp H. rewrite Hk, Hresp in H.
    destruct (tc_value t) as [isint xs|rows|o xs|? ?|?|?| |?|?|?|num d enc lv|? ?|? ? ?] eqn:Ev;
      try discriminate H.
    - destruct isint; [|discriminate H]. cbn [categoric_data bind fst snd] in H.
      match type of H with (if ?c then _ else _) = _ => destruct c eqn:Em; [discriminate H|] end.
      apply bind_ok in H as (cm & Hcode & H). injection H as <-.
      exists cm, true, None, (map (fun c => match c with Some q => Some (int_label q) | None => None end) xs).
      cbn [dc_contrast dc_t dc_rows dc_levels categoric_data]. repeat split; try reflexivity.
      intros _. apply no_missing_spec. assumption.
    - cbn [categoric_data bind fst snd] in H.
      match type of H with (if ?c then _ else _) = _ => destruct c eqn:Em; [discriminate H|] end.
      apply bind_ok in H as (cm & Hcode & H). injection H as <-.
      exists cm, false, o, xs.
      cbn [dc_contrast dc_t dc_rows dc_levels categoric_data]. repeat split; try reflexivity.
      intros _. apply no_missing_spec. assumption.
    - match type of H with (if ?c then _ else _) = _ => destruct c; [discriminate H|] end. apply bind_ok in H as (cm & Hcode & H). injection H as <-.
      exists cm, num, None, d.
      cbn [dc_contrast dc_t dc_rows dc_levels categoric_data]. repeat split; try reflexivity.
      intros Hn. exfalso. apply (Hn num d enc lv). reflexivity.
  Qed.

  (** ** components *)

  Section Comp.
    Variable cx : dctx.
    Variable D : frame.
    Variable n : nat.
    (* [frame_rows D = n], kept opaque to [subst] *)
    Hypothesis n_rows : rows_eq D n.
    Hypothesis D_rect : rect n D.
    Hypothesis ex_scalar : forall k v, assoc k (d_extra cx) = Some v -> is_scalar v = true.
    Hypothesis bs_ok : In "bs" extra -> seln n <> 0.

    (* an ordered Categorical column only holds values among its declared categories (pandas
       guarantees it; the frame type of the model does not) *)
    Definition var_ok (name : string) : Prop :=
      match assoc name D with
      | Some (ColStr (Some cats) xs) => forall s, In (Some s) xs -> In s cats
      | _ => True
      end.

    Definition comp_ok (c : comp) : Prop :=
      match c with
      | CVar (NStr name) _ => var_ok name
      | CVar (NLit _) _ => True
      | CCall lz => rsafe lz = true /\ frame_unordered D
      end.

    (* C(x)/S(x)/T(x) data without a missing value (with one, training codes the row as zeros but
       prediction in mode "error" rejects it as unseen) *)
    Definition box_complete (t : tcomp) : Prop :=
      match tc_value t with PBox _ d _ _ => Forall (fun x => x <> None) d | _ => True end.

    Lemma new_comp_unfold mode data d t :
      dc_t d = t ->
      new_comp cx mode data d =
      match tc_src t with
      | CVar (NStr name) _ =>
          match assoc name data with
          | None => Err EKey
          | Some col =>
              match tc_kind t with
              | KNumeric =>
                  match col with
                  | ColNum _ xs => Ok (map (fun x => [x]) xs, false)
                  | ColStr _ _ => Err EUnsupported
                  end
              | _ => do nd <- categoric_data (col_value col); new_categoric mode d (snd nd)
              end
          end
      | CVar (NLit _) _ => Err EKey
      | CCall lz =>
          match tc_kind t with
          | KNumeric | KCategoric =>
              do r <- eval_lazy (ECtx data (d_extra cx) (d_sqrt cx) false) (tc_state t) lz;
              match tc_kind t, fst (fst r) with
              | KNumeric, PSeries _ xs => Ok (map (fun x => [x]) xs, false)
              | KNumeric, PMatrix rows => Ok (rows, false)
              | KNumeric, _ => Err EUnsupported
              | _, v => do nd <- categoric_data v; new_categoric mode d (snd nd)
              end
          | KOffset =>
              match tc_value t with
              | POffset (Some q) _ => Ok (repeat [Some q] (frame_rows data), false)
              | _ =>
                  do r <- eval_lazy (ECtx data (d_extra cx) (d_sqrt cx) false) (tc_state t) lz;
                  match fst (fst r) with
                  | POffset None xs => Ok (map (fun x => [x]) xs, false)
                  | POffset (Some q) _ => Err EAssert
                  | _ => Err EAttr
                  end
              end
          | KProportion =>
              match tc_value t, lz with
              | PProp _ _ (Some q), _ => Ok (repeat [Some q] (frame_rows data), false)
              | PProp _ _ None, LzCall _ [_; LzVar name] _ =>
                  match assoc name data with
                  | Some (ColNum _ xs) => Ok (map (fun x => [x]) xs, false)
                  | Some _ => Err EUnsupported
                  | None => Err EKey
                  end
              | _, _ => Err EUnsupported
              end
          end
      end.
    Proof. intros <-. reflexivity. Qed.

    (** (a) A component typed and coded on D, evaluated on the selected rows of D, returns the
        selected rows of its training matrix, and warns about nothing -- in every mode. *)
    Theorem new_comp_sel mode c spans t d :
      comp_ok c -> set_type_comp cx D false c = Ok t -> box_complete t ->
      set_data_comp t spans n = Ok d ->
      new_comp cx mode (frame_sel D) d = Ok (sel (dc_rows d), false) /\ List.length (dc_rows d) = n.
    Proof.
      intros Hok Ht Hbc Hd. destruct c as [[name|lit] lvl|lz]; simpl in Ht.
      - (* a variable *)
        destruct (assoc name D) as [col|] eqn:E; [|discriminate]. injection Ht as <-.
        pose proof (assoc_In _ _ _ E) as Hin.
        unfold rect in D_rect. rewrite Forall_forall in D_rect. specialize (D_rect _ Hin). cbn [snd] in D_rect.
        destruct col as [i xs|o xs].
        + unfold set_data_comp in Hd. cbn [tc_kind tc_value col_value] in Hd. injection Hd as <-.
          rewrite (new_comp_unfold _ _ _ _ eq_refl). cbn [dc_t tc_src tc_kind].
          rewrite assoc_frame_sel, E. cbn [option_map col_sel dc_rows]. rewrite sel_map, map_length.
          split; [reflexivity|exact D_rect].
        + apply set_data_comp_cat_inv in Hd
            as (cm & num & o' & d0 & Hcm & Hcd & Hdt & Hrows & Hlev & Hnm); [|reflexivity|reflexivity].
          cbn [tc_value col_value categoric_data] in Hcd. injection Hcd as <- <- <-.
          rewrite (new_comp_unfold _ _ _ _ Hdt). cbn [tc_src tc_kind].
          rewrite assoc_frame_sel, E. cbn [option_map col_sel col_value categoric_data bind snd].
          destruct (categoric_rows_sel mode d cm xs Hcm Hrows) as [R L].
          * intros x Hx. destruct (Hnm (fun a b c e => ltac:(discriminate)) x Hx) as (s & ->).
            exists s. split; [reflexivity|]. rewrite Hlev.
            unfold declared_levels. cbn [tc_value col_value].
            destruct o as [cats|].
            -- unfold comp_ok, var_ok in Hok. rewrite E in Hok. apply Hok. assumption.
            -- apply sort_levels_cover; [intros Ef; discriminate Ef|assumption].
          * split; [exact R|]. rewrite L. exact D_rect.
      - discriminate.
      - (* a call *)
        destruct Hok as [Hsafe Hun].
        apply bind_ok in Ht as ([[v st1] rec] & Hev & Ht). cbn [fst snd] in Ht.
        destruct (eval_lazy_frozen D n D_rect Hun (d_extra cx) ex_scalar (d_sqrt cx) bs_ok lz v st1 rec Hsafe Hev)
          as (_ & Gv & Pv).
        unfold cxP in Pv.
        destruct v as [i xs|rows|o xs| | | | | | | |num bd enc lv|co xs|];
          cbn [bind] in Ht; try discriminate Ht; injection Ht as <-.
        + (* numeric series *)
          unfold set_data_comp in Hd. cbn [tc_kind tc_value] in Hd. injection Hd as <-.
          rewrite (new_comp_unfold _ _ _ _ eq_refl). cbn [dc_t tc_src tc_kind tc_state].
          rewrite Pv. cbn [bind fst snd val_sel dc_rows]. rewrite sel_map, map_length.
          split; [reflexivity|exact Gv].
        + (* numeric matrix *)
          unfold set_data_comp in Hd. cbn [tc_kind tc_value] in Hd. injection Hd as <-.
          rewrite (new_comp_unfold _ _ _ _ eq_refl). cbn [dc_t tc_src tc_kind tc_state].
          rewrite Pv. cbn [bind fst snd val_sel dc_rows]. split; [reflexivity|exact (proj1 Gv)].
        + (* strings *)
          cbn [good] in Gv. destruct Gv as [-> Gl].
          apply set_data_comp_cat_inv in Hd
            as (cm & num & o' & d0 & Hcm & Hcd & Hdt & Hrows & Hlev & Hnm); [|reflexivity|reflexivity].
          cbn [tc_value categoric_data] in Hcd. injection Hcd as <- <- <-.
          rewrite (new_comp_unfold _ _ _ _ Hdt). cbn [tc_src tc_kind tc_state].
          rewrite Pv. cbn [bind fst snd val_sel categoric_data].
          destruct (categoric_rows_sel mode d cm xs Hcm Hrows) as [R L].
          * intros x Hx. destruct (Hnm (fun a b c e => ltac:(discriminate)) x Hx) as (s & ->).
            exists s. split; [reflexivity|]. rewrite Hlev. unfold declared_levels. cbn [tc_value].
            apply sort_levels_cover; [intros Ef; discriminate Ef|assumption].
          * split; [exact R|]. rewrite L. exact Gl.
        + (* a categorical box *)
          cbn [good] in Gv. destruct Gv as (-> & Gl & Gn).
          apply set_data_comp_cat_inv in Hd
            as (cm & num' & o' & d0 & Hcm & Hcd & Hdt & Hrows & Hlev & _); [|reflexivity|reflexivity].
          cbn [tc_value categoric_data] in Hcd. injection Hcd as <- <- <-.
          rewrite (new_comp_unfold _ _ _ _ Hdt). cbn [tc_src tc_kind tc_state].
          rewrite Pv. cbn [bind fst snd val_sel categoric_data].
          destruct (categoric_rows_sel mode d cm bd Hcm Hrows) as [R L].
          * intros x Hx. unfold box_complete in Hbc. cbn [tc_value] in Hbc.
            rewrite Forall_forall in Hbc. specialize (Hbc x Hx).
            destruct x as [s|]; [|congruence]. exists s. split; [reflexivity|].
            rewrite Hlev. unfold declared_levels. cbn [tc_value].
            apply sort_levels_cover; assumption.
          * split; [exact R|]. rewrite L. exact Gl.
        + (* an offset *)
          cbn [good] in Gv. unfold set_data_comp in Hd. cbn [tc_kind tc_value tc_response] in Hd.
          rewrite (new_comp_unfold mode (frame_sel D) d _ (eq_sym (eq_refl (dc_t d)))).
          destruct co as [q|]; injection Hd as <-; cbn [dc_t tc_src tc_kind tc_value tc_state dc_rows].
          * rewrite frame_rows_sel, (n_rows : _ = _), sel_repeat, repeat_length. split; reflexivity.
          * rewrite Pv. cbn [bind fst snd val_sel]. rewrite sel_map, map_length.
            split; [reflexivity|]. apply Gv. reflexivity.
        + (* a proportion is a response only *)
          unfold set_data_comp in Hd. cbn [tc_kind tc_response negb] in Hd. discriminate Hd.
    Qed.

  
    (** ** terms *)

    (* a component typed on D (as a predictor) from a covered source *)
    Definition typed_comp (t : tcomp) : Prop :=
      exists c, comp_ok c /\ set_type_comp cx D false c = Ok t /\ box_complete t.

    Definition typed_term (tt : tterm) : Prop :=
      match tt with TTIntercept => True | TTTerm _ cs => Forall typed_comp cs end.

    (* a term of the design: typed on D, then coded with D's row count *)
    Definition trained_term (dt : dterm) : Prop :=
      exists tt s, typed_term tt /\ set_data_term n tt s = Ok dt.

    Lemma rows_kron_sel (a b : list (list cell)) :
      List.length a = List.length b -> rows_kron (sel a) (sel b) = sel (rows_kron a b).
    Proof. apply sel_zip_with. Qed.

    Lemma fold_rows_kron_sel (rs : list (list (list cell))) : forall r0,
      List.length r0 = n -> Forall (fun r => List.length r = n) rs ->
      fold_left rows_kron (map (fun r => sel r) rs) (sel r0) = sel (fold_left rows_kron rs r0) /\
      List.length (fold_left rows_kron rs r0) = n.
    Proof.
      induction rs as [|r rs IH]; intros r0 H0 H; simpl; [split; auto|].
      pose proof (Forall_inv H) as Hr. pose proof (Forall_inv_tail H) as Hrs. cbv beta in Hr.
      rewrite rows_kron_sel by congruence.
      apply IH; [rewrite rows_kron_length; lia|assumption].
    Qed.

    Lemma set_data_term_inv name cs s dt :
      set_data_term n (TTTerm name cs) s = Ok dt ->
      exists d0 rest,
        mapM (fun c => set_data_comp c (spans_for s (tc_name c)) n) cs = Ok (d0 :: rest) /\
        dt_comps dt = d0 :: rest /\
        dt_rows dt = fold_left rows_kron (map dc_rows rest) (dc_rows d0) /\
        String.eqb (dt_kind dt) "intercept" = false.
    Proof.
      unfold set_data_term. intros H. apply bind_ok in H as (ds & Hds & H).
      destruct ds as [|d0 [|d1 rest]]; [discriminate| |].
      - injection H as <-. exists d0, []. repeat split; auto.
        cbn [dt_kind]. destruct (tc_kind (dc_t d0)); reflexivity.
      - apply bind_ok in H as (labs & _ & H). destruct (existsb _ labs); [discriminate|]. injection H as <-. exists d0, (d1 :: rest).
        repeat split; auto.
    Qed.

    Definition sel_part (d : dcomp) : list (list cell) * bool := (sel (dc_rows d), false).

    Lemma new_comps_sel mode (f : tcomp -> bool) cs : forall ds,
      Forall typed_comp cs -> mapM (fun c => set_data_comp c (f c) n) cs = Ok ds ->
      mapM (new_comp cx mode (frame_sel D)) ds = Ok (map sel_part ds) /\
      Forall (fun d => List.length (dc_rows d) = n) ds.
    Proof.
      induction cs as [|t cs IH]; intros ds Ht H; simpl in H.
      - injection H as <-. split; [reflexivity|constructor].
      - apply bind_ok in H as (d & Hd & H). apply bind_ok in H as (ds' & Hds & H). injection H as <-.
        inversion Ht as [|? ? (c & Hok & Hty & Hbc) Ht']; subst.
        destruct (new_comp_sel mode c (f t) t d Hok Hty Hbc Hd) as [Hn Hl].
        destruct (IH ds' Ht' Hds) as [Hm Hls].
        split; [|constructor; assumption]. simpl. rewrite Hn. cbn [bind]. rewrite Hm. reflexivity.
    Qed.

    Lemma sel_parts_fst ds : map fst (map sel_part ds) = map (fun r => sel r) (map dc_rows ds).
    Proof. rewrite !map_map. reflexivity. Qed.

    Lemma sel_parts_snd ds : existsb (fun x : list (list cell) * bool => snd x) (map sel_part ds) = false.
    Proof. induction ds; simpl; auto. Qed.

    (** (b) A term of the design, evaluated on the selected rows, returns the selected rows of its
        training matrix. *)
    Theorem new_term_sel mode tt s dt :
      typed_term tt -> set_data_term n tt s = Ok dt ->
      new_term cx mode (frame_sel D) dt = Ok (sel (dt_rows dt), false) /\ List.length (dt_rows dt) = n.
    Proof.
      intros Ht H. destruct tt as [|name cs].
      - simpl in H. injection H as <-. unfold new_term. cbn [dt_kind dt_rows].
        rewrite String.eqb_refl, frame_rows_sel, (n_rows : _ = _), sel_repeat, repeat_length. split; reflexivity.
      - destruct (set_data_term_inv _ _ _ _ H) as (d0 & rest & Hds & Hcomps & Hrows & Hkind).
        destruct (new_comps_sel mode _ cs _ Ht Hds) as [Hm Hl].
        unfold new_term. rewrite Hkind, Hcomps, Hm. cbn [bind map].
        pose proof (Forall_inv Hl) as L0. pose proof (Forall_inv_tail Hl) as Lr. cbv beta in L0.
        destruct (fold_rows_kron_sel (map dc_rows rest) (dc_rows d0) L0) as [Hf Hfl].
        { apply Forall_map. exact Lr. }
        rewrite sel_parts_fst. unfold sel_part at 1 2. cbn [fst snd existsb orb].
        rewrite sel_parts_snd, Hrows, Hf. split; [reflexivity|exact Hfl].
    Qed.

    (** ** matrices *)

    Lemma hstack_sel (blocks : list (list (list cell))) :
      Forall (fun b => List.length b = n) blocks ->
      hstack (map (fun b => sel b) blocks) (seln n) = sel (hstack blocks n).
    Proof.
      intros H. rewrite !hstack_fold, <- sel_repeat.
      assert (L : List.length (repeat (@nil cell) n) = n) by apply repeat_length.
      revert L. generalize (repeat (@nil cell) n) as acc.
      induction H as [|b blocks Hb _ IH]; intros acc L; simpl; [reflexivity|].
      unfold hstep at 2. rewrite sel_zip_with by congruence. apply IH.
      unfold hstep. rewrite zip_with_length. lia.
    Qed.

    Definition sel_tpart (dt : dterm) : list (list cell) * bool := (sel (dt_rows dt), false).

    Lemma new_terms_sel mode dts :
      Forall trained_term dts ->
      mapM (new_term cx mode (frame_sel D)) dts = Ok (map sel_tpart dts) /\
      Forall (fun dt => List.length (dt_rows dt) = n) dts.
    Proof.
      induction 1 as [|dt dts (tt & s & Ht & Hd) _ [IH1 IH2]]; simpl.
      - split; [reflexivity|constructor].
      - destruct (new_term_sel mode tt s dt Ht Hd) as [Hn Hl]. rewrite Hn. cbn [bind]. rewrite IH1.
        split; [reflexivity|constructor; assumption].
    Qed.

    (** (c) The common-effects matrix of the design, evaluated on the selected rows of the
        training frame, is the selected rows of the training matrix; nothing is warned about. *)
    Theorem new_common_sel mode ds :
      ds_nrows ds = n -> Forall trained_term (ds_common ds) ->
      new_common cx mode ds (frame_sel D)
      = Ok (NewRes (sel (hstack (map dt_rows (ds_common ds)) (ds_nrows ds))) false).
    Proof.
      intros Hn Ht. destruct (new_terms_sel mode _ Ht) as [Hm Hl].
      unfold new_common. rewrite Hm. cbn [bind]. rewrite frame_rows_sel, (n_rows : _ = _), Hn.
      assert (E1 : map fst (map sel_tpart (ds_common ds)) = map (fun b => sel b) (map dt_rows (ds_common ds)))
        by (rewrite !map_map; reflexivity).
      assert (E2 : existsb (fun x : list (list cell) * bool => snd x) (map sel_tpart (ds_common ds)) = false)
        by (generalize (ds_common ds) as l0; intros l0; induction l0 as [|x0 l0 IHl]; [reflexivity|exact IHl]).
      rewrite E1, E2, hstack_sel; [reflexivity|]. apply Forall_map. exact Hl.
    Qed.

    (** ** from [eval_model] *)

    (* every component of every common term is covered *)
    Definition model_ok (m : model) : Prop :=
      forall t c, In (CT t) (commons m) -> In c t ->
                  comp_ok c /\ forall tc, set_type_comp cx D false c = Ok tc -> box_complete tc.

    Lemma dict_set_Forall {V} (P : V -> Prop) k v (d : list (string * V)) :
      P v -> Forall (fun kv => P (snd kv)) d -> Forall (fun kv => P (snd kv)) (dict_set k v d).
    Proof.
      intros Hv. induction 1 as [|[k' v'] d Hx Hd IH]; simpl; [constructor; [assumption|constructor]|].
      destruct (String.eqb k k'); constructor; simpl; auto.
    Qed.

    Lemma fold_dict_set_Forall {V} (P : V -> Prop) (key : V -> string) l : forall acc,
      Forall P l -> Forall (fun kv => P (snd kv)) acc ->
      Forall (fun kv => P (snd kv)) (fold_left (fun acc t => dict_set (key t) t acc) l acc).
    Proof.
      induction l as [|x l IH]; intros acc Hl Ha; simpl; [assumption|].
      inversion Hl; subst. apply IH; [assumption|]. apply dict_set_Forall; assumption.
    Qed.

    Lemma Forall_filter {T} (P : T -> Prop) f l : Forall P l -> Forall P (filter f l).
    Proof. rewrite !Forall_forall. intros H x Hx. apply filter_In in Hx as [Hx _]. auto. Qed.

    Lemma add_extra_terms_typed enc ts : forall ts',
      Forall typed_term ts -> add_extra_terms cx D enc ts = Ok ts' -> Forall typed_term ts'.
    Proof.
      induction ts as [|t ts IH]; intros ts' Ht H; cbn [add_extra_terms] in H.
      - injection H as <-. constructor.
      - inversion Ht as [|? ? Ht0 Hts]; subst.
        apply bind_ok in H as (r' & Hr & H). specialize (IH r' Hts Hr).
        assert (Hplain : Forall typed_term (t :: r')) by (constructor; assumption).
        destruct (dict_get (tterm_name t) enc) as [[|s1 [|s2 more]]|]; try (injection H as <-; exact Hplain).
        apply bind_ok in H as (ex & Hex & H). injection H as <-.
        apply Forall_app. split; [|exact Hplain].
        apply mapM_ok in Hex. clear -Hex Ht0.
        induction Hex as [|sub e subs es He _ IHe]; constructor; [|assumption].
        destruct t as [|nm cs]; simpl in He; [discriminate|]. injection He as <-. simpl.
        apply Forall_app. split; apply Forall_filter; exact Ht0.
    Qed.

    Lemma type_commons_typed cms : forall tcs,
      (forall t c, In (CT t) cms -> In c t ->
                   comp_ok c /\ forall tc, set_type_comp cx D false c = Ok tc -> box_complete tc) ->
      mapM (type_common cx D) cms = Ok tcs -> Forall typed_term tcs.
    Proof.
      intros tcs Hcov Htcs. apply mapM_ok in Htcs.
      induction Htcs as [|c tt cms tts Hc _ IH]; constructor.
      - destruct c as [| |t]; simpl in Hc; [injection Hc as <-; exact I|discriminate|].
        unfold set_type_term in Hc. apply bind_ok in Hc as (cs & Hcs & Hc). injection Hc as <-. simpl.
        apply mapM_ok in Hcs.
        assert (Hcov' : forall c, In c t -> comp_ok c /\ forall tc, set_type_comp cx D false c = Ok tc -> box_complete tc).
        { intros c Hin. apply (Hcov t c); [left; reflexivity|assumption]. }
        clear -Hcs Hcov'. induction Hcs as [|c tc t cs Hc _ IHc]; constructor.
        + destruct (Hcov' c (or_introl eq_refl)) as [Hk Hb]. exists c. auto.
        + apply IHc. intros c' Hin. apply Hcov'. right; assumption.
      - apply IH. intros t c' Hin. apply Hcov. right; assumption.
    Qed.

    Theorem eval_model_trained m ds :
      model_ok m -> eval_model cx D m = Ok ds ->
      ds_nrows ds = n /\ Forall trained_term (ds_common ds).
    Proof.
      intros Hok H. unfold eval_model in H. rewrite (n_rows : _ = _) in H.
      apply bind_ok in H as (tcs & Htcs & H). apply bind_ok in H as (tgs & _ & H).
      apply bind_ok in H as (enc1 & _ & H). apply bind_ok in H as (tcs2 & Htcs2 & H).
      apply bind_ok in H as (enc2 & _ & H). apply bind_ok in H as (dcs & Hdcs & H).
      apply bind_ok in H as (dgs & _ & H). apply bind_ok in H as (r & _ & H). injection H as <-.
      cbn [ds_nrows ds_common]. split; [reflexivity|].
      pose proof (type_commons_typed _ _ Hok Htcs) as T1.
      pose proof (add_extra_terms_typed _ _ _ T1 Htcs2) as T2.
      assert (T3 : Forall trained_term dcs).
      { apply mapM_ok in Hdcs. clear -Hdcs T2. induction Hdcs as [|tt dt tts dts Hd _ IH]; constructor.
        - inversion T2; subst. apply bind_ok in Hd as (s & _ & Hd). exists tt, s. auto.
        - inversion T2; subst. apply IH; assumption. }
      apply Forall_map. apply (fold_dict_set_Forall trained_term dt_name); [assumption|constructor].
    Qed.

    (** P1 on [eval_model]: a design built from D, evaluated on the selected rows of D. *)
    Corollary eval_model_new_common_sel mode m ds :
      model_ok m -> eval_model cx D m = Ok ds ->
      new_common cx mode ds (frame_sel D)
      = Ok (NewRes (sel (hstack (map dt_rows (ds_common ds)) (ds_nrows ds))) false).
    Proof.
      intros Hok H. destruct (eval_model_trained m ds Hok H) as [Hn Ht]. apply new_common_sel; assumption.
    Qed.

  End Comp.


  (** ** row order: training again on permuted rows (C08) *)

  Definition extra_refit_ok (n : nat) (callees : list string) : Prop :=
    forall c, In c callees ->
    forall d dP ex sq st pos kw v st1 rec,
      Forall (good n) pos -> Forall (fun kv => good n (snd kv)) kw ->
      call_stateful (ECtx d ex sq true) c st pos kw = Ok (v, st1, rec) ->
      forall st', call_stateful (ECtx dP ex sq true) c st' (map val_sel pos) (map kv_sel kw)
                  = Ok (val_sel v, st', rec).

  Section Refit.
    (* the row operation is a permutation of the rows of lists with n elements *)
    Variable n : nat.
    Hypothesis sel_perm : forall (T : Type) (l : list T), List.length l = n -> Permutation (sel l) l.
    (* the additional stateful callees: training them on a permuted argument records the same
       parameters and returns the permuted value (trivial for extra = []; PermSpline.v proves it
       for bs and poly); and bs is never given an empty selection *)
    Hypothesis extra_refit : extra_refit_ok n extra.
    Hypothesis no_bs : In "bs" extra -> seln n <> 0.

    (** Training a stateful transform on permuted data estimates the same parameters. *)
    Lemma call_stateful_refit d dP ex sq name st pos kw v st1 rec :
      In name stat_callees ->
      Forall (good n) pos -> Forall (fun kv => good n (snd kv)) kw ->
      call_stateful (ECtx d ex sq true) name st pos kw = Ok (v, st1, rec) ->
      forall st', call_stateful (ECtx dP ex sq true) name st' (map val_sel pos) (map kv_sel kw)
                  = Ok (val_sel v, st', rec).
    Proof.
      intros Hin Gp Gk H st'. rewrite (call_stateful_unfold _ _ _ _ _ Hin) in H.
      rewrite (call_stateful_unfold _ _ _ _ _ Hin). rewrite check_kw_sel.
      destruct (negb (check_kw ["x"] kw)); [discriminate H|].
      apply bind_ok in H as (b & Hb & H). rewrite (bind_args_sel _ _ _ _ Hb). cbn [bind].
      unfold stateful_body in *. rewrite arg_sel. cbn [e_fit e_sqrt] in *.
      pose proof (arg_good n "x" b (bind_args_Forall (good n) _ _ _ _ Hb Gp Gk)) as Gx.
      destruct (arg "x" b) as [i xs| | | | | | | | | | | |] eqn:Ex; try discriminate H.
      cbn [val_sel good] in *.
      rewrite (cmean_perm _ _ (sel_perm _ xs Gx)), (cstd_perm sq _ _ (sel_perm _ xs Gx)).
      destruct (String.eqb name "center").
      - injection H as <- <- <-. cbn [val_sel]. rewrite sel_map. reflexivity.
      - apply bind_ok in H as (v0 & Hv & H). apply bind_ok in Hv as (l & Hl & Hv).
        injection Hv as <-. injection H as <- <- <-.
        rewrite (sel_mapM _ _ _ Hl). reflexivity.
    Qed.

    Variable D : frame.
    Hypothesis D_rect : rect n D.
    Hypothesis D_unord : frame_unordered D.
    Variable ex : list (string * pyval).
    Hypothesis ex_scalar : forall k v, assoc k ex = Some v -> is_scalar v = true.
    Variable sq : Qc -> Qc.

    (* the training pass on the permuted frame *)
    Definition cxR : ectx := ECtx (frame_sel D) ex sq true.

    Definition refit_spec (l : lazy) : Prop :=
      forall st v st1 rec,
        eval_lazy (cxF D ex sq) st l = Ok (v, st1, rec) ->
        forall st', eval_lazy cxR st' l = Ok (val_sel v, st', rec).

    Lemma eval_args_refit args :
      Forall (fun a => rsafe a = true -> refit_spec a) args ->
      forallb rsafe args = true ->
      forall st vals0 rec0 vals st1 rec,
        eval_args (eval_lazy (cxF D ex sq)) args st vals0 rec0 = Ok (vals, st1, rec) ->
        exists vs recs,
          vals = vals0 ++ vs /\ rec = rec0 ++ recs /\ Forall (good n) vs /\
          List.length vs = List.length args /\
          forall st' pv pr,
            eval_args (eval_lazy cxR) args st' pv pr = Ok (pv ++ map val_sel vs, st', pr ++ recs).
    Proof.
      induction 1 as [|a args Ha _ IH]; intros Hs st vals0 rec0 vals st1 rec H.
      - simpl in H. injection H as <- <- <-. exists [], [].
        rewrite !app_nil_r. repeat split; auto. intros st' pv pr. simpl. rewrite !app_nil_r. reflexivity.
      - simpl in Hs. apply andb_true_iff in Hs as [Hsa Hs]. simpl in H.
        apply bind_ok in H as ([[va sta] reca] & Hx & H). cbn [fst snd] in H.
        destruct (eval_lazy_sel D n D_rect D_unord ex ex_scalar sq no_bs a Hsa _ _ _ _ Hx) as (_ & Gva & _).
        pose proof (Ha Hsa _ _ _ _ Hx) as Ra.
        destruct (IH Hs _ _ _ _ _ _ H) as (vs & recs & -> & -> & Gvs & Lvs & Ps).
        exists (va :: vs), (reca ++ recs).
        rewrite <- !app_assoc. split; [reflexivity|]. split; [reflexivity|].
        split; [constructor; assumption|]. split; [simpl; congruence|].
        intros st' pv pr. simpl. rewrite Ra. cbn [bind fst snd].
        rewrite Ps, <- !app_assoc. reflexivity.
    Qed.

    Lemma eval_kwargs_refit (kws : list (string * lazy)) :
      Forall (fun kv => rsafe (snd kv) = true -> refit_spec (snd kv)) kws ->
      forallb (fun kv => match kv with (_, a) => rsafe a end) kws = true ->
      forall st vals0 rec0 vals st1 rec,
        eval_kwargs (eval_lazy (cxF D ex sq)) kws st vals0 rec0 = Ok (vals, st1, rec) ->
        exists kvs recs,
          vals = vals0 ++ kvs /\ rec = rec0 ++ recs /\ Forall (fun kv => good n (snd kv)) kvs /\
          map fst kvs = map fst kws /\
          forall st' pv pr,
            eval_kwargs (eval_lazy cxR) kws st' pv pr = Ok (pv ++ map kv_sel kvs, st', pr ++ recs).
    Proof.
      induction 1 as [|[k a] kws Ha _ IH]; intros Hs st vals0 rec0 vals st1 rec H.
      - simpl in H. injection H as <- <- <-. exists [], [].
        rewrite !app_nil_r. repeat split; auto. intros st' pv pr. simpl. rewrite !app_nil_r. reflexivity.
      - simpl in Hs. apply andb_true_iff in Hs as [Hsa Hs]. simpl in H, Ha.
        apply bind_ok in H as ([[va sta] reca] & Hx & H). cbn [fst snd] in H.
        destruct (eval_lazy_sel D n D_rect D_unord ex ex_scalar sq no_bs a Hsa _ _ _ _ Hx) as (_ & Gva & _).
        pose proof (Ha Hsa _ _ _ _ Hx) as Ra.
        destruct (IH Hs _ _ _ _ _ _ H) as (kvs & recs & -> & -> & Gvs & Lvs & Ps).
        exists ((k, va) :: kvs), (reca ++ recs).
        rewrite <- !app_assoc. split; [reflexivity|]. split; [reflexivity|].
        split; [constructor; assumption|]. split; [simpl; congruence|].
        intros st' pv pr. simpl. rewrite Ra. cbn [bind fst snd].
        rewrite Ps, <- !app_assoc. reflexivity.
    Qed.

    (** Training on the permuted frame computes the permuted values and records the same
        parameters, in the same order. *)
    Theorem eval_lazy_refit l : rsafe l = true -> refit_spec l.
    Proof.
      induction l as [sym args IH|name|lit lx|c args kw IHa IHk] using lazy_ind'; intros Hs.
      - simpl in Hs. intros st v st1 rec H st'.
        destruct args as [|a [|b [|c r]]]; try discriminate H.
        + inversion IH as [|? ? Ha _]; subst. simpl in Hs. rewrite andb_true_r in Hs.
          cbn [eval_lazy] in H. apply bind_ok in H as ([[va sta] reca] & Hx & H).
          apply bind_ok in H as (w & Hw & H). cbn [fst snd] in *. injection H as <- <- <-.
          destruct (eval_lazy_sel D n D_rect D_unord ex ex_scalar sq no_bs a Hs _ _ _ _ Hx) as (_ & Gva & _).
          destruct (apply_unop_sel n sym va w Gva Hw) as [Hw' Gw].
          cbn [eval_lazy]. rewrite (Ha Hs _ _ _ _ Hx). cbn [bind fst snd]. rewrite Hw'. reflexivity.
        + inversion IH as [|? ? Ha IH']; subst. inversion IH' as [|? ? Hb _]; subst.
          simpl in Hs. rewrite andb_true_r in Hs. apply andb_true_iff in Hs as [Hsa Hsb].
          cbn [eval_lazy] in H. apply bind_ok in H as ([[va sta] reca] & Hx & H).
          apply bind_ok in H as ([[vb stb] recb] & Hy & H).
          apply bind_ok in H as (w & Hw & H). cbn [fst snd] in *. injection H as <- <- <-.
          destruct (eval_lazy_sel D n D_rect D_unord ex ex_scalar sq no_bs a Hsa _ _ _ _ Hx) as (_ & Gva & _).
          destruct (eval_lazy_sel D n D_rect D_unord ex ex_scalar sq no_bs b Hsb _ _ _ _ Hy) as (_ & Gvb & _).
          destruct (apply_binop_sel n sym va vb w Gva Gvb Hw) as [Hw' Gw].
          cbn [eval_lazy]. rewrite (Ha Hsa _ _ _ _ Hx). cbn [bind fst snd].
          rewrite (Hb Hsb _ _ _ _ Hy). cbn [bind fst snd]. rewrite Hw'. reflexivity.
      - intros st v st1 rec H st'. cbn [eval_lazy] in H. apply bind_ok in H as (w & Hw & H).
        injection H as <- <- <-.
        destruct (lookup_name_sel D n D_rect D_unord ex ex_scalar sq _ _ Hw) as [_ Pw].
        cbn [eval_lazy]. change (lookup_name cxR name) with (lookup_name (cxP D ex sq) name).
        rewrite Pw. reflexivity.
      - intros st v st1 rec H st'. cbn [eval_lazy] in *. injection H as <- <- <-.
        destruct lit; reflexivity.
      - rewrite rsafe_call in Hs.
        apply andb_true_iff in Hs as [Hs Hbox]. apply andb_true_iff in Hs as [Hs Hsk].
        apply andb_true_iff in Hs as [Hc Hsa].
        destruct (safe_callee_cases c Hc) as [Hknown Hkind].
        intros st v st1 rec H st'. rewrite eval_lazy_call in *. rewrite Hknown in *. cbn [negb] in *.
        apply bind_ok in H as ([[pos sta] reca] & Hra & H).
        apply bind_ok in H as ([[kws stk] reck] & Hrk & H). cbn [fst snd] in H.
        destruct (eval_args_refit args IHa Hsa _ _ _ _ _ _ Hra) as (vs & recsA & -> & -> & Gvs & Lvs & Pa).
        destruct (eval_kwargs_refit kw IHk Hsk _ _ _ _ _ _ Hrk) as (kvs & recsK & -> & -> & Gks & Kks & Pk).
        cbn [app] in *. rewrite Pa. cbn [bind fst snd app]. rewrite Pk. cbn [bind fst snd app].
        destruct Hkind as [[Hin Hst]|[(Hex & _ & Hst)|[Hin Hst]]]; rewrite Hst in *.
        + apply bind_ok in H as ([[w stw] recw] & Hw & H). cbn [fst snd] in H. injection H as <- <- <-.
          unfold cxR. rewrite (call_stateful_refit _ (frame_sel D) _ _ _ _ _ _ _ _ _ Hin Gvs Gks Hw st').
          reflexivity.
        + apply bind_ok in H as ([[w stw] recw] & Hw & H). cbn [fst snd] in H. injection H as <- <- <-.
          unfold cxR. rewrite (extra_refit c Hex _ (frame_sel D) _ _ _ _ _ _ _ _ Gvs Gks Hw st').
          reflexivity.
        + apply bind_ok in H as (w & Hw & H). injection H as <- <- <-.
          assert (Hb : In c box_callees -> List.length vs <= 2 /\ assoc "levels" kvs = None).
          { intros Hbc. rewrite (existsb_eqb_In' _ _ Hbc) in Hbox.
            apply andb_true_iff in Hbox as [Hlen Hlev]. apply Nat.leb_le in Hlen.
            split; [lia|]. apply assoc_None_iff. rewrite Kks. intros Hin'.
            apply negb_true_iff in Hlev.
            assert (existsb (fun kv : string * lazy => String.eqb (fst kv) "levels") kw = true); [|congruence].
            apply in_map_iff in Hin' as (kv & E & Hkv). apply existsb_exists. exists kv.
            split; [assumption|]. rewrite E. reflexivity. }
          destruct (call_function_sel n (cxF D ex sq) cxR c vs kvs w Hin Gvs Gks Hb Hw) as [Hw' _].
          rewrite Hw'. reflexivity.
    Qed.

    (** *** components *)

    Definition tcomp_sel (t : tcomp) : tcomp :=
      TC (tc_name t) (tc_src t) (tc_kind t) (val_sel (tc_value t)) (tc_state t) (tc_response t)
         (tc_reference t).

    Definition dcomp_sel (d : dcomp) : dcomp :=
      DC (tcomp_sel (dc_t d)) (dc_levels d) (dc_contrast d) (sel (dc_rows d)) (dc_labels d) (dc_spans d).

    (** Typing a component on the permuted frame: the same kind, name and recorded state; the
        value is permuted. *)
    Theorem set_type_comp_refit r c t :
      match c with CCall lz => rsafe lz = true | _ => True end ->
      set_type_comp (DCtx ex sq) D r c = Ok t ->
      set_type_comp (DCtx ex sq) (frame_sel D) r c = Ok (tcomp_sel t).
    Proof.
      intros Hok H. destruct c as [[name|lit] lvl|lz]; simpl in *.
      - rewrite assoc_frame_sel. destruct (assoc name D) as [col|]; [|discriminate H].
        injection H as <-. cbn [option_map]. destruct col; reflexivity.
      - discriminate H.
      - apply bind_ok in H as ([[v st1] rec] & Hev & H). cbn [fst snd] in H.
        pose proof (eval_lazy_refit lz Hok _ _ _ _ Hev []) as R. unfold cxR in R. rewrite R.
        cbn [bind fst snd].
        destruct v; cbn [bind val_sel] in *; try discriminate H; injection H as <-; reflexivity.
    Qed.

    Definition value_ok (v : pyval) : Prop := good n v.

    Lemma width_sel (rows : list (list cell)) :
      List.length rows = n -> regular_rows rows -> width (sel rows) = width rows.
    Proof.
      intros L (w & Hw). pose proof (sel_perm _ rows L) as P.
      destruct rows as [|r0 rows'].
      - rewrite sel_nil. reflexivity.
      - destruct (sel (r0 :: rows')) as [|r1 rest] eqn:E.
        + apply Permutation_nil in P. discriminate P.
        + simpl. rewrite Forall_forall in Hw.
          rewrite (Hw r0 (or_introl eq_refl)). apply Hw.
          apply (Permutation_in _ P). left. reflexivity.
    Qed.

    Lemma present_sel (d : list (option string)) :
      List.length d = n -> Permutation (present (sel d)) (present d).
    Proof. intros L. apply present_perm. apply sel_perm. exact L. Qed.

    Lemma no_missing_sel (d : list (option string)) :
      existsb (fun x => match x with None => true | _ => false end) d = false ->
      existsb (fun x => match x with None => true | _ => false end) (sel d) = false.
    Proof.
      intros H. destruct (existsb _ (sel d)) eqn:E; [|reflexivity].
      apply sel_existsb in E. congruence.
    Qed.

    Lemma code_rows_sel m w cats (d : list (option string)) :
      code_rows m w (level_codes cats (sel d)) = sel (code_rows m w (level_codes cats d)).
    Proof. unfold code_rows, level_codes. rewrite !sel_map. reflexivity. Qed.

    (* the coding of categoric data that is not a CategoricalBox *)
    Definition cat_body (t : tcomp) (spans : bool) (num : bool) (decl : option (list string))
               (d0 : list (option string)) : res dcomp :=
      if existsb (fun x => match x with None => true | _ => false end) d0 then Err EUnsupported else
      let cats := match decl with Some cs => cs | None => sort_levels num (present d0) end in
      match tc_response t, tc_reference t with
      | true, Some ref =>
          Ok (DC t cats None
                 (map (fun x => [match x with
                                 | Some s => if String.eqb s ref then zcell 1 else zcell 0
                                 | None => zcell 0 end]) d0)
                 (Some [(tc_name t ++ "[" ++ ref ++ "]")%string]) spans)
      | _, _ =>
          do cm <- code (Treatment None) spans cats;
          Ok (DC t cats (Some cm) (code_rows (cmatrix cm) (contrast_width cm) (level_codes cats d0))
                 (Some (map (fun l => (tc_name t ++ "[" ++ l ++ "]")%string) (clabels cm))) spans)
      end.

    Lemma cat_body_refit t spans num decl d0 d :
      List.length d0 = n ->
      cat_body t spans num decl d0 = Ok d ->
      cat_body (tcomp_sel t) spans num decl (sel d0) = Ok (dcomp_sel d).
    Proof.
      unfold cat_body. intros L0 H. cbn [tcomp_sel tc_response tc_reference tc_name].
      destruct (existsb _ d0) eqn:Em; [discriminate H|]. rewrite (no_missing_sel _ Em).
      rewrite (sort_levels_perm num _ _ (present_sel d0 L0)). cbv zeta in *.
      destruct (tc_response t), (tc_reference t);
        first [ injection H as <-; unfold dcomp_sel;
                cbn [dc_t dc_levels dc_contrast dc_rows dc_labels dc_spans];
                rewrite <- sel_map; reflexivity
              | apply bind_ok in H as (cm & Hcode & H); rewrite Hcode; cbn [bind];
                injection H as <-; unfold dcomp_sel;
                cbn [dc_t dc_levels dc_contrast dc_rows dc_labels dc_spans];
                rewrite code_rows_sel; reflexivity ].
    Qed.

    (** Coding the permuted component: the same levels, contrast matrix and labels; the rows
        are permuted. *)
    Theorem set_data_comp_refit t spans d :
      value_ok (tc_value t) ->
      set_data_comp t spans n = Ok d ->
      set_data_comp (tcomp_sel t) spans (seln n) = Ok (dcomp_sel d).
    Proof.
      intros G H. unfold value_ok in G.
      destruct (tc_kind t) eqn:Ek.
      - (* numeric *)
        unfold set_data_comp in *. cbn [tcomp_sel tc_kind tc_value tc_name]. rewrite Ek in *.
        destruct (tc_value t) as [i xs|rows| | | | | | | | | | |]; try discriminate H.
        + injection H as <-. cbn [val_sel]. unfold dcomp_sel. cbn [dc_t dc_levels dc_contrast dc_rows dc_labels dc_spans].
          rewrite sel_map. reflexivity.
        + cbn [good] in G. destruct G as [L R]. injection H as <-. cbn [val_sel]. unfold dcomp_sel.
          cbn [dc_t dc_levels dc_contrast dc_rows dc_labels dc_spans].
          change (match sel rows with r :: _ => List.length r | [] => 0 end) with (width (sel rows)).
          rewrite (width_sel rows L R). reflexivity.
      - (* categoric *)
        destruct (tc_value t) as [i xs|rows|o xs| | | | | | | |num bd enc lv| |] eqn:Ev;
          try (unfold set_data_comp in H; rewrite Ek, Ev in H; discriminate H); try contradiction.
        + assert (E1 : set_data_comp t spans n
                       = cat_body t spans true None
                                  (map (fun c => match c with Some q0 => Some (int_label q0) | None => None end) xs)).
          { unfold set_data_comp, cat_body. rewrite Ek, Ev. destruct i; [reflexivity|].
            exfalso. unfold set_data_comp in H. rewrite Ek, Ev in H. discriminate H. }
          assert (Ei : i = true).
          { destruct i; [reflexivity|]. unfold set_data_comp in H. rewrite Ek, Ev in H. discriminate H. }
          subst i. rewrite E1 in H. apply cat_body_refit in H; [|rewrite map_length; exact G].
          rewrite <- H. unfold set_data_comp, cat_body.
          cbn [tcomp_sel tc_kind tc_value tc_response tc_reference tc_name].
          rewrite Ek, Ev. cbn [val_sel categoric_data bind fst snd]. rewrite sel_map. reflexivity.
        + cbn [good] in G. destruct G as [-> L0].
          assert (E1 : set_data_comp t spans n = cat_body t spans false None xs).
          { unfold set_data_comp, cat_body. rewrite Ek, Ev. reflexivity. }
          rewrite E1 in H. apply cat_body_refit in H; [|exact L0].
          rewrite <- H. unfold set_data_comp, cat_body.
          cbn [tcomp_sel tc_kind tc_value tc_response tc_reference tc_name].
          rewrite Ek, Ev. reflexivity.
        + cbn [good] in G. destruct G as (-> & L0 & _).
          unfold set_data_comp in *. cbn [tcomp_sel tc_kind tc_value tc_name]. rewrite Ek, Ev in *.
          cbn [val_sel].
          rewrite (sort_levels_perm num _ _ (present_sel bd L0)).
          match type of H with (if ?c then _ else _) = _ => destruct c; [discriminate H|] end. apply bind_ok in H as (cm & Hcode & H). rewrite Hcode. cbn [bind].
          injection H as <-. unfold dcomp_sel.
          cbn [dc_t dc_levels dc_contrast dc_rows dc_labels dc_spans].
          rewrite code_rows_sel. reflexivity.
      - (* offset *)
        unfold set_data_comp in *. cbn [tcomp_sel tc_kind tc_value tc_response tc_name]. rewrite Ek in *.
        destruct (tc_response t); [discriminate H|].
        destruct (tc_value t) as [| | | | | | | | | | |co xs|] eqn:Ev; try discriminate H.
        cbn [val_sel]. destruct co as [q0|]; injection H as <-; unfold dcomp_sel;
          cbn [dc_t dc_levels dc_contrast dc_rows dc_labels dc_spans].
        * rewrite sel_repeat. reflexivity.
        * rewrite sel_map. reflexivity.
      - (* proportion *)
        unfold set_data_comp in H. rewrite Ek in H.
        destruct (negb (tc_response t)); [discriminate H|].
        destruct (tc_value t); try discriminate H. exfalso. exact G.
    Qed.

    (** *** terms *)

    Definition tterm_sel (tt : tterm) : tterm :=
      match tt with TTIntercept => TTIntercept | TTTerm name cs => TTTerm name (map tcomp_sel cs) end.

    Definition dterm_sel (dt : dterm) : dterm :=
      DT (dt_name dt) (dt_kind dt) (map dcomp_sel (dt_comps dt)) (sel (dt_rows dt)) (dt_labels dt).

    Definition comp_safe (c : comp) : Prop :=
      match c with CCall lz => rsafe lz = true | _ => True end.

    Definition good_term (tt : tterm) : Prop :=
      match tt with TTIntercept => True | TTTerm _ cs => Forall (fun c => good n (tc_value c)) cs end.

    Lemma mapM_map {A A' B} (h : A -> A') (f : A' -> res B) l : mapM f (map h l) = mapM (fun x => f (h x)) l.
    Proof. induction l as [|x l IH]; simpl; [reflexivity|]. rewrite IH. reflexivity. Qed.

    Lemma mapM_transport {A B B'} (f : A -> res B) (f' : A -> res B') (g : B -> B') (Q : B -> Prop) l :
      forall ys,
        (forall x y, In x l -> f x = Ok y -> f' x = Ok (g y) /\ Q y) ->
        mapM f l = Ok ys -> mapM f' l = Ok (map g ys) /\ Forall Q ys.
    Proof.
      induction l as [|x l IH]; intros ys Hf H; simpl in H.
      - injection H as <-. split; [reflexivity|constructor].
      - apply bind_ok in H as (y & Hy & H). apply bind_ok in H as (ys' & Hys & H). injection H as <-.
        destruct (Hf x y (or_introl eq_refl) Hy) as [Hy' Qy].
        destruct (IH ys' (fun x0 y0 Hin => Hf x0 y0 (or_intror Hin)) Hys) as [Hys' Qys].
        simpl. rewrite Hy'. cbn [bind]. rewrite Hys'. split; [reflexivity|constructor; assumption].
    Qed.

    Lemma mapM_bind_map {A B B'} (f : A -> res B) (f' : A -> res B') (g : B -> B') l :
      (forall x, f' x = do y <- f x; Ok (g y)) ->
      mapM f' l = do ys <- mapM f l; Ok (map g ys).
    Proof.
      intros Hf. induction l as [|x l IH]; simpl; [reflexivity|]. rewrite Hf, IH.
      destruct (f x); cbn [bind]; [|reflexivity]. destruct (mapM f l); reflexivity.
    Qed.

    Lemma col_value_good k c : In (k, c) D -> good n (col_value c).
    Proof.
      intros Hin. unfold rect in D_rect. unfold frame_unordered in D_unord.
      rewrite Forall_forall in D_rect, D_unord. specialize (D_rect _ Hin). specialize (D_unord _ Hin).
      cbn [snd] in *. destruct c as [i xs|o xs]; cbn [col_value good col_len] in *; [assumption|].
      destruct o; [contradiction|]. split; [reflexivity|assumption].
    Qed.

    Lemma set_type_comp_good r c t :
      comp_safe c -> set_type_comp (DCtx ex sq) D r c = Ok t -> good n (tc_value t).
    Proof.
      intros Hs H. destruct c as [[name|lit] lvl|lz]; simpl in *.
      - destruct (assoc name D) as [col|] eqn:E; [|discriminate H]. injection H as <-.
        cbn [tc_value]. apply (col_value_good name). apply assoc_In. exact E.
      - discriminate H.
      - apply bind_ok in H as ([[v st1] rec] & Hev & H). cbn [fst snd] in H.
        destruct (eval_lazy_sel D n D_rect D_unord ex ex_scalar sq no_bs lz Hs _ _ _ _ Hev) as (_ & G & _).
        destruct v; cbn [bind] in H; try discriminate H; injection H as <-; exact G.
    Qed.

    Lemma set_data_comp_length t spans d :
      good n (tc_value t) -> set_data_comp t spans n = Ok d -> List.length (dc_rows d) = n.
    Proof.
      intros G H. unfold set_data_comp in H.
      destruct (tc_kind t);
        destruct (tc_value t) as [i xs|rows|o xs| | | | | | | |num bd enc lv|co xs|];
        cbn [good categoric_data bind fst snd] in *; try discriminate H;
        try (destruct i; cbn [categoric_data bind fst snd] in H; try discriminate H);
        repeat match type of H with
               | (if ?c then _ else _) = Ok _ => destruct c; try discriminate H
               | match ?x with _ => _ end = Ok _ => destruct x; try discriminate H
               | bind ?r _ = Ok _ => let cm := fresh "cm" in destruct r as [cm|]; cbn [bind] in H; try discriminate H
               end;
        injection H as <-; cbn [dc_rows]; unfold code_rows, level_codes;
        rewrite ?map_length, ?repeat_length; try tauto; try (apply G; reflexivity).
    Qed.

    Lemma term_kind_info_sel tt : term_kind_info (tterm_sel tt) = term_kind_info tt.
    Proof.
      destruct tt as [|name cs]; [reflexivity|]. destruct cs as [|c [|c' cs]]; simpl; try reflexivity.
      rewrite map_map. reflexivity.
    Qed.

    Lemma tterm_name_sel tt : tterm_name (tterm_sel tt) = tterm_name tt.
    Proof. destruct tt; reflexivity. Qed.

    Lemma set_type_term_refit r t tt :
      Forall comp_safe t -> set_type_term (DCtx ex sq) D r t = Ok tt ->
      set_type_term (DCtx ex sq) (frame_sel D) r t = Ok (tterm_sel tt) /\ good_term tt.
    Proof.
      intros Hs H. unfold set_type_term in *. apply bind_ok in H as (cs & Hcs & H). injection H as <-.
      destruct (mapM_transport (set_type_comp (DCtx ex sq) D r) (set_type_comp (DCtx ex sq) (frame_sel D) r)
                               tcomp_sel (fun c => good n (tc_value c)) t cs) as [Hm Hg]; [|exact Hcs|].
      - intros c tc Hin Hc. rewrite Forall_forall in Hs. specialize (Hs c Hin). split.
        + apply set_type_comp_refit; [destruct c; exact Hs|exact Hc].
        + eapply set_type_comp_good; eauto.
      - rewrite Hm. split; [reflexivity|exact Hg].
    Qed.

    Lemma filter_map_comm {A B} (f : B -> bool) (g : A -> B) l :
      filter f (map g l) = map g (filter (fun x => f (g x)) l).
    Proof. induction l as [|x l IH]; simpl; [reflexivity|]. destruct (f (g x)); simpl; rewrite IH; reflexivity. Qed.

    Lemma extra_term_sel cx1 cx2 d1 d2 t sub :
      extra_term cx2 d2 (tterm_sel t) sub = do e <- extra_term cx1 d1 t sub; Ok (tterm_sel e).
    Proof.
      destruct t as [|nm cs]; [reflexivity|]. unfold extra_term. cbn [tterm_sel bind].
      rewrite !filter_map_comm. cbn [tcomp_sel tc_name tc_kind]. rewrite <- map_app, !map_map.
      reflexivity.
    Qed.

    Lemma add_extra_terms_sel cx1 cx2 d1 d2 enc ts :
      add_extra_terms cx2 d2 enc (map tterm_sel ts)
      = do ts' <- add_extra_terms cx1 d1 enc ts; Ok (map tterm_sel ts').
    Proof.
      induction ts as [|t ts IH]; [reflexivity|]. cbn [map add_extra_terms]. rewrite IH.
      destruct (add_extra_terms cx1 d1 enc ts) as [r'|]; cbn [bind]; [|reflexivity].
      rewrite tterm_name_sel.
      destruct (dict_get (tterm_name t) enc) as [[|s1 [|s2 more]]|]; try reflexivity.
      rewrite (mapM_bind_map (extra_term cx1 d1 t) _ tterm_sel)
        by (intros; apply extra_term_sel).
      destruct (mapM (extra_term cx1 d1 t) _) as [ex'|]; cbn [bind]; [|reflexivity].
      rewrite map_app. reflexivity.
    Qed.

    Lemma add_extra_terms_good cx1 d1 enc ts : forall ts',
      Forall good_term ts -> add_extra_terms cx1 d1 enc ts = Ok ts' -> Forall good_term ts'.
    Proof.
      induction ts as [|t ts IH]; intros ts' Ht H; cbn [add_extra_terms] in H.
      - injection H as <-. constructor.
      - pose proof (Forall_inv Ht) as Ht0. pose proof (Forall_inv_tail Ht) as Hts.
        apply bind_ok in H as (r' & Hr & H). specialize (IH r' Hts Hr).
        assert (Hplain : Forall good_term (t :: r')) by (constructor; assumption).
        destruct (dict_get (tterm_name t) enc) as [[|s1 [|s2 more]]|]; try (injection H as <-; exact Hplain).
        apply bind_ok in H as (ex' & Hex & H). injection H as <-.
        apply Forall_app. split; [|exact Hplain].
        apply mapM_ok in Hex. clear -Hex Ht0.
        induction Hex as [|sub e subs es He _ IHe]; constructor; [|assumption].
        destruct t as [|nm cs]; simpl in He; [discriminate|]. injection He as <-. simpl.
        apply Forall_app. split; apply Forall_filter; exact Ht0.
    Qed.

    Lemma set_data_term_refit tt s dt :
      good_term tt -> set_data_term n tt s = Ok dt ->
      set_data_term (seln n) (tterm_sel tt) s = Ok (dterm_sel dt).
    Proof.
      intros Hg H. destruct tt as [|name cs].
      - simpl in *. injection H as <-. unfold dterm_sel. cbn [dt_name dt_kind dt_comps dt_rows dt_labels map].
        rewrite sel_repeat. reflexivity.
      - unfold set_data_term in *. cbn [tterm_sel]. apply bind_ok in H as (ds & Hds & H).
        rewrite mapM_map. cbn [tcomp_sel tc_name].
        destruct (mapM_transport (fun c => set_data_comp c (spans_for s (tc_name c)) n)
                                 (fun c => set_data_comp (tcomp_sel c) (spans_for s (tc_name c)) (seln n))
                                 dcomp_sel (fun d => List.length (dc_rows d) = n) cs ds) as [Hm Hl];
          [|exact Hds|].
        { intros c d Hin Hc. simpl in Hg. rewrite Forall_forall in Hg. specialize (Hg c Hin). split.
          - apply set_data_comp_refit; assumption.
          - eapply set_data_comp_length; eauto. }
        rewrite Hm. cbn [bind].
        destruct ds as [|d0 [|d1 rest]]; [discriminate H| |].
        + injection H as <-. reflexivity.
        + apply bind_ok in H as (labs & Hlabs & H). destruct (existsb _ labs) eqn:Hnil; [discriminate|]. injection H as <-.
          cbn [map]. rewrite <- (map_cons dcomp_sel d0 (d1 :: rest)) at 1.
          change (dcomp_sel d0 :: dcomp_sel d1 :: map dcomp_sel rest) with (map dcomp_sel (d0 :: d1 :: rest)).
          rewrite mapM_map. cbn [dcomp_sel dc_labels]. rewrite Hlabs. cbn [bind]. rewrite Hnil.
          unfold dterm_sel. cbn [dt_name dt_kind dt_comps dt_rows dt_labels map dc_rows].
          f_equal. f_equal.
          pose proof (Forall_inv Hl) as L0. pose proof (Forall_inv_tail Hl) as Lr. cbv beta in L0.
          pose proof (Forall_inv Lr) as L1. pose proof (Forall_inv_tail Lr) as Lr'. cbv beta in L1.
          cbn [fold_left dcomp_sel dc_rows]. rewrite rows_kron_sel by congruence.
          destruct (fold_rows_kron_sel n no_bs (map dc_rows rest) (rows_kron (dc_rows d0) (dc_rows d1))) as [Hf _].
          { rewrite rows_kron_length. lia. }
          { apply Forall_map. exact Lr'. }
          rewrite <- Hf. rewrite !map_map. reflexivity.
    Qed.

    (** *** designs (common terms and response; no group-specific terms) *)

    Definition design_sel (ds : design) : design :=
      Design (seln n) (option_map dterm_sel (ds_response ds)) (map dterm_sel (ds_common ds))
             (ds_group ds).

    Definition on_snd {V W} (g : V -> W) (kv : string * V) : string * W := (fst kv, g (snd kv)).

    Lemma dict_set_map {V W} (g : V -> W) k v (d : list (string * V)) :
      dict_set k (g v) (map (on_snd g) d) = map (on_snd g) (dict_set k v d).
    Proof.
      induction d as [|[k' v'] d IH]; simpl; [reflexivity|].
      destruct (String.eqb k k'); simpl; [reflexivity|]. rewrite IH. reflexivity.
    Qed.

    Lemma fold_dict_set_map (g : dterm -> dterm) l :
      (forall t, dt_name (g t) = dt_name t) ->
      forall acc,
        fold_left (fun acc t => dict_set (dt_name t) t acc) (map g l) (map (on_snd g) acc)
        = map (on_snd g) (fold_left (fun acc t => dict_set (dt_name t) t acc) l acc).
    Proof.
      intros Hn. induction l as [|t l IH]; intros acc; simpl; [reflexivity|].
      rewrite Hn, dict_set_map. apply IH.
    Qed.

    Lemma type_common_refit c tt :
      (forall t, c = CT t -> Forall comp_safe t) ->
      type_common (DCtx ex sq) D c = Ok tt ->
      type_common (DCtx ex sq) (frame_sel D) c = Ok (tterm_sel tt) /\ good_term tt.
    Proof.
      intros Hs H. destruct c as [| |t]; simpl in *.
      - injection H as <-. split; [reflexivity|exact I].
      - discriminate H.
      - apply set_type_term_refit; [apply Hs; reflexivity|exact H].
    Qed.

    Lemma common_spans_sel enc tt : common_spans enc (tterm_sel tt) = common_spans enc tt.
    Proof. unfold common_spans. rewrite tterm_name_sel. reflexivity. Qed.

    (** Training the whole design again on the permuted frame gives the same design with the rows
        of every matrix permuted: same names, kinds, labels, levels, contrasts, recorded state. *)
    Theorem eval_model_refit m ds :
      frame_rows D = n -> groups m = [] ->
      (forall t, In (CT t) (commons m) -> Forall comp_safe t) ->
      (forall t, resp m = Some t -> Forall comp_safe t) ->
      eval_model (DCtx ex sq) D m = Ok ds ->
      eval_model (DCtx ex sq) (frame_sel D) m = Ok (design_sel ds).
    Proof.
      intros Hn Hgr Hcs Hrs H. unfold eval_model in *. rewrite frame_rows_sel, Hn in *.
      rewrite Hgr in *. cbn [mapM combine bind] in *.
      apply bind_ok in H as (tcs & Htcs & H). apply bind_ok in H as (enc1 & Henc1 & H).
      apply bind_ok in H as (tcs2 & Htcs2 & H). apply bind_ok in H as (enc2 & Henc2 & H).
      apply bind_ok in H as (dcs & Hdcs & H). apply bind_ok in H as (r & Hr & H). injection H as <-.
      (* typing *)
      destruct (mapM_transport (type_common (DCtx ex sq) D) (type_common (DCtx ex sq) (frame_sel D))
                               tterm_sel good_term (commons m) tcs) as [Htcs' Gtcs]; [|exact Htcs|].
      { intros c tt Hin Hc. apply type_common_refit; [|exact Hc]. intros t ->. apply Hcs. exact Hin. }
      rewrite Htcs'. cbn [bind].
      rewrite map_map. rewrite (map_ext _ term_kind_info term_kind_info_sel). rewrite Henc1. cbn [bind].
      rewrite (add_extra_terms_sel (DCtx ex sq) (DCtx ex sq) D (frame_sel D)), Htcs2. cbn [bind].
      rewrite map_map. rewrite (map_ext _ term_kind_info term_kind_info_sel). rewrite Henc2. cbn [bind].
      pose proof (add_extra_terms_good _ _ _ _ _ Gtcs Htcs2) as Gtcs2.
      (* coding *)
      rewrite mapM_map.
      destruct (mapM_transport (fun t => do s <- common_spans enc2 t; set_data_term n t s)
                               (fun t => do s <- common_spans enc2 (tterm_sel t); set_data_term (seln n) (tterm_sel t) s)
                               dterm_sel (fun _ => True) tcs2 dcs) as [Hdcs' _]; [|exact Hdcs|].
      { intros tt dt Hin Hd. split; [|exact I]. rewrite common_spans_sel.
        apply bind_ok in Hd as (s & Hs & Hd). rewrite Hs. cbn [bind].
        apply set_data_term_refit; [|exact Hd]. rewrite Forall_forall in Gtcs2. apply Gtcs2. exact Hin. }
      rewrite Hdcs'. cbn [bind].
      (* response *)
      assert (Hr' : match resp m with
                    | None => Ok None
                    | Some t => do ty <- set_type_term (DCtx ex sq) (frame_sel D) true t;
                                do d <- set_data_term (seln n) ty (SpBool true); Ok (Some d)
                    end = Ok (option_map dterm_sel r)).
      { destruct (resp m) as [t|] eqn:Er.
        - apply bind_ok in Hr as (ty & Hty & Hr). apply bind_ok in Hr as (d & Hd & Hr). injection Hr as <-.
          destruct (set_type_term_refit true t ty (Hrs t eq_refl) Hty) as [Hty' Gty].
          rewrite Hty'. cbn [bind]. rewrite (set_data_term_refit ty (SpBool true) d Gty Hd). reflexivity.
        - injection Hr as <-. reflexivity. }
      rewrite Hr'. cbn [bind]. unfold design_sel. cbn [ds_nrows ds_response ds_common ds_group fold_left map].
      f_equal. f_equal.
      pose proof (fold_dict_set_map dterm_sel dcs (fun t => eq_refl) []) as F. cbn [map] in F.
      rewrite F, !map_map. reflexivity.
    Qed.

  End Refit.

End Sel.

(* ------------------------------------------------------------------------------------------ *)
(** * Instances of the row operation *)

(* the training common-effects matrix: the blocks of the terms side by side *)
Definition common_matrix (ds : design) : list (list cell) :=
  hstack (map dt_rows (ds_common ds)) (ds_nrows ds).

Definition scalar_extras (cx : dctx) : Prop :=
  forall k v, assoc k (d_extra cx) = Some v -> is_scalar v = true.

(* the allowed sets of additional callees *)
Definition extra_allowed (extra : list string) : Prop := forall c, In c extra -> In c spline_callees.

Lemma extra_nil_allowed : extra_allowed [].
Proof. intros c []. Qed.
Lemma extra_poly_allowed : extra_allowed ["poly"].
Proof. intros c [<-|[]]. right; left; reflexivity. Qed.
Lemma extra_poly_bs_allowed : extra_allowed ["poly"; "bs"].
Proof. intros c [<-|[<-|[]]]; [right; left; reflexivity|left; reflexivity]. Qed.

Lemma extra_refit_nil sel n : extra_refit_ok sel n [].
Proof. intros c []. Qed.

Lemma no_bs_nil (P : Prop) : In "bs" [] -> P.
Proof. intros []. Qed.
Lemma no_bs_poly (P : Prop) : In "bs" ["poly"] -> P.
Proof. intros [E|[]]. discriminate E. Qed.

(* convenience: a plain variable is never a CategoricalBox *)
Lemma box_complete_var cx D r nm lvl t : set_type_comp cx D r (CVar nm lvl) = Ok t -> box_complete t.
Proof.
  destruct nm as [name|lit]; simpl; [|discriminate].
  destruct (assoc name D) as [col|]; [|discriminate]. intros H. injection H as <-.
  unfold box_complete. destruct col; exact I.
Qed.

(** ** a boolean keep-mask *)

Lemma select_combine {S T} keep : forall (a : list S) (b : list T),
  combine (select keep a) (select keep b) = select keep (combine a b).
Proof.
  induction keep as [|k keep IH]; intros a b; [reflexivity|].
  destruct a as [|x a]; [reflexivity|]. destruct b as [|y b].
  - destruct k; simpl; auto using combine_nil.
  - simpl. destruct k; simpl; rewrite IH; reflexivity.
Qed.

Lemma select_In {T} keep : forall (x : T) l, In x (select keep l) -> In x l.
Proof.
  induction keep as [|k keep IH]; intros x [|y l] H; simpl in H; try contradiction.
  destruct k; [destruct H as [->|H]; [left; reflexivity|]|]; right; apply IH; assumption.
Qed.

Definition sel_mask (keep : list bool) : forall T : Type, list T -> list T := fun T => @select T keep.

Lemma frame_sel_mask keep D : frame_sel (sel_mask keep) D = frame_select keep D.
Proof. reflexivity. Qed.

(* the number of rows a mask keeps out of n = |mask| *)
Lemma seln_mask keep : seln (sel_mask keep) (List.length keep) = count_true keep.
Proof. unfold seln, sel_mask. rewrite select_repeat. apply repeat_length. Qed.

(** P1, boolean mask, call trees: the prediction pass with the recorded state on the kept rows. *)
Theorem eval_lazy_select_gen extra keep D ex sq l v st1 rec :
  extra_allowed extra -> (In "bs" extra -> seln (sel_mask keep) (frame_rows D) <> 0) ->
  frame_wf D -> frame_unordered D ->
  (forall k w, assoc k ex = Some w -> is_scalar w = true) ->
  safe_gen extra l = true ->
  eval_lazy (ECtx D ex sq true) [] l = Ok (v, st1, rec) ->
  st1 = [] /\
  eval_lazy (ECtx (frame_select keep D) ex sq false) rec l = Ok (val_sel (sel_mask keep) v, [], []).
Proof.
  intros Hext Hbs Hwf Hun Hex Hs H.
  destruct (eval_lazy_frozen (sel_mask keep) (fun S T f l => select_map f keep l)
                             (fun S T a b _ => select_combine keep a b) (fun T x l => select_In keep x l)
                             extra Hext D (frame_rows D) Hwf Hun ex Hex sq Hbs l v st1 rec Hs H) as (E & _ & P).
  split; [exact E|exact P].
Qed.

Theorem eval_lazy_select keep D ex sq l v st1 rec :
  frame_wf D -> frame_unordered D ->
  (forall k w, assoc k ex = Some w -> is_scalar w = true) ->
  rowwise_safe l = true ->
  eval_lazy (ECtx D ex sq true) [] l = Ok (v, st1, rec) ->
  st1 = [] /\
  eval_lazy (ECtx (frame_select keep D) ex sq false) rec l = Ok (val_sel (sel_mask keep) v, [], []).
Proof. apply (eval_lazy_select_gen [] keep D ex sq l v st1 rec extra_nil_allowed (no_bs_nil _)). Qed.

(** P1, boolean mask, components. *)
Theorem new_comp_select_gen extra cx keep D mode c spans t d :
  extra_allowed extra -> (In "bs" extra -> seln (sel_mask keep) (frame_rows D) <> 0) ->
  frame_wf D -> scalar_extras cx -> comp_ok extra D c ->
  set_type_comp cx D false c = Ok t -> box_complete t ->
  set_data_comp t spans (frame_rows D) = Ok d ->
  new_comp cx mode (frame_select keep D) d = Ok (select keep (dc_rows d), false).
Proof.
  intros Hext Hbs Hwf Hex Hok Ht Hb Hd.
  apply (new_comp_sel (sel_mask keep) (fun S T f l => select_map f keep l)
                      (fun S T a b _ => select_combine keep a b) (fun T x l => select_In keep x l)
                      extra Hext cx D (frame_rows D) eq_refl Hwf Hex Hbs mode c spans t d Hok Ht Hb Hd).
Qed.

Theorem new_comp_select cx keep D mode c spans t d :
  frame_wf D -> scalar_extras cx -> comp_ok [] D c ->
  set_type_comp cx D false c = Ok t -> box_complete t ->
  set_data_comp t spans (frame_rows D) = Ok d ->
  new_comp cx mode (frame_select keep D) d = Ok (select keep (dc_rows d), false).
Proof. apply (new_comp_select_gen [] cx keep D mode c spans t d extra_nil_allowed (no_bs_nil _)). Qed.

(** P1, boolean mask, the design: evaluating the design on the kept rows of its own training frame
    returns the kept rows of the training matrix, in every unseen-level mode, without warning. *)
Theorem new_common_select_gen extra cx keep D mode m ds :
  extra_allowed extra -> (In "bs" extra -> seln (sel_mask keep) (frame_rows D) <> 0) ->
  frame_wf D -> scalar_extras cx -> model_ok extra cx D m ->
  eval_model cx D m = Ok ds ->
  new_common cx mode ds (frame_select keep D) = Ok (NewRes (select keep (common_matrix ds)) false).
Proof.
  intros Hext Hbs Hwf Hex Hok H.
  apply (eval_model_new_common_sel (sel_mask keep) (fun S T f l => select_map f keep l)
           (fun S T a b _ => select_combine keep a b) (fun T x l => select_In keep x l)
           extra Hext cx D (frame_rows D) eq_refl Hwf Hex Hbs mode m ds Hok H).
Qed.

Theorem new_common_select cx keep D mode m ds :
  frame_wf D -> scalar_extras cx -> model_ok [] cx D m ->
  eval_model cx D m = Ok ds ->
  new_common cx mode ds (frame_select keep D) = Ok (NewRes (select keep (common_matrix ds)) false).
Proof. apply (new_common_select_gen [] cx keep D mode m ds extra_nil_allowed (no_bs_nil _)). Qed.

(** ** an arbitrary list of row numbers (any order, repetitions allowed) *)

Definition pick {T} (idx : list nat) (l : list T) : list T :=
  flat_map (fun i => match nth_error l i with Some x => [x] | None => [] end) idx.

Lemma pick_nth {T} idx (l : list T) d :
  Forall (fun i => i < List.length l) idx -> pick idx l = map (fun i => nth i l d) idx.
Proof.
  induction 1 as [|i idx Hi _ IH]; [reflexivity|]. unfold pick in *. cbn [flat_map map]. rewrite IH.
  rewrite (nth_error_nth' l d Hi). reflexivity.
Qed.

Lemma pick_map {S T} (f : S -> T) idx l : pick idx (map f l) = map f (pick idx l).
Proof.
  unfold pick. induction idx as [|i idx IH]; simpl; [reflexivity|].
  rewrite map_app, IH, nth_error_map. destruct (nth_error l i); reflexivity.
Qed.

Lemma nth_error_combine {S T} : forall (a : list S) (b : list T) i,
  nth_error (combine a b) i =
  match nth_error a i, nth_error b i with Some x, Some y => Some (x, y) | _, _ => None end.
Proof.
  induction a as [|x a IH]; intros [|y b] [|i]; simpl; try reflexivity.
  - destruct (nth_error a i); reflexivity.
  - apply IH.
Qed.

Lemma pick_combine {S T} idx (a : list S) (b : list T) :
  List.length a = List.length b -> combine (pick idx a) (pick idx b) = pick idx (combine a b).
Proof.
  intros L. unfold pick. induction idx as [|i idx IH]; simpl; [reflexivity|].
  rewrite nth_error_combine.
  destruct (nth_error a i) as [x|] eqn:Ea; destruct (nth_error b i) as [y|] eqn:Eb; simpl.
  - f_equal. exact IH.
  - exfalso. apply nth_error_None in Eb. assert (nth_error a i <> None) by congruence.
    apply nth_error_Some in H. lia.
  - exfalso. apply nth_error_None in Ea. assert (nth_error b i <> None) by congruence.
    apply nth_error_Some in H. lia.
  - exact IH.
Qed.

Lemma pick_In {T} idx (x : T) l : In x (pick idx l) -> In x l.
Proof.
  unfold pick. intros H. apply in_flat_map in H as (i & _ & H).
  destruct (nth_error l i) as [y|] eqn:E; [|contradiction].
  destruct H as [<-|[]]. eapply nth_error_In; eassumption.
Qed.

Definition sel_pick (idx : list nat) : forall T : Type, list T -> list T := fun T => @pick T idx.

Definition col_pick (idx : list nat) (c : column) : column :=
  match c with ColNum i v => ColNum i (pick idx v) | ColStr o v => ColStr o (pick idx v) end.
Definition frame_pick (idx : list nat) (f : frame) : frame :=
  map (fun kv => (fst kv, col_pick idx (snd kv))) f.

Lemma frame_sel_pick idx D : frame_sel (sel_pick idx) D = frame_pick idx D.
Proof. reflexivity. Qed.

(* with row numbers in range, as many rows as row numbers *)
Lemma seln_pick idx n : Forall (fun i => i < n) idx -> seln (sel_pick idx) n = List.length idx.
Proof.
  intros H. unfold seln, sel_pick. rewrite (pick_nth idx _ tt); [apply map_length|].
  rewrite repeat_length. exact H.
Qed.

(** P1, arbitrary rows, call trees. *)
Theorem eval_lazy_pick_gen extra idx D ex sq l v st1 rec :
  extra_allowed extra -> (In "bs" extra -> seln (sel_pick idx) (frame_rows D) <> 0) ->
  frame_wf D -> frame_unordered D ->
  (forall k w, assoc k ex = Some w -> is_scalar w = true) ->
  safe_gen extra l = true ->
  eval_lazy (ECtx D ex sq true) [] l = Ok (v, st1, rec) ->
  st1 = [] /\
  eval_lazy (ECtx (frame_pick idx D) ex sq false) rec l = Ok (val_sel (sel_pick idx) v, [], []).
Proof.
  intros Hext Hbs Hwf Hun Hex Hs H.
  destruct (eval_lazy_frozen (sel_pick idx) (fun S T f l => pick_map f idx l)
                             (fun S T a b L => pick_combine idx a b L) (fun T x l => pick_In idx x l)
                             extra Hext D (frame_rows D) Hwf Hun ex Hex sq Hbs l v st1 rec Hs H) as (E & _ & P).
  split; [exact E|exact P].
Qed.

Theorem eval_lazy_pick idx D ex sq l v st1 rec :
  frame_wf D -> frame_unordered D ->
  (forall k w, assoc k ex = Some w -> is_scalar w = true) ->
  rowwise_safe l = true ->
  eval_lazy (ECtx D ex sq true) [] l = Ok (v, st1, rec) ->
  st1 = [] /\
  eval_lazy (ECtx (frame_pick idx D) ex sq false) rec l = Ok (val_sel (sel_pick idx) v, [], []).
Proof. apply (eval_lazy_pick_gen [] idx D ex sq l v st1 rec extra_nil_allowed (no_bs_nil _)). Qed.

(** P1, arbitrary rows, components. *)
Theorem new_comp_pick_gen extra cx idx D mode c spans t d :
  extra_allowed extra -> (In "bs" extra -> seln (sel_pick idx) (frame_rows D) <> 0) ->
  frame_wf D -> scalar_extras cx -> comp_ok extra D c ->
  set_type_comp cx D false c = Ok t -> box_complete t ->
  set_data_comp t spans (frame_rows D) = Ok d ->
  new_comp cx mode (frame_pick idx D) d = Ok (pick idx (dc_rows d), false).
Proof.
  intros Hext Hbs Hwf Hex Hok Ht Hb Hd.
  apply (new_comp_sel (sel_pick idx) (fun S T f l => pick_map f idx l)
                      (fun S T a b L => pick_combine idx a b L) (fun T x l => pick_In idx x l)
                      extra Hext cx D (frame_rows D) eq_refl Hwf Hex Hbs mode c spans t d Hok Ht Hb Hd).
Qed.

Theorem new_comp_pick cx idx D mode c spans t d :
  frame_wf D -> scalar_extras cx -> comp_ok [] D c ->
  set_type_comp cx D false c = Ok t -> box_complete t ->
  set_data_comp t spans (frame_rows D) = Ok d ->
  new_comp cx mode (frame_pick idx D) d = Ok (pick idx (dc_rows d), false).
Proof. apply (new_comp_pick_gen [] cx idx D mode c spans t d extra_nil_allowed (no_bs_nil _)). Qed.

(** P1, arbitrary rows, the design: new data made of rows idx of the training frame (any order,
    repetitions) gives rows idx of the training matrix. *)
Theorem new_common_pick_gen extra cx idx D mode m ds :
  extra_allowed extra -> (In "bs" extra -> seln (sel_pick idx) (frame_rows D) <> 0) ->
  frame_wf D -> scalar_extras cx -> model_ok extra cx D m ->
  eval_model cx D m = Ok ds ->
  new_common cx mode ds (frame_pick idx D) = Ok (NewRes (pick idx (common_matrix ds)) false).
Proof.
  intros Hext Hbs Hwf Hex Hok H.
  apply (eval_model_new_common_sel (sel_pick idx) (fun S T f l => pick_map f idx l)
           (fun S T a b L => pick_combine idx a b L) (fun T x l => pick_In idx x l)
           extra Hext cx D (frame_rows D) eq_refl Hwf Hex Hbs mode m ds Hok H).
Qed.

Theorem new_common_pick cx idx D mode m ds :
  frame_wf D -> scalar_extras cx -> model_ok [] cx D m ->
  eval_model cx D m = Ok ds ->
  new_common cx mode ds (frame_pick idx D) = Ok (NewRes (pick idx (common_matrix ds)) false).
Proof. apply (new_common_pick_gen [] cx idx D mode m ds extra_nil_allowed (no_bs_nil _)). Qed.

Corollary new_common_pick_nth cx idx D mode m ds :
  frame_wf D -> scalar_extras cx -> model_ok [] cx D m ->
  eval_model cx D m = Ok ds ->
  Forall (fun i => i < ds_nrows ds) idx ->
  List.length (common_matrix ds) = ds_nrows ds ->
  new_common cx mode ds (frame_pick idx D)
  = Ok (NewRes (map (fun i => nth i (common_matrix ds) []) idx) false).
Proof.
  intros Hwf Hex Hok H Hi Hl. rewrite (new_common_pick cx idx D mode m ds Hwf Hex Hok H).
  rewrite (pick_nth idx _ []); [reflexivity|]. rewrite Hl. exact Hi.
Qed.

(* ------------------------------------------------------------------------------------------ *)
(** * The design is a value: evaluation does not change it, prediction records nothing *)

(** In the model of histories (Model/History.v) the evaluation operations leave the state -- the
    stored designs and the configuration -- exactly as it was. *)
Theorem eval_new_state_unchanged p s i fr :
  fst (History.step p s (History.OEvalCommon i fr)) = s /\
  fst (History.step p s (History.OEvalGroup i fr)) = s.
Proof. simpl. destruct (nth_error (History.h_designs s) i); split; reflexivity. Qed.

(* [new_common] and [new_group] are functions of the design value: their results carry no design *)
Theorem eval_new_is_function cx mode ds data :
  (forall r1 r2, new_common cx mode ds data = r1 -> new_common cx mode ds data = r2 -> r1 = r2) /\
  (forall r1 r2, new_group cx mode ds data = r1 -> new_group cx mode ds data = r2 -> r1 = r2).
Proof. split; intros; congruence. Qed.


(** The prediction pass of lazy evaluation ([e_fit = false]) records no parameter at all and only
    consumes a prefix of the state it is given -- for every call tree, covered or not. *)
Definition predict_pure (ev : list tparam -> lazy -> evres) (a : lazy) : Prop :=
  forall st v st1 rec, ev st a = Ok (v, st1, rec) -> rec = [] /\ exists used, st = used ++ st1.

Lemma eval_args_pure ev args :
  Forall (predict_pure ev) args ->
  forall st vals rec0 vals' st1 rec',
    eval_args ev args st vals rec0 = Ok (vals', st1, rec') ->
    rec' = rec0 /\ exists used, st = used ++ st1.
Proof.
  induction 1 as [|a args Ha _ IH]; intros st vals rec0 vals' st1 rec' H; simpl in H.
  - injection H as <- <- <-. split; [reflexivity|]. exists []. reflexivity.
  - apply bind_ok in H as ([[va sta] reca] & Hx & H). cbn [fst snd] in H.
    destruct (Ha _ _ _ _ Hx) as [-> (u1 & ->)]. destruct (IH _ _ _ _ _ _ H) as [-> (u2 & ->)].
    rewrite app_nil_r. split; [reflexivity|]. exists (u1 ++ u2). rewrite app_assoc. reflexivity.
Qed.

Lemma eval_kwargs_pure ev (kws : list (string * lazy)) :
  Forall (fun kv => predict_pure ev (snd kv)) kws ->
  forall st vals rec0 vals' st1 rec',
    eval_kwargs ev kws st vals rec0 = Ok (vals', st1, rec') ->
    rec' = rec0 /\ exists used, st = used ++ st1.
Proof.
  induction 1 as [|[k a] kws Ha _ IH]; intros st vals rec0 vals' st1 rec' H; simpl in H.
  - injection H as <- <- <-. split; [reflexivity|]. exists []. reflexivity.
  - apply bind_ok in H as ([[va sta] reca] & Hx & H). cbn [fst snd] in H.
    destruct (Ha _ _ _ _ Hx) as [-> (u1 & ->)]. destruct (IH _ _ _ _ _ _ H) as [-> (u2 & ->)].
    rewrite app_nil_r. split; [reflexivity|]. exists (u1 ++ u2). rewrite app_assoc. reflexivity.
Qed.

Lemma call_stateful_predict_pure d ex sq name st pos kw v st1 rec :
  call_stateful (ECtx d ex sq false) name st pos kw = Ok (v, st1, rec) ->
  rec = [] /\ exists used, st = used ++ st1.
Proof.
  unfold call_stateful, call_spline. cbn [e_fit e_sqrt]. intros H.
  repeat match type of H with
         | (if ?c then _ else _) = _ => destruct c
         | match ?x with _ => _ end = _ => destruct x
         | bind ?r _ = _ => let a := fresh "a" in destruct r as [a|]; cbn [bind] in H
         | Err _ = Ok _ => discriminate H
         end;
    injection H as <- <- <-; (split; [reflexivity|]); eexists [_]; reflexivity.
Qed.

Theorem eval_lazy_predict_pure d ex sq l : predict_pure (eval_lazy (ECtx d ex sq false)) l.
Proof.
  induction l as [sym args IH|name|lit lx|c args kw IHa IHk] using lazy_ind'; intros st v st1 rec H.
  - destruct args as [|a [|b [|c r]]]; try discriminate H.
    + inversion IH as [|? ? Ha _]; subst. cbn [eval_lazy] in H.
      apply bind_ok in H as ([[va sta] reca] & Hx & H). apply bind_ok in H as (w & _ & H).
      cbn [fst snd] in H. injection H as <- <- <-. exact (Ha _ _ _ _ Hx).
    + inversion IH as [|? ? Ha IH']; subst. inversion IH' as [|? ? Hb _]; subst. cbn [eval_lazy] in H.
      apply bind_ok in H as ([[va sta] reca] & Hx & H). apply bind_ok in H as ([[vb stb] recb] & Hy & H).
      apply bind_ok in H as (w & _ & H). cbn [fst snd] in *. injection H as <- <- <-.
      destruct (Ha _ _ _ _ Hx) as [-> (u1 & ->)]. destruct (Hb _ _ _ _ Hy) as [-> (u2 & ->)].
      split; [reflexivity|]. exists (u1 ++ u2). rewrite app_assoc. reflexivity.
  - cbn [eval_lazy] in H. apply bind_ok in H as (w & _ & H). injection H as <- <- <-.
    split; [reflexivity|]. exists []. reflexivity.
  - cbn [eval_lazy] in H. injection H as <- <- <-. split; [reflexivity|]. exists []. reflexivity.
  - rewrite eval_lazy_call in H. destruct (negb (known_callee c)).
    + destruct (assoc c _); discriminate H.
    + apply bind_ok in H as ([[pos sta] reca] & Hra & H).
      apply bind_ok in H as ([[kws stk] reck] & Hrk & H). cbn [fst snd] in H, Hrk.
      destruct (eval_args_pure _ _ IHa _ _ _ _ _ _ Hra) as [-> (u1 & ->)].
      destruct (eval_kwargs_pure _ _ IHk _ _ _ _ _ _ Hrk) as [-> (u2 & ->)].
      destruct (existsb (String.eqb c) stateful_names).
      * apply bind_ok in H as ([[w stw] recw] & Hw & H). cbn [fst snd] in H. injection H as <- <- <-.
        destruct (call_stateful_predict_pure _ _ _ _ _ _ _ _ _ _ Hw) as [-> (u3 & ->)].
        split; [reflexivity|]. exists (u1 ++ u2 ++ u3). rewrite !app_assoc. reflexivity.
      * apply bind_ok in H as (w & _ & H). injection H as <- <- <-.
        split; [reflexivity|]. exists (u1 ++ u2). rewrite app_assoc. reflexivity.
Qed.

(* ------------------------------------------------------------------------------------------ *)
(** * P1 on [design_matrices] *)

(** A design built by [design_matrices] from the frame D (nothing to drop, or policy "pass"),
    evaluated on rows of D itself -- all the columns of D, used or not -- returns those rows of
    the training matrix. *)
Theorem design_new_common_select_gen extra cx e D na m ds keep mode :
  extra_allowed extra -> (In "bs" extra -> seln (sel_mask keep) (frame_rows D) <> 0) ->
  describe e = Ok m -> frame_wf D -> frame_rows D <> 0 -> used_cols D m <> [] ->
  na = NaPass \/ existsb (fun b : bool => b) (incomplete_mask D m) = false ->
  scalar_extras cx -> model_ok extra cx D m ->
  design_matrices cx e D na = Ok ds ->
  new_common cx mode ds (frame_select keep D) = Ok (NewRes (select keep (common_matrix ds)) false).
Proof.
  intros Hext Hbs Hd Hwf Hn Hu Hna Hex Hok H.
  destruct (design_matrices_eval_model cx e D m Hd Hwf Hn Hu) as [E _].
  rewrite (E na Hna) in H. apply (new_common_select_gen extra cx keep D mode m ds); assumption.
Qed.

Theorem design_new_common_select cx e D na m ds keep mode :
  describe e = Ok m -> frame_wf D -> frame_rows D <> 0 -> used_cols D m <> [] ->
  na = NaPass \/ existsb (fun b : bool => b) (incomplete_mask D m) = false ->
  scalar_extras cx -> model_ok [] cx D m ->
  design_matrices cx e D na = Ok ds ->
  new_common cx mode ds (frame_select keep D) = Ok (NewRes (select keep (common_matrix ds)) false).
Proof. apply (design_new_common_select_gen [] cx e D na m ds keep mode extra_nil_allowed (no_bs_nil _)). Qed.

Theorem design_new_common_pick_gen extra cx e D na m ds idx mode :
  extra_allowed extra -> (In "bs" extra -> seln (sel_pick idx) (frame_rows D) <> 0) ->
  describe e = Ok m -> frame_wf D -> frame_rows D <> 0 -> used_cols D m <> [] ->
  na = NaPass \/ existsb (fun b : bool => b) (incomplete_mask D m) = false ->
  scalar_extras cx -> model_ok extra cx D m ->
  design_matrices cx e D na = Ok ds ->
  new_common cx mode ds (frame_pick idx D) = Ok (NewRes (pick idx (common_matrix ds)) false).
Proof.
  intros Hext Hbs Hd Hwf Hn Hu Hna Hex Hok H.
  destruct (design_matrices_eval_model cx e D m Hd Hwf Hn Hu) as [E _].
  rewrite (E na Hna) in H. apply (new_common_pick_gen extra cx idx D mode m ds); assumption.
Qed.

Theorem design_new_common_pick cx e D na m ds idx mode :
  describe e = Ok m -> frame_wf D -> frame_rows D <> 0 -> used_cols D m <> [] ->
  na = NaPass \/ existsb (fun b : bool => b) (incomplete_mask D m) = false ->
  scalar_extras cx -> model_ok [] cx D m ->
  design_matrices cx e D na = Ok ds ->
  new_common cx mode ds (frame_pick idx D) = Ok (NewRes (pick idx (common_matrix ds)) false).
Proof. apply (design_new_common_pick_gen [] cx e D na m ds idx mode extra_nil_allowed (no_bs_nil _)). Qed.

(** Under "drop" with incomplete rows: the training matrix has the complete rows of D, and new
    data made of complete rows of D reproduce them. *)
Theorem design_drop_new_common_pick cx e D m ds idx mode :
  describe e = Ok m -> frame_wf D -> frame_rows D <> 0 -> used_cols D m <> [] ->
  count_true (complete_mask D m) <> 0 ->
  scalar_extras cx -> model_ok [] cx (frame_select (complete_mask D m) D) m ->
  design_matrices cx e D NaDrop = Ok ds ->
  new_common cx mode ds (frame_pick idx (frame_select (complete_mask D m) D))
  = Ok (NewRes (pick idx (common_matrix ds)) false).
Proof.
  intros Hd Hwf Hn Hu Hc Hex Hok H.
  destruct (design_matrices_eval_model cx e D m Hd Hwf Hn Hu) as [_ E].
  rewrite (E Hc) in H. apply (new_common_pick cx idx _ mode m ds); try assumption.
  apply frame_select_wf; [assumption|apply frame_rows_nonempty; assumption|].
  apply complete_mask_length. assumption.
Qed.

(* ------------------------------------------------------------------------------------------ *)
(** * Row order (C08): instances for a permutation of the row numbers *)

Lemma pick_shift {T} idx (x : T) l : pick (map S idx) (x :: l) = pick idx l.
Proof. unfold pick. induction idx as [|i idx IH]; simpl; [reflexivity|]. rewrite IH. reflexivity. Qed.

Lemma pick_seq {T} (l : list T) : pick (seq 0 (List.length l)) l = l.
Proof.
  induction l as [|x l IH]; [reflexivity|]. cbn [List.length seq]. rewrite <- seq_shift.
  change (pick (0 :: map S (seq 0 (List.length l))) (x :: l))
    with (x :: pick (map S (seq 0 (List.length l))) (x :: l)).
  rewrite pick_shift, IH. reflexivity.
Qed.

(** picking the rows in the order of a permutation of the row numbers permutes the rows *)
Lemma pick_perm {T} idx (l : list T) :
  Permutation idx (seq 0 (List.length l)) -> Permutation (pick idx l) l.
Proof.
  intros P. rewrite <- (pick_seq l) at 2. unfold pick. apply Permutation_flat_map. exact P.
Qed.

Lemma seln_pick_perm idx n : Permutation idx (seq 0 n) -> seln (sel_pick idx) n = n.
Proof.
  intros P. unfold seln, sel_pick.
  assert (L : List.length (repeat tt n) = n) by apply repeat_length.
  rewrite <- L in P. rewrite (Permutation_length (pick_perm idx _ P)). exact L.
Qed.

(** Training again on the frame with its rows permuted records the same parameters and computes
    the permuted values (call trees of the core fragment). *)
Theorem eval_lazy_perm idx D ex sq l v st1 rec :
  frame_wf D -> frame_unordered D ->
  (forall k w, assoc k ex = Some w -> is_scalar w = true) ->
  Permutation idx (seq 0 (frame_rows D)) ->
  rowwise_safe l = true ->
  eval_lazy (ECtx D ex sq true) [] l = Ok (v, st1, rec) ->
  eval_lazy (ECtx (frame_pick idx D) ex sq true) [] l = Ok (val_sel (sel_pick idx) v, [], rec).
Proof.
  intros Hwf Hun Hex P Hs H.
  apply (eval_lazy_refit (sel_pick idx) (fun S T f l => pick_map f idx l)
           (fun S T a b L => pick_combine idx a b L) (fun T x l => pick_In idx x l)
           [] extra_nil_allowed
           (frame_rows D) (fun T l L => pick_perm idx l (eq_ind_r (fun k => Permutation idx (seq 0 k)) P L))
           (extra_refit_nil _ _) (no_bs_nil _) D Hwf Hun ex Hex sq l Hs [] v st1 rec H []).
Qed.

(** Components: typed and coded on the permuted frame, a component has the same kind, levels,
    contrast matrix, labels and recorded state, and the permuted rows. *)
Theorem set_comp_perm idx D ex sq r c spans t d :
  frame_wf D -> frame_unordered D ->
  (forall k w, assoc k ex = Some w -> is_scalar w = true) ->
  Permutation idx (seq 0 (frame_rows D)) ->
  match c with CCall lz => rowwise_safe lz = true | _ => True end ->
  set_type_comp (DCtx ex sq) D r c = Ok t ->
  value_ok (frame_rows D) (tc_value t) ->
  set_data_comp t spans (frame_rows D) = Ok d ->
  set_type_comp (DCtx ex sq) (frame_pick idx D) r c = Ok (tcomp_sel (sel_pick idx) t) /\
  set_data_comp (tcomp_sel (sel_pick idx) t) spans (frame_rows (frame_pick idx D))
  = Ok (dcomp_sel (sel_pick idx) d) /\
  dc_levels (dcomp_sel (sel_pick idx) d) = dc_levels d /\
  dc_contrast (dcomp_sel (sel_pick idx) d) = dc_contrast d /\
  dc_labels (dcomp_sel (sel_pick idx) d) = dc_labels d /\
  dc_rows (dcomp_sel (sel_pick idx) d) = pick idx (dc_rows d) /\
  tc_state (dc_t (dcomp_sel (sel_pick idx) d)) = tc_state (dc_t d).
Proof.
  intros Hwf Hun Hex P Hc Ht Hv Hd.
  pose (HP := fun (T : Type) (l : list T) (L : List.length l = frame_rows D) =>
                pick_perm idx l (eq_ind_r (fun k => Permutation idx (seq 0 k)) P L)).
  split; [|split; [|repeat split]].
  - apply (set_type_comp_refit (sel_pick idx) (fun S T f l => pick_map f idx l)
             (fun S T a b L => pick_combine idx a b L) (fun T x l => pick_In idx x l)
             [] extra_nil_allowed
             (frame_rows D) HP (extra_refit_nil _ _) (no_bs_nil _) D Hwf Hun ex Hex sq r c t Hc Ht).
  - assert (E : frame_rows (frame_pick idx D) = seln (sel_pick idx) (frame_rows D)).
    { rewrite (seln_pick_perm idx _ P). destruct D as [|[k col] D']; [reflexivity|].
      simpl. destruct col; simpl;
        [rewrite (Permutation_length (HP _ vals eq_refl))|rewrite (Permutation_length (HP _ vals eq_refl))];
        reflexivity. }
    rewrite E.
    apply (set_data_comp_refit (sel_pick idx) (fun S T f l => pick_map f idx l)
             (fun T x l => pick_In idx x l) (frame_rows D) HP t spans d Hv Hd).
Qed.

(** Whole designs (common terms and response): training on the frame with its rows permuted gives
    the same design with the rows of every matrix permuted and nothing else changed. *)
Theorem perm_rows idx D ex sq m ds :
  frame_wf D -> frame_unordered D ->
  (forall k w, assoc k ex = Some w -> is_scalar w = true) ->
  Permutation idx (seq 0 (frame_rows D)) ->
  groups m = [] ->
  (forall t, In (CT t) (commons m) -> Forall (comp_safe []) t) ->
  (forall t, resp m = Some t -> Forall (comp_safe []) t) ->
  eval_model (DCtx ex sq) D m = Ok ds ->
  exists ds',
    eval_model (DCtx ex sq) (frame_pick idx D) m = Ok ds' /\
    ds_nrows ds' = frame_rows D /\
    map dt_name (ds_common ds') = map dt_name (ds_common ds) /\
    map dt_kind (ds_common ds') = map dt_kind (ds_common ds) /\
    map dt_labels (ds_common ds') = map dt_labels (ds_common ds) /\
    map dt_rows (ds_common ds') = map (pick idx) (map dt_rows (ds_common ds)) /\
    map (fun t => map dc_levels (dt_comps t)) (ds_common ds')
    = map (fun t => map dc_levels (dt_comps t)) (ds_common ds) /\
    map (fun t => map dc_contrast (dt_comps t)) (ds_common ds')
    = map (fun t => map dc_contrast (dt_comps t)) (ds_common ds) /\
    map (fun t => map (fun d => tc_state (dc_t d)) (dt_comps t)) (ds_common ds')
    = map (fun t => map (fun d => tc_state (dc_t d)) (dt_comps t)) (ds_common ds) /\
    option_map dt_rows (ds_response ds') = option_map (pick idx) (option_map dt_rows (ds_response ds)) /\
    option_map dt_labels (ds_response ds') = option_map dt_labels (ds_response ds).
Proof.
  intros Hwf Hun Hex P Hg Hcs Hrs H.
  pose (HP := fun (T : Type) (l : list T) (L : List.length l = frame_rows D) =>
                pick_perm idx l (eq_ind_r (fun k => Permutation idx (seq 0 k)) P L)).
  exists (design_sel (sel_pick idx) (frame_rows D) ds). split.
  - apply (eval_model_refit (sel_pick idx) (fun S T f l => pick_map f idx l)
             (fun S T a b L => pick_combine idx a b L) (fun T x l => pick_In idx x l)
             [] extra_nil_allowed (frame_rows D) HP (extra_refit_nil _ _) (no_bs_nil _) D Hwf Hun ex Hex sq m ds eq_refl Hg Hcs Hrs H).
  - unfold design_sel. cbn [ds_nrows ds_common ds_response].
    split; [apply (seln_pick_perm idx _ P)|].
    rewrite !map_map. repeat split; try reflexivity.
    + apply map_ext. intros t. cbn [dterm_sel dt_comps]. rewrite map_map. reflexivity.
    + apply map_ext. intros t. cbn [dterm_sel dt_comps]. rewrite map_map. reflexivity.
    + apply map_ext. intros t. cbn [dterm_sel dt_comps]. rewrite map_map. reflexivity.
    + destruct (ds_response ds); reflexivity.
    + destruct (ds_response ds); reflexivity.
Qed.

(** The same with group-specific terms: stated here, proved in PredictionGroups.v
    ([perm_rows_full_statement_proved], from [eval_model_refit_groups]); PermSpline.v extends it to
    the fragment with bs and poly ([perm_rows_groups_bs]). *)
Definition perm_rows_full_statement : Prop :=
  forall (idx : list nat) (D : frame) ex sq (m : model) (ds : design),
    frame_wf D -> frame_unordered D ->
    (forall k w, assoc k ex = Some w -> is_scalar w = true) ->
    Permutation idx (seq 0 (frame_rows D)) ->
    (forall t, In (CT t) (commons m) -> Forall (comp_safe []) t) ->
    (forall t, resp m = Some t -> Forall (comp_safe []) t) ->
    (forall g t, In g (groups m) -> gexpr g = CT t \/ gfactor g = CT t -> Forall (comp_safe []) t) ->
    eval_model (DCtx ex sq) D m = Ok ds ->
    exists ds',
      eval_model (DCtx ex sq) (frame_pick idx D) m = Ok ds' /\
      map dt_rows (ds_common ds') = map (pick idx) (map dt_rows (ds_common ds)) /\
      map dt_labels (ds_common ds') = map dt_labels (ds_common ds) /\
      map dg_rows (ds_group ds') = map (pick idx) (map dg_rows (ds_group ds)) /\
      map dg_labels (ds_group ds') = map dg_labels (ds_group ds) /\
      map dg_groups (ds_group ds') = map dg_groups (ds_group ds).
