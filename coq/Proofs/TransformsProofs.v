(* Contracts of Center and Scale (Model/Transforms.v). *)
From Coq Require Import List QArith Qcanon ZArith Lia Bool.
From Verif Require Import Transforms TransformsLemmas.
Import ListNotations.
Local Open Scope Qc_scope.

Lemma mean_map_affine (a b : Qc) xs :
  xs <> [] -> mean (map (fun x => a * x + b) xs) = a * mean xs + b.
Proof.
  intros Hne. unfold mean. rewrite qlen_map_id.
  rewrite (qsum_map_add (fun x => a * x) (fun _ => b)).
  rewrite (qsum_map_scale a (fun x => x)), qsum_id, qsum_map_const.
  fold (qlen xs). pose proof (qlen_nonzero xs Hne) as Hn. field. exact Hn.
Qed.

Lemma mean_map_scale {A} (c : Qc) (f : A -> Qc) l :
  mean (map (fun x => c * f x) l) = c * mean (map f l).
Proof.
  unfold mean. rewrite (qlen_map (fun x => c * f x) f), qsum_map_scale.
  unfold Qcdiv. ring.
Qed.

(* ---- 1. Center ---- *)
Theorem center_mean0 xs :
  xs <> [] -> mean (map (center_apply (center_fit xs)) xs) = 0.
Proof.
  intros Hne. unfold center_apply, center_fit.
  rewrite (map_ext _ (fun x => 1 * x + - mean xs)) by (intros; ring).
  rewrite mean_map_affine by exact Hne. ring.
Qed.

(* the stateful call transforms first and later data with the SAME fitted mean: the result
   on later data ys is x - mean(xs) pointwise, whatever ys is *)
Theorem center_affine xs ys :
  let '(mu, out_xs, out_ys) := center_call xs ys in
  mu = mean xs /\
  out_xs = map (fun x => x - mean xs) xs /\
  out_ys = map (fun y => y - mean xs) ys.
Proof. cbn. repeat split. Qed.

Corollary center_later_pointwise xs ys ys' n :
  nth n ys 0 = nth n ys' 0 -> (n < length ys)%nat -> (n < length ys')%nat ->
  nth n (snd (center_call xs ys)) 0 = nth n (snd (center_call xs ys')) 0.
Proof.
  intros H H1 H2. cbn [center_call snd].
  rewrite (nth_indep _ 0 (center_apply (center_fit xs) 0)) by (rewrite map_length; exact H1).
  rewrite (nth_indep (map _ ys') 0 (center_apply (center_fit xs) 0))
    by (rewrite map_length; exact H2).
  rewrite !map_nth, H. reflexivity.
Qed.

(* ---- 2. Scale ---- *)
Theorem scale_mean0_var1 (ksqrt : Qc -> Qc) xs :
  xs <> [] ->
  ksqrt (var xs) * ksqrt (var xs) = var xs ->
  var xs <> 0 ->
  let out := map (scale_apply (scale_fit ksqrt xs)) xs in
  mean out = 0 /\ var out = 1.
Proof.
  intros Hne Hs Hv. cbn zeta.
  assert (Hsd : ksqrt (var xs) <> 0).
  { intros H0. apply Hv. rewrite <- Hs, H0. ring. }
  assert (Hm : mean (map (scale_apply (scale_fit ksqrt xs)) xs) = 0).
  { unfold scale_apply, scale_fit; cbn [fst snd].
    rewrite (map_ext _ (fun x => / ksqrt (var xs) * x + - (mean xs / ksqrt (var xs))))
      by (intros; field; exact Hsd).
    rewrite mean_map_affine by exact Hne. field. exact Hsd. }
  split; [exact Hm|].
  unfold var at 1. rewrite Hm. rewrite map_map.
  unfold scale_apply, scale_fit; cbn [fst snd].
  rewrite (map_ext _ (fun x => / (ksqrt (var xs) * ksqrt (var xs)) *
                               ((x - mean xs) * (x - mean xs))))
    by (intros; field; exact Hsd).
  rewrite mean_map_scale. fold (var xs). rewrite Hs. field. exact Hv.
Qed.

Theorem scale_affine ksqrt xs ys :
  let '(p, out_xs, out_ys) := scale_call ksqrt xs ys in
  p = (mean xs, ksqrt (var xs)) /\
  out_xs = map (fun x => (x - mean xs) / ksqrt (var xs)) xs /\
  out_ys = map (fun y => (y - mean xs) / ksqrt (var xs)) ys.
Proof. cbn. repeat split. Qed.

(* ---- non-vacuity on concrete data ---- *)
Definition qq (n : Z) (d : positive) : Qc := Q2Qc (Qmake n d).

Example center_mean0_ex :
  let xs := [qq 1 1; qq 5 2; qq (-3) 4; qq 7 1] in
  xs <> [] /\ mean (map (center_apply (center_fit xs)) xs) = 0 /\
  map (center_apply (center_fit xs)) [qq 10 1] = [qq 121 16].
Proof. cbn zeta. split; [discriminate|]. split; qc_decide. Qed.

(* data with variance 4 so that an exact rational square root exists: ksqrt := fun _ => 2 *)
Example scale_mean0_var1_ex :
  let xs := [qq 1 1; qq 5 1; qq 1 1; qq 5 1] in
  let ksqrt := fun _ : Qc => qq 2 1 in
  xs <> [] /\ ksqrt (var xs) * ksqrt (var xs) = var xs /\ var xs <> 0 /\
  mean (map (scale_apply (scale_fit ksqrt xs)) xs) = 0 /\
  var (map (scale_apply (scale_fit ksqrt xs)) xs) = 1 /\
  map (scale_apply (scale_fit ksqrt xs)) [qq 4 1] = [qq 1 2].
Proof.
  cbn zeta. split; [discriminate|]. repeat split; qc_decide.
Qed.

Print Assumptions center_mean0.
Print Assumptions center_affine.
Print Assumptions scale_mean0_var1.
Print Assumptions scale_affine.
