(* C03: combinatorial correctness of the redundancy analysis (Model/Contrasts.v, a port of
   formulae/contrasts.py, itself patsy's redundancy.py).

   A subterm s = [(f1,b1); ...] denotes the INTERVAL
       I(s) = { S | red s <= S <= red s + ful s }
   of the subset lattice of factors (red = factors flagged false, ful = flagged true).
   Subsets S of factors are given as lists of factor names read as SETS (order and
   repetitions are irrelevant); [inI s S : bool] decides S in I(s).

   For a list of codings L, [cnt L S] is the number of members of L whose interval contains S.
   "The intervals of L are pairwise disjoint and their union is U" is stated as
       forall S, cnt L S = if (S in U) then 1 else 0.                                         *)
From Verif Require Import Base Contrasts.
From Coq Require Import Lia Permutation.
Local Open Scope string_scope.
Local Open Scope list_scope.

(* ------------------------------------------------------------------------------------ *)
(* Sets of factors as lists                                                               *)
(* ------------------------------------------------------------------------------------ *)

Definition fmem (f : factor) (S : list factor) : bool := existsb (String.eqb f) S.
Definition subsetb (A B : list factor) : bool := forallb (fun f => fmem f B) A.

(* S in I(s) *)
Definition inI (s : subterm) (S : list factor) : bool :=
  forallb (fun e : efactor => snd e || fmem (fst e) S) s && subsetb S (map fst s).

(* no factor occurs twice in a subterm *)
Definition wf (s : subterm) : Prop := NoDup (map fst s).

(* number of members of L whose interval contains S *)
Definition cnt (L : list subterm) (S : list factor) : nat :=
  List.length (filter (fun c => inI c S) L).

Lemma fmem_In f S : fmem f S = true <-> In f S.
Proof.
  unfold fmem. rewrite existsb_exists. split.
  - intros [x [Hx He]]. apply String.eqb_eq in He. now subst.
  - intros H. exists f. split; [assumption | apply String.eqb_refl].
Qed.

Lemma fmem_false f S : fmem f S = false <-> ~ In f S.
Proof.
  rewrite <- fmem_In. destruct (fmem f S); split; intros; congruence.
Qed.

Lemma subsetb_incl A B : subsetb A B = true <-> incl A B.
Proof.
  unfold subsetb. rewrite forallb_forall. unfold incl.
  split; intros H x Hx; apply fmem_In; auto.
Qed.

Lemma ef_eqb_eq a b : ef_eqb a b = true <-> a = b.
Proof.
  unfold ef_eqb. destruct a as [f b1], b as [g b2]. cbn [fst snd].
  rewrite andb_true_iff, String.eqb_eq, Bool.eqb_true_iff.
  split; [intros [-> ->]; reflexivity | intros H; inversion H; auto].
Qed.

Lemma ef_mem_In x s : ef_mem x s = true <-> In x s.
Proof.
  unfold ef_mem. rewrite existsb_exists. split.
  - intros [y [Hy He]]. apply ef_eqb_eq in He. now subst.
  - intros H. exists x. split; [assumption | now apply ef_eqb_eq].
Qed.

Lemma ef_mem_false x s : ef_mem x s = false <-> ~ In x s.
Proof.
  rewrite <- ef_mem_In. destruct (ef_mem x s); split; intros; congruence.
Qed.

Lemma st_subset_incl a b : st_subset a b = true <-> incl a b.
Proof.
  unfold st_subset. rewrite forallb_forall. unfold incl.
  split; intros H x Hx; apply ef_mem_In; auto.
Qed.

Lemma st_eqb_iff a b : st_eqb a b = true <-> (forall x, In x a <-> In x b).
Proof.
  unfold st_eqb. rewrite andb_true_iff, !st_subset_incl. unfold incl.
  split; [intros [H1 H2] x; split; auto | intros H; split; intros x; apply H].
Qed.

(* Prop reading of inI *)
Lemma inI_iff s S :
  inI s S = true <->
  (forall f b, In (f, b) s -> b = true \/ In f S) /\ (forall f, In f S -> exists b, In (f, b) s).
Proof.
  unfold inI. rewrite andb_true_iff, forallb_forall, subsetb_incl. split.
  - intros [H1 H2]. split.
    + intros f b Hin. specialize (H1 _ Hin). cbn [fst snd] in H1.
      apply orb_true_iff in H1. rewrite fmem_In in H1. exact H1.
    + intros f Hf. apply H2 in Hf. apply in_map_iff in Hf.
      destruct Hf as [[g b] [Hg Hin]]. cbn [fst] in Hg. subst g. now exists b.
  - intros [H1 H2]. split.
    + intros [f b] Hin. cbn [fst snd]. apply orb_true_iff. rewrite fmem_In. now apply H1.
    + intros f Hf. destruct (H2 _ Hf) as [b Hb]. apply in_map_iff. now exists (f, b).
Qed.

(* inI depends on the subterm and on S only as sets *)
Lemma inI_ext s1 s2 S1 S2 :
  (forall x, In x s1 <-> In x s2) -> (forall f, In f S1 <-> In f S2) -> inI s1 S1 = inI s2 S2.
Proof.
  intros Hs HS. apply eq_true_iff_eq. rewrite !inI_iff. split; intros [H1 H2]; split.
  - intros f b Hin. apply Hs in Hin. destruct (H1 _ _ Hin); [now left | right; now apply HS].
  - intros f Hf. apply HS in Hf. destruct (H2 _ Hf) as [b Hb]. exists b. now apply Hs.
  - intros f b Hin. apply Hs in Hin. destruct (H1 _ _ Hin); [now left | right; now apply HS].
  - intros f Hf. apply HS in Hf. destruct (H2 _ Hf) as [b Hb]. exists b. now apply Hs.
Qed.

Lemma inI_st_eqb s1 s2 S : st_eqb s1 s2 = true -> inI s1 S = inI s2 S.
Proof. intros H. apply inI_ext; [now apply st_eqb_iff | tauto]. Qed.

Lemma wf_fun s f b1 b2 : wf s -> In (f, b1) s -> In (f, b2) s -> b1 = b2.
Proof.
  unfold wf. induction s as [|[g c] s IH]; cbn [map fst In]; intros Hnd H1 H2; [easy|].
  inversion Hnd as [|? ? Hni Hnd']; subst.
  destruct H1 as [H1|H1], H2 as [H2|H2].
  - congruence.
  - inversion H1; subst. exfalso. apply Hni. apply in_map_iff. now exists (f, b2).
  - inversion H2; subst. exfalso. apply Hni. apply in_map_iff. now exists (f, b1).
  - auto.
Qed.

Lemma wf_NoDup s : wf s -> NoDup s.
Proof. unfold wf. apply NoDup_map_inv. Qed.

(* ------------------------------------------------------------------------------------ *)
(* 1. absorb                                                                              *)
(* ------------------------------------------------------------------------------------ *)

Lemma filter_singleton {T} (p : T -> bool) l x :
  filter p l = [x] -> In x l /\ p x = true /\ forall y, In y l -> p y = true -> y = x.
Proof.
  intros H.
  assert (Hx : In x (filter p l)) by (rewrite H; now left).
  apply filter_In in Hx. destruct Hx as [Hx Hp]. repeat split; auto.
  intros y Hy Hpy. assert (Hy' : In y (filter p l)) by (apply filter_In; auto).
  rewrite H in Hy'. destruct Hy' as [->|[]]. reflexivity.
Qed.

(* the set-level content of a successful absorb *)
Lemma absorb_Some long short m :
  wf long -> st_subset short long = true -> absorb long short = Some m ->
  exists f, m = short ++ [(f, true)] /\ In (f, false) long /\ ~ In f (map fst short) /\
            (forall x, In x long <-> In x short \/ x = (f, false)).
Proof.
  intros Hwl Hsub Habs. unfold absorb in Habs.
  destruct (filter _ long) as [|[f [|]] [|? ?]] eqn:Hfil; try discriminate.
  inversion Habs; subst m; clear Habs.
  apply filter_singleton in Hfil. destruct Hfil as [Hin [Hnot Huniq]].
  apply negb_true_iff, ef_mem_false in Hnot.
  apply st_subset_incl in Hsub.
  exists f. repeat split; auto.
  - intros Hf. apply in_map_iff in Hf. destruct Hf as [[g b] [Hg Hgin]]. cbn [fst] in Hg. subst g.
    assert (b = false) by (eapply wf_fun; [exact Hwl | apply Hsub; exact Hgin | exact Hin]).
    subst b. contradiction.
  - intros Hx. destruct (ef_mem x short) eqn:Hm.
    + left. now apply ef_mem_In.
    + right. apply Huniq; auto. now rewrite Hm.
  - intros [Hx | ->]; auto.
Qed.

Theorem absorb_interval long short m :
  wf long -> wf short -> can_absorb long short = true -> absorb long short = Some m ->
  wf m /\
  forall S, inI m S = (inI short S || inI long S) /\ inI short S && inI long S = false.
Proof.
  intros Hwl Hws Hcan Habs. unfold can_absorb in Hcan. apply andb_true_iff in Hcan.
  destruct Hcan as [_ Hsub].
  destruct (absorb_Some _ _ _ Hwl Hsub Habs) as [f [-> [Hfl [Hnf Hlong]]]].
  split.
  { unfold wf in *. rewrite map_app. cbn [map fst].
    apply Permutation_NoDup with (l := f :: map fst short).
    - apply Permutation_cons_append.
    - constructor; assumption. }
  intros S.
  assert (Hshort_f : forall b, ~ In (f, b) short).
  { intros b Hb. apply Hnf. apply in_map_iff. now exists (f, b). }
  destruct (fmem f S) eqn:HfS.
  - (* f in S: S is in I(long), not in I(short) *)
    apply fmem_In in HfS.
    assert (Hs : inI short S = false).
    { apply not_true_is_false. intros H. apply inI_iff in H. destruct H as [_ H2].
      destruct (H2 _ HfS) as [b Hb]. exact (Hshort_f _ Hb). }
    rewrite Hs. cbn [orb andb]. split; [|reflexivity].
    apply eq_true_iff_eq. rewrite !inI_iff. split; intros [H1 H2]; split.
    + intros g b Hin. apply Hlong in Hin. destruct Hin as [Hin | Heq].
      * apply H1. apply in_or_app. now left.
      * inversion Heq; subst. now right.
    + intros g Hg. destruct (H2 _ Hg) as [b Hb]. apply in_app_or in Hb.
      destruct Hb as [Hb | [Hb | []]].
      * exists b. apply Hlong. now left.
      * inversion Hb; subst. exists false. exact Hfl.
    + intros g b Hin. apply in_app_or in Hin. destruct Hin as [Hin | [Hin | []]].
      * apply H1. apply Hlong. now left.
      * inversion Hin; subst. now left.
    + intros g Hg. destruct (H2 _ Hg) as [b Hb]. apply Hlong in Hb. destruct Hb as [Hb | Heq].
      * exists b. apply in_or_app. now left.
      * inversion Heq; subst. exists true. apply in_or_app. right. now left.
  - (* f not in S: S is not in I(long) *)
    apply fmem_false in HfS.
    assert (Hl : inI long S = false).
    { apply not_true_is_false. intros H. apply inI_iff in H. destruct H as [H1 _].
      destruct (H1 _ _ Hfl) as [? | ?]; [discriminate | contradiction]. }
    rewrite Hl, orb_false_r, andb_false_r. split; [|reflexivity].
    apply eq_true_iff_eq. rewrite !inI_iff. split; intros [H1 H2]; split.
    + intros g b Hin. apply H1. apply in_or_app. now left.
    + intros g Hg. destruct (H2 _ Hg) as [b Hb]. apply in_app_or in Hb.
      destruct Hb as [Hb | [Hb | []]].
      * now exists b.
      * inversion Hb; subst. contradiction.
    + intros g b Hin. apply in_app_or in Hin. destruct Hin as [Hin | [Hin | []]].
      * now apply H1.
      * inversion Hin; subst. now left.
    + intros g Hg. destruct (H2 _ Hg) as [b Hb]. exists b. apply in_or_app. now left.
Qed.

(* the reduced set of a subterm always lies in its interval *)
Definition redset (s : subterm) : list factor := map fst (filter (fun e : efactor => negb (snd e)) s).

Lemma In_redset f s : In f (redset s) <-> In (f, false) s.
Proof.
  unfold redset. rewrite in_map_iff. split.
  - intros [[g b] [Hg Hin]]. apply filter_In in Hin. destruct Hin as [Hin Hb].
    cbn [fst snd] in *. subst g. destruct b; [discriminate | assumption].
  - intros H. exists (f, false). split; [reflexivity | apply filter_In; auto].
Qed.

Lemma filter_length_partition {T} (p : T -> bool) l :
  List.length (filter p l) + List.length (filter (fun x => negb (p x)) l) = List.length l.
Proof.
  induction l as [|x l IH]; [reflexivity|]. simpl. destruct (p x); simpl; lia.
Qed.

Theorem absorb_never_fails long short :
  wf long -> wf short -> can_absorb long short = true ->
  (forall S, inI short S && inI long S = false) ->
  absorb long short <> None.
Proof.
  intros Hwl Hws Hcan Hdisj. unfold can_absorb in Hcan. apply andb_true_iff in Hcan.
  destruct Hcan as [Hlen Hsub]. apply Nat.eqb_eq in Hlen.
  pose proof Hsub as Hincl. apply st_subset_incl in Hincl.
  (* exactly one element of long is not in short *)
  assert (Hcount : List.length (filter (fun x => negb (ef_mem x short)) long) = 1).
  { pose proof (filter_length_partition (fun x => ef_mem x short) long) as Hp.
    assert (Hk : List.length (filter (fun x => ef_mem x short) long) = List.length short).
    { apply Nat.le_antisymm.
      - apply NoDup_incl_length.
        + apply NoDup_filter. now apply wf_NoDup.
        + intros x Hx. apply filter_In in Hx. now apply ef_mem_In.
      - apply NoDup_incl_length.
        + now apply wf_NoDup.
        + intros x Hx. apply filter_In. split; [now apply Hincl | now apply ef_mem_In]. }
    lia. }
  unfold absorb.
  destruct (filter _ long) as [|[f b] [|? ?]] eqn:Hfil; cbn [List.length] in Hcount; try lia.
  destruct b; [|discriminate].
  exfalso.
  apply filter_singleton in Hfil. destruct Hfil as [Hin [Hnot Huniq]].
  apply negb_true_iff, ef_mem_false in Hnot.
  specialize (Hdisj (redset short)). apply andb_false_iff in Hdisj.
  assert (H1 : inI short (redset short) = true).
  { apply inI_iff. split.
    - intros g [|] Hg; [now left | right; now apply In_redset].
    - intros g Hg. exists false. now apply In_redset. }
  assert (H2 : inI long (redset short) = true).
  { apply inI_iff. split.
    - intros g [|] Hg; [now left | right]. apply In_redset.
      destruct (ef_mem (g, false) short) eqn:Hm; [now apply ef_mem_In|].
      assert (Heq : (g, false) = (f, true)) by (apply Huniq; [assumption | now rewrite Hm]).
      discriminate.
    - intros g Hg. exists false. apply Hincl. now apply In_redset. }
  destruct Hdisj; congruence.
Qed.

(* ------------------------------------------------------------------------------------ *)
(* 2. simplify_step / simplify                                                            *)
(* ------------------------------------------------------------------------------------ *)

Definition disjI (a b : subterm) : Prop := forall S, inI a S && inI b S = false.

Lemma cnt_nil S : cnt [] S = 0.
Proof. reflexivity. Qed.

Lemma cnt_cons c L S : cnt (c :: L) S = Nat.b2n (inI c S) + cnt L S.
Proof. unfold cnt. cbn [filter]. destruct (inI c S); reflexivity. Qed.

Lemma cnt_app L1 L2 S : cnt (L1 ++ L2) S = cnt L1 S + cnt L2 S.
Proof. unfold cnt. rewrite filter_app, app_length. reflexivity. Qed.

Lemma cnt_In c L S : In c L -> Nat.b2n (inI c S) <= cnt L S.
Proof.
  induction L as [|d L IH]; [easy|]. intros [-> | Hin]; rewrite cnt_cons.
  - lia.
  - specialize (IH Hin). lia.
Qed.

Lemma cnt_zero L S : (forall c, In c L -> inI c S = false) -> cnt L S = 0.
Proof.
  induction L as [|d L IH]; [reflexivity|]. intros H. rewrite cnt_cons, IH.
  - rewrite (H d); [reflexivity | now left].
  - intros c Hc. apply H. now right.
Qed.

(* "cnt <= 1 everywhere" is pairwise disjointness of the intervals *)
Lemma cnt_le1_pairwise L : (forall S, cnt L S <= 1) <-> ForallOrdPairs disjI L.
Proof.
  induction L as [|a L IH].
  - split; [constructor | intros _ S; rewrite cnt_nil; lia].
  - split.
    + intros H. constructor.
      * apply Forall_forall. intros b Hb S. specialize (H S). rewrite cnt_cons in H.
        pose proof (cnt_In b L S Hb) as Hle.
        destruct (inI a S), (inI b S); cbn [Nat.b2n andb] in *; try reflexivity. lia.
      * apply IH. intros S. specialize (H S). rewrite cnt_cons in H. lia.
    + intros H S. inversion H as [|? ? Hall Hrest]; subst. rewrite cnt_cons.
      destruct (inI a S) eqn:Ha; cbn [Nat.b2n].
      * rewrite cnt_zero; [lia|]. intros c Hc. rewrite Forall_forall in Hall.
        specialize (Hall c Hc S). rewrite Ha in Hall. exact Hall.
      * destruct IH as [_ IH2]. specialize (IH2 Hrest S). lia.
Qed.

Lemma find_long_spec short rest k0 k :
  find_long short rest k0 = Some k ->
  exists j, k = k0 + j /\ j < List.length rest /\ can_absorb (nth j rest []) short = true.
Proof.
  revert k0. induction rest as [|l r IH]; intros k0 H; cbn [find_long] in H; [discriminate|].
  destruct (can_absorb l short) eqn:Hc.
  - inversion H; subst. exists 0. cbn [nth List.length]. repeat split; [lia | lia | assumption].
  - apply IH in H. destruct H as [j [-> [Hj Hcan]]]. exists (S j). cbn [nth List.length].
    repeat split; [lia | lia | assumption].
Qed.

Lemma replace_nth_length {T} k (x : T) l : List.length (replace_nth k x l) = List.length l.
Proof.
  revert k. induction l as [|y l IH]; intros k; [destruct k; reflexivity|].
  destruct k; cbn [replace_nth List.length]; [reflexivity | now rewrite IH].
Qed.

Lemma replace_nth_Forall {T} (P : T -> Prop) k x l :
  Forall P l -> P x -> Forall P (replace_nth k x l).
Proof.
  revert k. induction l as [|y l IH]; intros k Hl Hx; [destruct k; constructor|].
  inversion Hl; subst. destruct k; cbn [replace_nth]; constructor; auto.
Qed.

Lemma replace_nth_cnt k m rest S :
  k < List.length rest ->
  cnt (replace_nth k m rest) S + Nat.b2n (inI (nth k rest []) S) = cnt rest S + Nat.b2n (inI m S).
Proof.
  revert k. induction rest as [|y l IH]; intros k Hk; cbn [List.length] in Hk; [lia|].
  destruct k; cbn [replace_nth nth]; rewrite !cnt_cons.
  - lia.
  - assert (Hk' : k < List.length l) by lia. specialize (IH k Hk'). lia.
Qed.

(* the shape of one successful step *)
Lemma simplify_step_shape before l r :
  simplify_step before l = Some r ->
  exists pre short rest k,
    before ++ l = (before ++ pre) ++ short :: rest /\
    k < List.length rest /\ can_absorb (nth k rest []) short = true /\
    r = match absorb (nth k rest []) short with
        | Some merged => Ok ((before ++ pre) ++ replace_nth k merged rest)
        | None => Err EAssert
        end.
Proof.
  revert before. induction l as [|short rest IH]; intros before H; cbn [simplify_step] in H;
    [discriminate|].
  destruct (find_long short rest 0) as [k|] eqn:Hfl.
  - apply find_long_spec in Hfl. destruct Hfl as [j [Hk [Hj Hcan]]]. cbn [Nat.add] in Hk. subst j.
    exists [], short, rest, k. rewrite app_nil_r. repeat split; auto.
    destruct (absorb (nth k rest []) short); now inversion H.
  - apply IH in H. destruct H as [pre [sh [rs [k [Heq [Hk [Hcan Hr]]]]]]].
    exists (short :: pre), sh, rs, k.
    replace (before ++ short :: pre) with ((before ++ [short]) ++ pre)
      by (rewrite <- app_assoc; reflexivity).
    repeat split; auto.
    rewrite <- Heq, <- app_assoc. reflexivity.
Qed.

Theorem simplify_step_preserves before l l' :
  simplify_step before l = Some (Ok l') ->
  Forall wf (before ++ l) ->
  Forall wf l' /\ S (List.length l') = List.length (before ++ l) /\
  forall S, cnt l' S = cnt (before ++ l) S.
Proof.
  intros Hstep Hwf. apply simplify_step_shape in Hstep.
  destruct Hstep as [pre [short [rest [k [Heq [Hk [Hcan Hr]]]]]]].
  rewrite Heq in *. clear Heq.
  apply Forall_app in Hwf. destruct Hwf as [Hwpre Hwf].
  inversion Hwf as [|? ? Hwshort Hwrest]; subst.
  assert (Hwlong : wf (nth k rest [])).
  { rewrite Forall_forall in Hwrest. apply Hwrest. now apply nth_In. }
  destruct (absorb (nth k rest []) short) as [m|] eqn:Habs; [|discriminate].
  inversion Hr; subst l'; clear Hr.
  destruct (absorb_interval _ _ _ Hwlong Hwshort Hcan Habs) as [Hwm HI].
  split; [|split].
  - apply Forall_app. split; [assumption|]. now apply replace_nth_Forall.
  - rewrite !app_length, replace_nth_length. cbn [List.length]. lia.
  - intros S. rewrite !cnt_app, cnt_cons.
    pose proof (replace_nth_cnt k m rest S Hk) as Hrep.
    destruct (HI S) as [Hm Hd]. rewrite Hm in Hrep.
    destruct (inI short S), (inI (nth k rest []) S); cbn [Nat.b2n orb andb] in *;
      try discriminate; lia.
Qed.

Theorem simplify_step_never_asserts before l k :
  Forall wf (before ++ l) -> (forall S, cnt (before ++ l) S <= 1) ->
  simplify_step before l <> Some (Err k).
Proof.
  intros Hwf Hdis Hstep. apply simplify_step_shape in Hstep.
  destruct Hstep as [pre [short [rest [j [Heq [Hj [Hcan Hr]]]]]]].
  rewrite Heq in *. clear Heq.
  apply Forall_app in Hwf. destruct Hwf as [Hwpre Hwf].
  inversion Hwf as [|? ? Hwshort Hwrest]; subst.
  assert (Hin : In (nth j rest []) rest) by now apply nth_In.
  assert (Hwlong : wf (nth j rest [])).
  { rewrite Forall_forall in Hwrest. now apply Hwrest. }
  destruct (absorb (nth j rest []) short) as [m|] eqn:Habs; [discriminate|].
  revert Habs. apply absorb_never_fails; auto.
  intros S. specialize (Hdis S). rewrite cnt_app, cnt_cons in Hdis.
  pose proof (cnt_In _ _ S Hin) as Hle.
  destruct (inI short S), (inI (nth j rest []) S); cbn [Nat.b2n andb] in *; try reflexivity. lia.
Qed.

(* simplify: what a successful run preserves *)
Theorem simplify_Ok fuel l l' :
  simplify fuel l = Ok l' -> Forall wf l ->
  Forall wf l' /\ (forall S, cnt l' S = cnt l S) /\ List.length l' <= List.length l /\
  simplify_step [] l' = None.
Proof.
  revert l. induction fuel as [|f IH]; intros l H Hwf; cbn [simplify] in H.
  - destruct (simplify_step [] l) as [[l1|k]|] eqn:Hs; try discriminate.
    inversion H; subst. repeat split; auto.
  - destruct (simplify_step [] l) as [[l1|k]|] eqn:Hs; try discriminate.
    + destruct (simplify_step_preserves _ _ _ Hs Hwf) as [Hw1 [Hlen Hc]]. cbn [app] in *.
      destruct (IH _ H Hw1) as [Hw' [Hc' [Hlen' Hfix]]].
      repeat split; auto.
      * intros S. rewrite Hc'. apply Hc.
      * lia.
    + inversion H; subst. repeat split; auto.
Qed.

Theorem simplify_never_asserts fuel l :
  Forall wf l -> (forall S, cnt l S <= 1) -> simplify fuel l <> Err EAssert.
Proof.
  revert l. induction fuel as [|f IH]; intros l Hwf Hdis; cbn [simplify].
  - destruct (simplify_step [] l) as [[l1|k]|] eqn:Hs; try discriminate.
    exfalso. revert Hs. now apply simplify_step_never_asserts.
  - destruct (simplify_step [] l) as [[l1|k]|] eqn:Hs; try discriminate.
    + destruct (simplify_step_preserves _ _ _ Hs Hwf) as [Hw1 [Hlen Hc]]. cbn [app] in *.
      apply IH; auto. intros S. rewrite Hc. apply Hdis.
    + exfalso. revert Hs. now apply simplify_step_never_asserts.
Qed.

(* every step shortens the list by one: length l - 1 units of fuel are enough *)
Theorem simplify_enough_fuel fuel l :
  Forall wf l -> List.length l <= S fuel -> simplify fuel l <> Err OutOfFuel.
Proof.
  revert l. induction fuel as [|f IH]; intros l Hwf Hlen; cbn [simplify].
  - destruct (simplify_step [] l) as [[l1|k]|] eqn:Hs; try discriminate.
    + exfalso. apply simplify_step_shape in Hs.
      destruct Hs as [pre [short [rest [j [Heq [Hj _]]]]]]. cbn [app] in Heq.
      rewrite Heq, app_length in Hlen. cbn [List.length] in Hlen. lia.
    + intros H. inversion H; subst. apply simplify_step_shape in Hs.
      destruct Hs as [pre [short [rest [j [Heq [Hj [_ Hr]]]]]]].
      destruct (absorb _ _); discriminate.
  - destruct (simplify_step [] l) as [[l1|k]|] eqn:Hs; try discriminate.
    + destruct (simplify_step_preserves _ _ _ Hs Hwf) as [Hw1 [Hlen1 _]]. cbn [app] in *.
      apply IH; auto. lia.
    + intros H. inversion H; subst. apply simplify_step_shape in Hs.
      destruct Hs as [pre [short [rest [j [Heq [Hj [_ Hr]]]]]]].
      destruct (absorb _ _); discriminate.
Qed.

Lemma simplify_err fuel l k : simplify fuel l = Err k -> k = OutOfFuel \/ k = EAssert.
Proof.
  revert l. induction fuel as [|f IH]; intros l H; cbn [simplify] in H.
  - destruct (simplify_step [] l) as [[l1|k']|] eqn:Hs; try discriminate.
    + inversion H. now left.
    + inversion H; subst. apply simplify_step_shape in Hs.
      destruct Hs as [pre [short [rest [j [Heq [Hj [_ Hr]]]]]]].
      destruct (absorb _ _); inversion Hr. now right.
  - destruct (simplify_step [] l) as [[l1|k']|] eqn:Hs; try discriminate.
    + eauto.
    + inversion H; subst. apply simplify_step_shape in Hs.
      destruct Hs as [pre [short [rest [j [Heq [Hj [_ Hr]]]]]]].
      destruct (absorb _ _); inversion Hr. now right.
Qed.

Theorem simplify_preserves fuel l :
  Forall wf l -> (forall S, cnt l S <= 1) -> List.length l <= S fuel ->
  exists l', simplify fuel l = Ok l' /\
             Forall wf l' /\ (forall S, cnt l' S = cnt l S) /\ simplify_step [] l' = None.
Proof.
  intros Hwf Hdis Hlen. destruct (simplify fuel l) as [l'|k] eqn:Hs.
  - exists l'. destruct (simplify_Ok _ _ _ Hs Hwf) as [H1 [H2 [_ H3]]]. auto.
  - exfalso. destruct (simplify_err _ _ _ Hs); subst.
    + revert Hs. now apply simplify_enough_fuel.
    + revert Hs. now apply simplify_never_asserts.
Qed.

Corollary simplify_length_fuel l : Forall wf l -> simplify (List.length l) l <> Err OutOfFuel.
Proof. intros Hwf. apply simplify_enough_fuel; [assumption | lia]. Qed.

(* the same facts in "pairwise disjoint / same union" form *)
Lemma existsb_inI_cnt L S : existsb (fun c => inI c S) L = negb (Nat.eqb (cnt L S) 0).
Proof.
  induction L as [|u L IH]; [reflexivity|].
  cbn [existsb]. rewrite cnt_cons, IH. destruct (inI u S); reflexivity.
Qed.

Corollary simplify_step_preserves_pairwise before l l' :
  simplify_step before l = Some (Ok l') ->
  Forall wf (before ++ l) -> ForallOrdPairs disjI (before ++ l) ->
  Forall wf l' /\ ForallOrdPairs disjI l' /\
  forall S, existsb (fun c => inI c S) l' = existsb (fun c => inI c S) (before ++ l).
Proof.
  intros Hs Hwf Hd. destruct (simplify_step_preserves _ _ _ Hs Hwf) as [Hw [_ Hc]].
  split; [assumption|]. split.
  - apply cnt_le1_pairwise. intros S. rewrite Hc. revert S. now apply cnt_le1_pairwise.
  - intros S. now rewrite !existsb_inI_cnt, Hc.
Qed.

Corollary simplify_preserves_pairwise l :
  Forall wf l -> ForallOrdPairs disjI l ->
  exists l', simplify (List.length l) l = Ok l' /\
             Forall wf l' /\ ForallOrdPairs disjI l' /\
             (forall S, existsb (fun c => inI c S) l' = existsb (fun c => inI c S) l) /\
             simplify_step [] l' = None.
Proof.
  intros Hwf Hd. pose proof (proj2 (cnt_le1_pairwise l) Hd) as Hd1. clear Hd. rename Hd1 into Hd.
  destruct (simplify_preserves (List.length l) l Hwf Hd) as [l' [Hs [Hw [Hc Hfix]]]]; [lia|].
  exists l'. repeat split; auto.
  - apply cnt_le1_pairwise. intros S. rewrite Hc. apply Hd.
  - intros S. now rewrite !existsb_inI_cnt, Hc.
Qed.

(* ------------------------------------------------------------------------------------ *)
(* sorted_subsets enumerates every sublist exactly once                                   *)
(* ------------------------------------------------------------------------------------ *)

Inductive sublist {T} : list T -> list T -> Prop :=
| sl_nil : sublist [] []
| sl_skip x s l : sublist s l -> sublist s (x :: l)
| sl_take x s l : sublist s l -> sublist (x :: s) (x :: l).

Lemma sublist_nil_l {T} (l : list T) : sublist [] l.
Proof. induction l; constructor; auto. Qed.

Lemma sublist_incl {T} (s l : list T) : sublist s l -> incl s l.
Proof.
  induction 1 as [|x s l _ IH|x s l _ IH]; intros y Hy.
  - destruct Hy.
  - right. auto.
  - destruct Hy as [->|Hy]; [now left | right; auto].
Qed.

Lemma sublist_length {T} (s l : list T) : sublist s l -> List.length s <= List.length l.
Proof. induction 1; cbn [List.length]; lia. Qed.

Lemma sublist_NoDup {T} (s l : list T) : sublist s l -> NoDup l -> NoDup s.
Proof.
  induction 1 as [|x s l Hs IH|x s l Hs IH]; intros Hnd; auto; inversion Hnd; subst; auto.
  constructor; auto. intros Hx. apply (sublist_incl _ _ Hs) in Hx. contradiction.
Qed.

(* sublists of a duplicate-free list are determined by their elements *)
Lemma sublist_ext {T} (s1 s2 l : list T) :
  NoDup l -> sublist s1 l -> sublist s2 l -> (forall x, In x s1 <-> In x s2) -> s1 = s2.
Proof.
  intros Hnd H1. revert s2. induction H1 as [|x s l Hs IH|x s l Hs IH]; intros s2 H2 Hext.
  - inversion H2. reflexivity.
  - inversion Hnd as [|? ? Hni Hnd']; subst.
    inversion H2 as [|? ? ? H2'|? s2' ? H2']; subst.
    + apply IH; auto.
    + exfalso. apply Hni. apply (sublist_incl _ _ Hs). apply Hext. now left.
  - inversion Hnd as [|? ? Hni Hnd']; subst.
    inversion H2 as [|? ? ? H2'|? s2' ? H2']; subst.
    + exfalso. apply Hni. apply (sublist_incl _ _ H2'). apply Hext. now left.
    + f_equal. apply IH; auto. intros y. split; intros Hy.
      * assert (Hy' : In y (x :: s2')) by (apply Hext; now right).
        destruct Hy' as [<-|Hy']; [|assumption].
        exfalso. apply Hni. now apply (sublist_incl _ _ Hs).
      * assert (Hy' : In y (x :: s)) by (apply Hext; now right).
        destruct Hy' as [<-|Hy']; [|assumption].
        exfalso. apply Hni. now apply (sublist_incl _ _ H2').
Qed.

Lemma combs_nil_r {T} (l : list T) : combs l 0 = [[]].
Proof. destruct l; reflexivity. Qed.

Lemma In_combs {T} (l : list T) k s : In s (combs l k) <-> sublist s l /\ List.length s = k.
Proof.
  revert k s. induction l as [|x r IH]; intros k s.
  - destruct k; cbn [combs In].
    + split.
      * intros [<-|[]]. split; [constructor | reflexivity].
      * intros [H _]. inversion H. now left.
    + split; [intros [] | intros [H Hl]; inversion H; subst; discriminate].
  - destruct k; cbn [combs].
    + cbn [In]. split.
      * intros [<-|[]]. split; [apply sublist_nil_l | reflexivity].
      * intros [_ Hl]. left. destruct s; [reflexivity | discriminate].
    + rewrite in_app_iff, in_map_iff. split.
      * intros [[s' [<- Hs']] | Hs].
        -- apply IH in Hs'. destruct Hs' as [Hsub Hlen]. split; [now constructor|].
           cbn [List.length]. now rewrite Hlen.
        -- apply IH in Hs. destruct Hs as [Hsub Hlen]. split; [now constructor | assumption].
      * intros [Hsub Hlen]. inversion Hsub as [|? ? ? Hsub'|? s' ? Hsub']; subst.
        -- right. apply IH. split; assumption.
        -- left. exists s'. split; [reflexivity|]. apply IH. split; [assumption|].
           cbn [List.length] in Hlen. lia.
Qed.

Lemma NoDup_map_cons {T} (x : T) (L : list (list T)) : NoDup L -> NoDup (map (cons x) L).
Proof.
  induction 1 as [|s L Hni Hnd IH]; cbn [map]; constructor; auto.
  intros Hin. apply in_map_iff in Hin. destruct Hin as [s' [Heq Hs']]. inversion Heq; subst.
  contradiction.
Qed.

Lemma NoDup_app_intro {T} (l1 l2 : list T) :
  NoDup l1 -> NoDup l2 -> (forall x, In x l1 -> In x l2 -> False) -> NoDup (l1 ++ l2).
Proof.
  induction 1 as [|x l1 Hni Hnd IH]; intros H2 Hdis; cbn [app]; [assumption|].
  constructor.
  - rewrite in_app_iff. intros [H|H]; [contradiction|]. apply (Hdis x); [now left | assumption].
  - apply IH; auto. intros y Hy1 Hy2. apply (Hdis y); [now right | assumption].
Qed.

Lemma NoDup_combs {T} (l : list T) k : NoDup l -> NoDup (combs l k).
Proof.
  intros Hnd. revert k. induction Hnd as [|x r Hni Hnd IH]; intros k.
  - destruct k; cbn [combs]; repeat constructor. intros [].
  - destruct k; cbn [combs]; [repeat constructor; intros []|].
    apply NoDup_app_intro.
    + apply NoDup_map_cons, IH.
    + apply IH.
    + intros s H1 H2. apply in_map_iff in H1. destruct H1 as [s' [<- _]].
      apply In_combs in H2. destruct H2 as [Hsub _]. apply Hni.
      apply (sublist_incl _ _ Hsub). now left.
Qed.

Lemma NoDup_flat_map {A B} (f : A -> list B) (ks : list A) :
  NoDup ks -> (forall k, In k ks -> NoDup (f k)) ->
  (forall k1 k2 x, In k1 ks -> In k2 ks -> In x (f k1) -> In x (f k2) -> k1 = k2) ->
  NoDup (flat_map f ks).
Proof.
  induction 1 as [|k ks Hni Hnd IH]; intros Hf Hinj; cbn [flat_map]; [constructor|].
  apply NoDup_app_intro.
  - apply Hf. now left.
  - apply IH.
    + intros k' Hk'. apply Hf. now right.
    + intros k1 k2 x H1 H2. apply Hinj; now right.
  - intros x H1 H2. apply in_flat_map in H2. destruct H2 as [k' [Hk' Hx]].
    assert (k = k') by (apply (Hinj k k' x); auto; [now left | now right]).
    subst. contradiction.
Qed.

Lemma In_sorted_subsets {T} (l s : list T) : In s (sorted_subsets l) <-> sublist s l.
Proof.
  unfold sorted_subsets. rewrite in_flat_map. split.
  - intros [k [_ Hs]]. apply In_combs in Hs. tauto.
  - intros Hs. exists (List.length s). split.
    + apply in_seq. pose proof (sublist_length _ _ Hs). lia.
    + apply In_combs. auto.
Qed.

Lemma NoDup_sorted_subsets {T} (l : list T) : NoDup l -> NoDup (sorted_subsets l).
Proof.
  intros Hnd. unfold sorted_subsets. apply NoDup_flat_map.
  - apply seq_NoDup.
  - intros k _. now apply NoDup_combs.
  - intros k1 k2 s _ _ H1 H2. apply In_combs in H1. apply In_combs in H2.
    destruct H1 as [_ <-], H2 as [_ <-]. reflexivity.
Qed.

Lemma filter_unique_length {T} (p : T -> bool) l x :
  NoDup l -> In x l -> p x = true -> (forall y, In y l -> p y = true -> y = x) ->
  List.length (filter p l) = 1.
Proof.
  induction 1 as [|y l Hni Hnd IH]; intros Hin Hp Huniq; [destruct Hin|].
  cbn [filter]. destruct Hin as [->|Hin].
  - rewrite Hp. cbn [List.length]. f_equal.
    assert (Hnil : filter p l = []).
    { destruct (filter p l) as [|z t] eqn:Hf; [reflexivity|]. exfalso.
      assert (Hz : In z (filter p l)) by (rewrite Hf; now left).
      apply filter_In in Hz. destruct Hz as [Hz Hpz].
      assert (z = x) by (apply Huniq; [now right | assumption]). subst. contradiction. }
    now rewrite Hnil.
  - destruct (p y) eqn:Hpy.
    + exfalso. assert (y = x) by (apply Huniq; [now left | assumption]). subst. contradiction.
    + apply IH; auto. intros z Hz Hpz. apply Huniq; [now right | assumption].
Qed.

Lemma filter_none_length {T} (p : T -> bool) l :
  (forall y, In y l -> p y = false) -> List.length (filter p l) = 0.
Proof.
  induction l as [|y l IH]; intros H; [reflexivity|]. cbn [filter].
  rewrite (H y) by now left. apply IH. intros z Hz. apply H. now right.
Qed.

(* set equality of factor lists *)
Definition seteqb (A B : list factor) : bool := subsetb A B && subsetb B A.

Lemma seteqb_iff A B : seteqb A B = true <-> (forall f, In f A <-> In f B).
Proof.
  unfold seteqb. rewrite andb_true_iff, !subsetb_incl. unfold incl.
  split; [intros [H1 H2] x; split; auto | intros H; split; intros x; apply H].
Qed.

(* among the sublists of a duplicate-free list exactly one is set-equal to S if S is included
   in the list, none otherwise *)
Lemma count_seteq_sorted_subsets comps S :
  NoDup comps ->
  List.length (filter (fun T => seteqb T S) (sorted_subsets comps))
  = if subsetb S comps then 1 else 0.
Proof.
  intros Hnd. destruct (subsetb S comps) eqn:Hsub.
  - apply subsetb_incl in Hsub.
    set (T0 := filter (fun f => fmem f S) comps).
    assert (HT0 : sublist T0 comps).
    { unfold T0. clear. induction comps as [|x r IH]; cbn [filter]; [constructor|].
      destruct (fmem x S); now constructor. }
    assert (HT0S : forall f, In f T0 <-> In f S).
    { intros f. unfold T0. rewrite filter_In, fmem_In. split; [tauto|]. intros H. split; auto. }
    apply filter_unique_length with (x := T0).
    + now apply NoDup_sorted_subsets.
    + now apply In_sorted_subsets.
    + now apply seteqb_iff.
    + intros T HT HTS. apply In_sorted_subsets in HT. rewrite seteqb_iff in HTS.
      apply (sublist_ext _ _ comps); auto. intros f. rewrite HTS, HT0S. tauto.
  - apply filter_none_length. intros T HT. apply In_sorted_subsets in HT.
    apply not_true_is_false. intros HTS. rewrite seteqb_iff in HTS.
    assert (subsetb S comps = true); [|congruence].
    apply subsetb_incl. intros f Hf. apply (sublist_incl _ _ HT). now apply HTS.
Qed.

(* ------------------------------------------------------------------------------------ *)
(* 3. pick_contrast                                                                       *)
(* ------------------------------------------------------------------------------------ *)

Definition mkfalse (T : list factor) : subterm := map (fun f => (f, false)) T.
Definition allfalse (u : subterm) : Prop := forall e, In e u -> snd e = false.
(* S is (set-equal to the factor set of) a member of used *)
Definition usedcov (used : list subterm) (S : list factor) : bool :=
  existsb (fun u => inI u S) used.

Lemma In_mkfalse f b T : In (f, b) (mkfalse T) <-> b = false /\ In f T.
Proof.
  unfold mkfalse. rewrite in_map_iff. split.
  - intros [g [Hg Hin]]. inversion Hg; subst. auto.
  - intros [-> Hin]. now exists f.
Qed.

Lemma map_fst_mkfalse T : map fst (mkfalse T) = T.
Proof. unfold mkfalse. rewrite map_map. cbn [fst]. apply map_id. Qed.

Lemma allfalse_mkfalse T : allfalse (mkfalse T).
Proof. intros [f b] H. apply In_mkfalse in H. cbn [snd]. tauto. Qed.

(* the interval of an all-false subterm is the singleton of its factor set *)
Lemma inI_allfalse u S : allfalse u -> inI u S = seteqb (map fst u) S.
Proof.
  intros Hu. apply eq_true_iff_eq. rewrite inI_iff, seteqb_iff. split.
  - intros [H1 H2] f. split.
    + intros Hf. apply in_map_iff in Hf. destruct Hf as [[g b] [Hg Hin]]. cbn [fst] in Hg. subst g.
      destruct (H1 _ _ Hin) as [Hb|Hf]; [|assumption].
      specialize (Hu _ Hin). cbn [snd] in Hu. congruence.
    + intros Hf. destruct (H2 _ Hf) as [b Hb]. apply in_map_iff. now exists (f, b).
  - intros H. split.
    + intros f b Hin. right. apply H. apply in_map_iff. now exists (f, b).
    + intros f Hf. apply H in Hf. apply in_map_iff in Hf. destruct Hf as [[g b] [Hg Hin]].
      cbn [fst] in Hg. subst g. now exists b.
Qed.

Lemma inI_mkfalse T S : inI (mkfalse T) S = seteqb T S.
Proof. rewrite inI_allfalse by apply allfalse_mkfalse. now rewrite map_fst_mkfalse. Qed.

Lemma seteqb_sym A B : seteqb A B = seteqb B A.
Proof. unfold seteqb. apply andb_comm. Qed.

(* Subterm.__eq__ against a fresh (all-false) subterm is interval membership *)
Lemma st_eqb_mkfalse T u : allfalse u -> st_eqb (mkfalse T) u = inI u T.
Proof.
  intros Hu. rewrite inI_allfalse by assumption.
  apply eq_true_iff_eq. rewrite st_eqb_iff, seteqb_iff. split.
  - intros H f. split.
    + intros Hf. apply in_map_iff in Hf. destruct Hf as [[g b] [Hg Hin]]. cbn [fst] in Hg. subst g.
      apply H in Hin. apply In_mkfalse in Hin. tauto.
    + intros Hf. assert (Hin : In (f, false) (mkfalse T)) by (apply In_mkfalse; auto).
      apply H in Hin. apply in_map_iff. now exists (f, false).
  - intros H [f b]. rewrite In_mkfalse. split.
    + intros [-> Hf]. apply H in Hf. apply in_map_iff in Hf. destruct Hf as [[g b] [Hg Hin]].
      cbn [fst] in Hg. subst g. pose proof (Hu _ Hin) as Hb. cbn [snd] in Hb. now subst b.
    + intros Hin. split; [exact (Hu _ Hin)|]. apply H. apply in_map_iff. now exists (f, b).
Qed.

Lemma st_mem_mkfalse T used : Forall allfalse used -> st_mem (mkfalse T) used = usedcov used T.
Proof.
  unfold st_mem, usedcov. induction 1 as [|u used Hu _ IH]; [reflexivity|].
  cbn [existsb]. rewrite IH, st_eqb_mkfalse by assumption. reflexivity.
Qed.

Lemma usedcov_ext used S1 S2 : (forall f, In f S1 <-> In f S2) -> usedcov used S1 = usedcov used S2.
Proof.
  intros H. unfold usedcov. induction used as [|u used IH]; [reflexivity|].
  cbn [existsb]. rewrite IH. f_equal. apply inI_ext; [tauto | assumption].
Qed.

Lemma usedcov_app u1 u2 S : usedcov (u1 ++ u2) S = usedcov u1 S || usedcov u2 S.
Proof. apply existsb_app. Qed.

Lemma usedcov_cnt used S : usedcov used S = negb (Nat.eqb (cnt used S) 0).
Proof. apply existsb_inI_cnt. Qed.

Definition fresh_subterms (comps : list factor) (used : list subterm) : list subterm :=
  filter (fun s => negb (st_mem s used)) (map mkfalse (sorted_subsets comps)).

Lemma cnt_fresh_gen used S subs :
  Forall allfalse used ->
  cnt (filter (fun s => negb (st_mem s used)) (map mkfalse subs)) S
  = if usedcov used S then 0 else List.length (filter (fun T => seteqb T S) subs).
Proof.
  intros Hu. induction subs as [|T subs IH]; cbn [map filter].
  - destruct (usedcov used S); reflexivity.
  - rewrite st_mem_mkfalse by assumption.
    destruct (seteqb T S) eqn:HTS.
    + assert (Hext : usedcov used T = usedcov used S)
        by (apply usedcov_ext; now apply seteqb_iff).
      rewrite Hext. destruct (usedcov used S) eqn:HuS; cbn [negb].
      * exact IH.
      * rewrite cnt_cons, inI_mkfalse, HTS, IH. reflexivity.
    + destruct (usedcov used T); cbn [negb].
      * exact IH.
      * rewrite cnt_cons, inI_mkfalse, HTS, IH. reflexivity.
Qed.

Lemma cnt_fresh comps used S :
  NoDup comps -> Forall allfalse used ->
  cnt (fresh_subterms comps used) S = if subsetb S comps && negb (usedcov used S) then 1 else 0.
Proof.
  intros Hnd Hu. unfold fresh_subterms. rewrite cnt_fresh_gen by assumption.
  rewrite count_seteq_sorted_subsets by assumption.
  destruct (usedcov used S), (subsetb S comps); reflexivity.
Qed.

Lemma fresh_wf_allfalse comps used :
  NoDup comps ->
  Forall wf (fresh_subterms comps used) /\ Forall allfalse (fresh_subterms comps used).
Proof.
  intros Hnd. unfold fresh_subterms. split; apply Forall_forall; intros s Hs;
    apply filter_In in Hs; destruct Hs as [Hs _]; apply in_map_iff in Hs;
    destruct Hs as [T [<- HT]].
  - unfold wf. rewrite map_fst_mkfalse. apply In_sorted_subsets in HT.
    now apply (sublist_NoDup _ _ HT).
  - apply allfalse_mkfalse.
Qed.

Lemma inI_top s : inI s (map fst s) = true.
Proof.
  apply inI_iff. split.
  - intros f b Hin. right. apply in_map_iff. now exists (f, b).
  - intros f Hf. apply in_map_iff in Hf. destruct Hf as [[g b] [Hg Hin]]. cbn [fst] in Hg.
    subst g. now exists b.
Qed.

Theorem pick_contrast_partition comps used :
  NoDup comps -> Forall allfalse used ->
  exists codings used',
    pick_contrast comps used = Ok (codings, used') /\
    Forall wf codings /\
    (* the intervals of the codings partition  P(comps) \ used *)
    (forall S, cnt codings S = if subsetb S comps && negb (usedcov used S) then 1 else 0) /\
    (* used' = used + P(comps) *)
    Forall allfalse used' /\
    (forall S, usedcov used' S = usedcov used S || subsetb S comps) /\
    (* and nothing more can be absorbed *)
    simplify_step [] codings = None.
Proof.
  intros Hnd Hu.
  change (pick_contrast comps used)
    with (do simp <- simplify (List.length (fresh_subterms comps used)) (fresh_subterms comps used);
          Ok (simp, used ++ fresh_subterms comps used)).
  destruct (fresh_wf_allfalse comps used Hnd) as [Hfw Hff].
  pose proof (cnt_fresh comps used) as Hcf.
  destruct (simplify_preserves (List.length (fresh_subterms comps used)) (fresh_subterms comps used))
    as [codings [Hs [Hw [Hc Hfix]]]]; auto.
  { intros S. rewrite Hcf by assumption. destruct (_ && _); lia. }
  exists codings, (used ++ fresh_subterms comps used). rewrite Hs. cbn [bind].
  repeat split; auto.
  - intros S. rewrite Hc. now apply Hcf.
  - apply Forall_app. split; assumption.
  - intros S. rewrite usedcov_app. rewrite (usedcov_cnt (fresh_subterms comps used)).
    rewrite Hcf by assumption.
    destruct (usedcov used S), (subsetb S comps); reflexivity.
Qed.

(* consequence: every coding only mentions factors of the term *)
Corollary pick_contrast_within comps used codings used' :
  NoDup comps -> Forall allfalse used -> pick_contrast comps used = Ok (codings, used') ->
  forall c, In c codings -> incl (map fst c) comps.
Proof.
  intros Hnd Hu Hp c Hc.
  destruct (pick_contrast_partition comps used Hnd Hu) as [cod [u' [Hp' [_ [Hcnt _]]]]].
  rewrite Hp in Hp'. inversion Hp'; subst cod u'.
  pose proof (cnt_In c codings (map fst c) Hc) as Hle. rewrite inI_top in Hle. cbn [Nat.b2n] in Hle.
  rewrite Hcnt in Hle. apply subsetb_incl.
  destruct (subsetb (map fst c) comps); [reflexivity | cbn [andb] in Hle; lia].
Qed.

(* ------------------------------------------------------------------------------------ *)
(* 4. pick_contrasts                                                                      *)
(* ------------------------------------------------------------------------------------ *)

Lemma dict_set_fresh {V} k (v : V) d : ~ In k (map fst d) -> dict_set k v d = d ++ [(k, v)].
Proof.
  induction d as [|[k' v'] d IH]; intros Hni; cbn [dict_set app]; [reflexivity|].
  cbn [map fst In] in Hni. destruct (String.eqb k k') eqn:He.
  - apply String.eqb_eq in He. subst. exfalso. apply Hni. now left.
  - rewrite IH; [reflexivity|]. intros H. apply Hni. now right.
Qed.

(* per-term specification: the codings of the i-th term partition
   P(components_i) \ (P(components_0) + ... + P(components_(i-1))) *)
Fixpoint terms_spec (prev : list (list factor)) (group : list (string * list factor))
         (new : list (string * list subterm)) : Prop :=
  match group, new with
  | [], [] => True
  | (n, comps) :: g, (n', cod) :: r =>
      n' = n /\ Forall wf cod /\ simplify_step [] cod = None /\
      (forall S, cnt cod S = if subsetb S comps && negb (existsb (subsetb S) prev) then 1 else 0) /\
      terms_spec (prev ++ [comps]) g r
  | _, _ => False
  end.

Lemma terms_spec_names prev group new : terms_spec prev group new -> map fst new = map fst group.
Proof.
  revert prev new. induction group as [|[n comps] g IH]; intros prev [|[n' cod] r] H;
    cbn [terms_spec] in H; try contradiction; [reflexivity|].
  destruct H as [-> [_ [_ [_ H]]]]. cbn [map fst]. f_equal. eauto.
Qed.

Definition all_codings (result : list (string * list subterm)) : list subterm :=
  List.concat (map snd result).

Lemma terms_spec_cnt prev group new :
  terms_spec prev group new ->
  forall S, cnt (all_codings new) S
            = if negb (existsb (subsetb S) prev) && existsb (subsetb S) (map snd group)
              then 1 else 0.
Proof.
  revert prev new. induction group as [|[n comps] g IH]; intros prev [|[n' cod] r] H S;
    cbn [terms_spec] in H; try contradiction.
  - cbn. now rewrite andb_false_r.
  - destruct H as [-> [_ [_ [Hc H]]]]. unfold all_codings in *. cbn [map snd List.concat existsb].
    rewrite cnt_app, Hc, (IH _ _ H), existsb_app. cbn [existsb]. rewrite orb_false_r.
    destruct (existsb (subsetb S) prev), (subsetb S comps), (existsb (subsetb S) (map snd g));
      reflexivity.
Qed.

Lemma pick_contrasts_loop_spec group :
  forall used acc prev,
    NoDup (map fst group) ->
    (forall n, In n (map fst group) -> ~ In n (map fst acc)) ->
    Forall (fun g => NoDup (snd g)) group ->
    Forall allfalse used ->
    (forall S, usedcov used S = existsb (subsetb S) prev) ->
    exists new, pick_contrasts_loop group used acc = Ok (acc ++ new) /\ terms_spec prev group new.
Proof.
  induction group as [|[n comps] g IH]; intros used acc prev Hnames Hacc Hnd Hu Hprev;
    cbn [pick_contrasts_loop].
  - exists []. rewrite app_nil_r. split; [reflexivity | exact I].
  - cbn [map fst] in Hnames. inversion Hnames as [|? ? Hn Hnames']; subst.
    inversion Hnd as [|? ? Hc Hnd']; subst. cbn [snd] in Hc.
    destruct (pick_contrast_partition comps used Hc Hu)
      as [cod [used' [Hp [Hw [Hcnt [Hu' [Hcov Hfix]]]]]]].
    rewrite Hp. cbn [bind fst snd].
    rewrite dict_set_fresh by (apply Hacc; now left).
    destruct (IH used' (acc ++ [(n, cod)]) (prev ++ [comps])) as [new [Hloop Hspec]]; auto.
    + intros m Hm. rewrite map_app, in_app_iff. cbn [map fst In]. intros [H|[H|[]]].
      * apply (Hacc m); [now right | assumption].
      * subst. contradiction.
    + intros S. rewrite Hcov, Hprev, existsb_app. cbn [existsb]. now rewrite orb_false_r.
    + exists ((n, cod) :: new). rewrite Hloop, <- app_assoc. split; [reflexivity|].
      cbn [terms_spec]. repeat split; auto.
      intros S. rewrite Hcnt, Hprev. reflexivity.
Qed.

(* MAIN THEOREM.  Term names are assumed pairwise distinct (they are the keys of a Python dict;
   with a repeated name dict_set overwrites the earlier entry and the statement is false, see
   [pick_contrasts_duplicate_names] below).  For every group whose factor lists are
   duplicate-free, pick_contrasts succeeds, returns one entry per term in order, and every
   set S of factors lies in the interval of exactly one coding if S is a subset of the factors
   of some term, and of no coding otherwise. *)
Theorem pick_contrasts_partition group :
  NoDup (map fst group) ->
  Forall (fun g => NoDup (snd g)) group ->
  exists result,
    pick_contrasts group = Ok result /\
    map fst result = map fst group /\
    terms_spec [] group result /\
    (forall S, cnt (all_codings result) S = if existsb (subsetb S) (map snd group) then 1 else 0) /\
    ForallOrdPairs disjI (all_codings result).
Proof.
  intros Hnames Hnd. unfold pick_contrasts.
  destruct (pick_contrasts_loop_spec group [] [] []) as [new [Hloop Hspec]]; auto.
  cbn [app] in Hloop. exists new. split; [assumption|].
  pose proof (terms_spec_cnt _ _ _ Hspec) as Hcnt. cbn [existsb negb andb] in Hcnt.
  repeat split; auto.
  - now apply terms_spec_names in Hspec.
  - apply cnt_le1_pairwise. intros S. rewrite Hcnt. destruct (existsb _ _); lia.
Qed.

(* "exactly once", spelled out *)
Corollary pick_contrasts_exists_unique group result S :
  NoDup (map fst group) -> Forall (fun g => NoDup (snd g)) group ->
  pick_contrasts group = Ok result ->
  existsb (subsetb S) (map snd group) = true ->
  exists l1 c l2, all_codings result = l1 ++ c :: l2 /\ inI c S = true /\
                  (forall d, In d l1 \/ In d l2 -> inI d S = false).
Proof.
  intros Hnames Hnd Hres Hex.
  destruct (pick_contrasts_partition group Hnames Hnd) as [r [Hr [_ [_ [Hcnt _]]]]].
  rewrite Hres in Hr. inversion Hr; subst r. specialize (Hcnt S). rewrite Hex in Hcnt.
  clear - Hcnt. induction (all_codings result) as [|c L IH]; [discriminate|].
  rewrite cnt_cons in Hcnt. destruct (inI c S) eqn:Hc; cbn [Nat.b2n] in Hcnt.
  - exists [], c, L. repeat split; auto. intros d [[]|Hd].
    pose proof (cnt_In d L S Hd) as Hle. destruct (inI d S); [cbn [Nat.b2n] in Hle; lia | reflexivity].
  - destruct (IH Hcnt) as [l1 [c' [l2 [-> [Hc' Hoth]]]]]. exists (c :: l1), c', l2.
    repeat split; auto. intros d [[<-|Hd]|Hd]; auto.
Qed.

(* The hypothesis on names cannot be dropped: with a repeated name the second (empty) list of
   codings overwrites the first one and the subsets [] and ["f"] are covered by no coding. *)
Example pick_contrasts_duplicate_names :
  pick_contrasts [("a", ["f"]); ("a", ["f"])] = Ok [("a", [])].
Proof. vm_compute. reflexivity. Qed.

(* ------------------------------------------------------------------------------------ *)
(* 5. Examples                                                                            *)
(* ------------------------------------------------------------------------------------ *)

(* the partition statement, checked by computation for all subsets of a finite universe *)
Definition partition_check (universe : list factor) (group : list (string * list factor))
           (result : list (string * list subterm)) : bool :=
  forallb (fun S => Nat.eqb (cnt (all_codings result) S)
                            (if existsb (subsetb S) (map snd group) then 1 else 0))
          (sorted_subsets universe).

Definition ex_group1 : list (string * list factor) :=
  [("Intercept", []); ("f", ["f"]); ("f:g", ["f"; "g"])].
Definition ex_group2 : list (string * list factor) := [("f:g", ["f"; "g"])].
Definition ex_group3 : list (string * list factor) :=
  [("Intercept", []); ("f:g:h", ["f"; "g"; "h"])].

(* y ~ 1 + f + f:g : f reduced in the main effect; in f:g, g reduced and f full *)
Example ex1_value :
  pick_contrasts ex_group1
  = Ok [("Intercept", [[]]); ("f", [[("f", false)]]); ("f:g", [[("g", false); ("f", true)]])].
Proof. vm_compute. reflexivity. Qed.

Example ex1_partition :
  match pick_contrasts ex_group1 with
  | Ok r => partition_check ["f"; "g"; "h"; "z"] ex_group1 r
  | Err _ => false
  end = true.
Proof. vm_compute. reflexivity. Qed.

(* no intercept: the first term gets the full coding of both factors *)
Example ex2_value :
  pick_contrasts ex_group2 = Ok [("f:g", [[("f", true); ("g", true)]])].
Proof. vm_compute. reflexivity. Qed.

Example ex2_partition :
  match pick_contrasts ex_group2 with
  | Ok r => partition_check ["f"; "g"; "h"; "z"] ex_group2 r
  | Err _ => false
  end = true.
Proof. vm_compute. reflexivity. Qed.

(* y ~ 1 + f:g:h : FOUR codings for one term ({f},{f,g} / {h},{f,h} / {g},{g,h} / {f,g,h});
   the caller (Model._get_encoding_bools consumers) only applies the first one. *)
Example ex3_value :
  pick_contrasts ex_group3
  = Ok [("Intercept", [[]]);
        ("f:g:h", [[("f", false); ("g", true)]; [("h", false); ("f", true)];
                   [("g", false); ("h", true)];
                   [("f", false); ("g", false); ("h", false)]])].
Proof. vm_compute. reflexivity. Qed.

Example ex3_partition :
  match pick_contrasts ex_group3 with
  | Ok r => partition_check ["f"; "g"; "h"; "z"] ex_group3 r
  | Err _ => false
  end = true.
Proof. vm_compute. reflexivity. Qed.

(* the check is not vacuous: dropping a coding, or using the full coding twice, is detected *)
Example partition_check_detects_gap :
  partition_check ["f"; "g"] ex_group1 [("Intercept", [[]]); ("f", [[("f", false)]]); ("f:g", [])]
  = false.
Proof. vm_compute. reflexivity. Qed.

Example partition_check_detects_overlap :
  partition_check ["f"; "g"] ex_group1
    [("Intercept", [[]]); ("f", [[("f", true)]]); ("f:g", [[("g", false); ("f", true)]])]
  = false.
Proof. vm_compute. reflexivity. Qed.

Print Assumptions absorb_interval.
Print Assumptions absorb_never_fails.
Print Assumptions simplify_step_preserves.
Print Assumptions simplify_preserves.
Print Assumptions pick_contrast_partition.
Print Assumptions pick_contrasts_partition.
Print Assumptions pick_contrasts_exists_unique.
