(* Properties C06 and C08 for group-specific terms.
   G1: a design trained on D, its group-effects matrix evaluated on rows of D ([new_group]) returns
       those rows of the training group matrix, with the original slices, no new factor, no
       warning, in every mode: [new_comp_sel_forced] (grouping factors are forced to be
       categoric) -> [factor_row_has_one] (a training factor row is never all-zero) ->
       [new_gterm_sel] -> [new_group_sel] -> [eval_model_trained_groups] ->
       [new_group_pick]/[new_group_select] -> [design_new_group_pick].
   G2: training again on a frame with permuted rows, group-specific terms included:
       [set_type_gterm_refit], [set_data_gterm_refit], [eval_model_refit_groups], [perm_rows_groups]
       and [perm_rows_full_statement_proved]. *)
From Verif Require Import Base Tokens Lazy Algebra Coding Contrasts Frame Eval Design.
From Verif Require Import DesignStructure DesignCoding FrameStructure Unseen PermKernel Prediction.
From Coq Require Import Lia Permutation.
Local Close Scope Qc_scope.
Local Close Scope Q_scope.
Local Open Scope string_scope.
Local Open Scope list_scope.
Local Open Scope nat_scope.

(* ------------------------------------------------------------------------------------------ *)
(** * Contrast matrices: widths, and a 1 in every row of a full coding *)

Lemma code_build enc spans lv cm :
  code enc spans lv = Ok cm ->
  exists c f,
    cmatrix cm = build (List.length lv) c f /\
    (spans = true -> forall k, k < List.length lv -> exists j, j < c /\ f k j = 1%Z).
Proof.
  unfold code, code_with_intercept, code_without_intercept. destruct spans.
  - destruct enc as [r|o].
    + intros H. injection H as <-. exists (List.length lv), eye_entry. split; [reflexivity|].
      intros _ k Hk. exists k. split; [assumption|]. unfold eye_entry. rewrite Nat.eqb_refl. reflexivity.
    + intros H. apply bind_ok in H as (r & _ & H). injection H as <-.
      exists (List.length lv), (sumfull_entry r). split; [reflexivity|].
      intros _ k Hk. exists 0. split; [lia|reflexivity].
  - intros H. apply bind_ok in H as (r & _ & H).
    destruct enc; injection H as <-; do 2 eexists; (split; [reflexivity|discriminate]).
Qed.

Lemma code_row_width nl c f labels k :
  List.length (code_row (build nl c f) (contrast_width (Contrast (build nl c f) labels)) k)
  = contrast_width (Contrast (build nl c f) labels).
Proof.
  destruct k as [k|]; unfold code_row; [|apply repeat_length].
  rewrite map_length. destruct (Nat.lt_ge_cases k nl) as [Hk|Hk].
  - rewrite build_nth by assumption. rewrite map_length, seq_length.
    symmetry. apply build_width. lia.
  - rewrite nth_overflow by (rewrite build_length; assumption). apply repeat_length.
Qed.

Lemma code_row_width' enc spans lv cm k :
  code enc spans lv = Ok cm ->
  List.length (code_row (cmatrix cm) (contrast_width cm) k) = contrast_width cm.
Proof.
  intros H. destruct (code_build _ _ _ _ H) as (c & f & E & _).
  destruct cm as [m labels]. cbn [cmatrix] in E. subst m. apply code_row_width.
Qed.

Lemma code_row_has_one enc lv cm k :
  code enc true lv = Ok cm -> k < List.length lv ->
  In (zcell 1) (code_row (cmatrix cm) (contrast_width cm) (Some k)).
Proof.
  intros H Hk. destruct (code_build _ _ _ _ H) as (c & f & E & Hone).
  destruct (Hone eq_refl k Hk) as (j & Hj & Hf).
  unfold code_row. rewrite E, build_nth by assumption. rewrite map_map.
  apply in_map_iff. exists j. split; [rewrite Hf; reflexivity|]. apply in_seq. lia.
Qed.

Lemma has_one_not_zero r : In (zcell 1) r -> all_zero r = false.
Proof.
  intros H. destruct (all_zero r) eqn:E; [|reflexivity].
  unfold all_zero in E. rewrite forallb_forall in E. specialize (E _ H). discriminate E.
Qed.

Lemma row_kron_has_one x y : In (zcell 1) x -> In (zcell 1) y -> In (zcell 1) (row_kron x y).
Proof.
  intros Hx Hy. unfold row_kron. apply in_flat_map. exists (zcell 1). split; [assumption|].
  apply in_map_iff. exists (zcell 1). split; [apply cmul_one|assumption].
Qed.

(** * Regular blocks *)

Lemma in_zip_with {X Y Z} (f : X -> Y -> Z) a : forall b r,
  In r (zip_with f a b) -> exists x y, In x a /\ In y b /\ r = f x y.
Proof.
  induction a as [|x a IH]; intros [|y b] r H; try (simpl in H; contradiction).
  - rewrite zip_with_cons in H. destruct H as [<-|H].
    + exists x, y. simpl. auto.
    + destruct (IH b r H) as (x' & y' & Hx & Hy & E). exists x', y'. simpl. auto.
Qed.

Lemma rows_kron_regular a b : regular_rows a -> regular_rows b -> regular_rows (rows_kron a b).
Proof.
  intros (wa & Ha) (wb & Hb). exists (wa * wb). apply Forall_forall. intros r Hr.
  apply in_zip_with in Hr as (x & y & Hx & Hy & ->). rewrite row_kron_length.
  rewrite Forall_forall in Ha, Hb. rewrite (Ha x Hx), (Hb y Hy). reflexivity.
Qed.

Lemma fold_rows_kron_regular rs : forall r0,
  regular_rows r0 -> Forall regular_rows rs -> regular_rows (fold_left rows_kron rs r0).
Proof.
  induction rs as [|r rs IH]; intros r0 H0 H; simpl; [assumption|].
  inversion H; subst. apply IH; [apply rows_kron_regular; assumption|assumption].
Qed.

Lemma rows_kron_has_one a b :
  Forall (fun r => In (zcell 1) r) a -> Forall (fun r => In (zcell 1) r) b ->
  Forall (fun r => In (zcell 1) r) (rows_kron a b).
Proof.
  intros Ha Hb. apply Forall_forall. intros r Hr.
  apply in_zip_with in Hr as (x & y & Hx & Hy & ->). rewrite Forall_forall in Ha, Hb.
  apply row_kron_has_one; auto.
Qed.

Lemma fold_rows_kron_has_one rs : forall r0,
  Forall (fun r => In (zcell 1) r) r0 -> Forall (Forall (fun r => In (zcell 1) r)) rs ->
  Forall (fun r => In (zcell 1) r) (fold_left rows_kron rs r0).
Proof.
  induction rs as [|r rs IH]; intros r0 H0 H; simpl; [assumption|].
  inversion H; subst. apply IH; [apply rows_kron_has_one; assumption|assumption].
Qed.

(* the rows [set_data_comp] produces all have the same width (a numeric matrix value is assumed
   regular: it is, for bs and poly, see [good]) *)
Lemma set_data_comp_regular t spans nrows d :
  match tc_value t with PMatrix rows => regular_rows rows | _ => True end ->
  set_data_comp t spans nrows = Ok d -> regular_rows (dc_rows d).
Proof.
  intros G H. unfold set_data_comp in H.
  destruct (tc_kind t);
    destruct (tc_value t) as [i xs|rows|o xs| | | | | | | |num bd enc lv|co xs|];
    cbn [categoric_data bind fst snd] in *; try discriminate H;
    try (destruct i; cbn [categoric_data bind fst snd] in H; try discriminate H);
    repeat match type of H with
           | (if ?c then _ else _) = Ok _ => destruct c; try discriminate H
           | match ?x with _ => _ end = Ok _ => destruct x; try discriminate H
           | bind ?r _ = Ok _ =>
               let cm := fresh "cm" in let E := fresh "Ecode" in
               destruct r as [cm|] eqn:E; cbn [bind] in H; try discriminate H
           end;
    injection H as <-; cbn [dc_rows];
    first [ exact G
          | apply (regular_map _ 1); intros; reflexivity
          | rewrite code_rows_map; apply (regular_map _ (contrast_width cm)); intros k;
            eapply code_row_width'; eassumption
          | exists 1; apply Forall_forall; intros r Hr; apply repeat_spec in Hr; subst; reflexivity
          | exists 2; apply Forall_forall; intros r Hr;
            apply in_zip_with in Hr as (x & y & _ & _ & ->); reflexivity ].
Qed.

Lemma set_type_comp_response cx D r c t : set_type_comp cx D r c = Ok t -> tc_response t = r.
Proof.
  destruct c as [[name|lit] lvl|lz]; simpl.
  - destruct (assoc name D); [|discriminate]. intros H. injection H as <-. reflexivity.
  - discriminate.
  - intros H. apply bind_ok in H as (x & _ & H). apply bind_ok in H as (k & _ & H).
    injection H as <-. reflexivity.
Qed.

Lemma new_gterm_unfold cx mode data g :
  new_gterm cx mode data g =
  do x <- new_term cx mode data (dg_expr g);
  do fparts <- mapM (new_comp cx mode data) (dg_factor g);
  match fparts with
  | p :: rest =>
      Ok (rows_kron (extend_zero_rows (fold_left rows_kron (map fst rest) (fst p))) (fst x),
          snd x || existsb (fun q => snd q) fparts)
  | [] => Err EIndex
  end.
Proof. reflexivity. Qed.

(* the training group-effects matrix and its slices *)
Definition group_matrix (ds : design) : list (list cell) :=
  hstack (map dg_rows (ds_group ds)) (ds_nrows ds).
Definition group_slices (ds : design) : list (string * nat * nat) :=
  slices_of (map dg_name (ds_group ds)) (map (fun g => width (dg_rows g)) (ds_group ds)).

(* ------------------------------------------------------------------------------------------ *)
(** * G1. The group-effects matrix on rows of the training frame *)

Section GSel.
  Variable sel : forall T : Type, list T -> list T.
  Hypothesis sel_map : forall (S T : Type) (f : S -> T) (l : list S), sel T (map f l) = map f (sel S l).
  Hypothesis sel_combine : forall (S T : Type) (a : list S) (b : list T),
      List.length a = List.length b -> combine (sel S a) (sel T b) = sel (S * T) (combine a b).
  Hypothesis sel_In : forall (T : Type) (x : T) (l : list T), In x (sel T l) -> In x l.
  Variable extra : list string.
  Hypothesis extra_ok : forall c, In c extra -> In c spline_callees.

  Variable cx : dctx.
  Variable D : frame.
  Variable n : nat.
  Hypothesis n_rows : rows_eq D n.
  Hypothesis D_rect : rect n D.
  Hypothesis ex_scalar : forall k v, assoc k (d_extra cx) = Some v -> is_scalar v = true.
  Hypothesis bs_ok : In "bs" extra -> seln sel n <> 0.
  (* at least one row is selected: an empty selection has width 0, which [new_group] reads as a
     change of width, i.e. as a new group *)
  Hypothesis sel_nonempty : seln sel n <> 0.

  Lemma categoric_data_sel v num o d0 :
    categoric_data v = Ok (num, o, d0) ->
    categoric_data (val_sel sel v) = Ok (num, o, sel _ d0).
  Proof.
    destruct v as [i xs| |o' xs| | | | | | | |nm bd enc lv| |]; try discriminate.
    - destruct i; [|discriminate]. simpl. intros H. injection H as <- <- <-. rewrite sel_map. reflexivity.
    - simpl. intros H. injection H as <- <- <-. reflexivity.
    - simpl. intros H. injection H as <- <- <-. reflexivity.
  Qed.

  (* no value of the training data is outside the levels *)
  Definition covered (levels : list string) (d0 : list (option string)) : Prop :=
    forall x, In x d0 -> exists s, x = Some s /\ In s levels.

  Lemma cat_predict mode d cm v num o d0 :
    dc_contrast d = Some cm -> categoric_data v = Ok (num, o, d0) ->
    dc_rows d = code_rows (cmatrix cm) (contrast_width cm) (level_codes (dc_levels d) d0) ->
    covered (dc_levels d) d0 ->
    (do nd <- categoric_data (val_sel sel v); new_categoric mode d (snd nd))
    = Ok (sel _ (dc_rows d), false) /\ List.length (dc_rows d) = List.length d0.
  Proof.
    intros Hcm Hcd Hrows Hcov. rewrite (categoric_data_sel _ _ _ _ Hcd). cbn [bind snd].
    apply (categoric_rows_sel sel sel_map sel_In mode d cm d0 Hcm Hrows Hcov).
  Qed.

  Lemma int_labels_ok (xs : list cell) :
    num_labels_ok true (map (fun c => match c with Some q => Some (int_label q) | None => None end) xs).
  Proof.
    intros _ s Hin. apply in_map_iff in Hin as ([q|] & E & _); [|discriminate].
    injection E as <-. eexists. reflexivity.
  Qed.

  Lemma covered_sorted num d0 :
    num_labels_ok num d0 -> (forall x, In x d0 -> exists s, x = Some s) ->
    covered (sort_levels num (present d0)) d0.
  Proof.
    intros Hn Hs x Hx. destruct (Hs x Hx) as (s & ->). exists s. split; [reflexivity|].
    apply sort_levels_cover; assumption.
  Qed.

  (** A grouping factor: a component typed on D whose kind is forced to categoric (a numeric
      variable is coded on its integer labels), coded on D, evaluated on the selected rows:
      the selected rows of its training matrix; with the full coding every training row holds a 1. *)
  Theorem new_comp_sel_forced mode c spans t d :
    comp_ok extra D c -> set_type_comp cx D false c = Ok t -> box_complete t ->
    set_data_comp (force_categoric t) spans n = Ok d ->
    new_comp cx mode (frame_sel sel D) d = Ok (sel _ (dc_rows d), false) /\
    List.length (dc_rows d) = n /\
    (spans = true -> Forall (fun r => In (zcell 1) r) (dc_rows d)).
  Proof.
    intros Hok Ht Hbc Hd.
    pose proof (set_type_comp_response _ _ _ _ _ Ht) as Hresp.
    pose proof Hd as Hd2.
    apply set_data_comp_cat_inv in Hd as (cm & num & o & d0 & Hcm & Hcd & Hdt & Hrows & Hlev & Hnm);
      [|reflexivity|exact Hresp].
    destruct (set_data_comp_categoric _ _ _ _ _ (eq_refl : tc_kind (force_categoric t) = KCategoric) Hd2 Hcm)
      as (_ & _ & _ & _ & Hcode & _).
    cbn [force_categoric tc_value] in Hcd, Hnm.
    (* what is needed of the training values; then the two kinds of sources *)
    assert (Core : covered (dc_levels d) d0 -> List.length d0 = n ->
                   (do nd <- categoric_data (val_sel sel (tc_value t)); new_categoric mode d (snd nd))
                   = Ok (sel _ (dc_rows d), false) /\
                   List.length (dc_rows d) = n /\
                   (spans = true -> Forall (fun r => In (zcell 1) r) (dc_rows d))).
    { intros Hcov Hlen. destruct (cat_predict mode d cm _ _ _ _ Hcm Hcd Hrows Hcov) as [P L].
      split; [exact P|]. split; [congruence|]. intros ->.
      rewrite Hrows, code_rows_map. unfold level_codes. rewrite map_map. apply Forall_forall.
      intros r Hr. apply in_map_iff in Hr as (x & <- & Hx). destruct (Hcov x Hx) as (s & -> & Hs).
      destruct (index_of_In _ _ Hs) as (k & Ek). rewrite Ek.
      apply (code_row_has_one _ _ _ _ Hcode). apply (index_of_Some _ _ _ "" Ek). }
    unfold declared_levels in Hlev. cbn [force_categoric tc_value] in Hlev.
    destruct c as [[name|lit] lvl|lz]; simpl in Ht.
    - (* a variable *)
      destruct (assoc name D) as [col|] eqn:E; [|discriminate]. injection Ht as <-.
      pose proof (assoc_In _ _ _ E) as Hin.
      pose proof D_rect as R. unfold rect in R. rewrite Forall_forall in R. specialize (R _ Hin). cbn [snd] in R.
      cbn [tc_value] in *.
      rewrite (new_comp_unfold _ _ _ _ _ Hdt). cbn [force_categoric tc_src tc_kind].
      rewrite assoc_frame_sel, E. cbn [option_map]. rewrite col_value_sel. apply Core.
      + assert (Hsome : forall x, In x d0 -> exists s, x = Some s).
        { apply Hnm. intros a b c e. destruct col; discriminate. }
        destruct col as [i xs|oo xs]; cbn [col_value categoric_data] in *.
        * destruct i; [|discriminate Hcd]. injection Hcd as <- <- <-. rewrite Hlev.
          apply covered_sorted; [apply int_labels_ok|exact Hsome].
        * injection Hcd as <- <- <-. rewrite Hlev. destruct oo as [cats|].
          -- intros x Hx. destruct (Hsome x Hx) as (s & ->). exists s. split; [reflexivity|].
             unfold comp_ok, var_ok in Hok. rewrite E in Hok. apply Hok. exact Hx.
          -- apply covered_sorted; [intros Ef; discriminate Ef|exact Hsome].
      + destruct col as [i xs|oo xs]; cbn [col_value categoric_data col_len] in *.
        * destruct i; [|discriminate Hcd]. injection Hcd as <- <- <-. rewrite map_length. exact R.
        * injection Hcd as <- <- <-. exact R.
    - discriminate.
    - (* a call *)
      destruct Hok as [Hsafe Hun].
      apply bind_ok in Ht as ([[v st1] rec] & Hev & Ht). cbn [fst snd] in Ht.
      destruct (eval_lazy_frozen sel sel_map sel_combine sel_In extra extra_ok D n D_rect Hun
                                 (d_extra cx) ex_scalar (d_sqrt cx) bs_ok lz v st1 rec Hsafe Hev)
        as (_ & Gv & Pv).
      unfold cxP in Pv.
      destruct v as [i xs|rows|oo xs| | | | | | | |nm bd enc lv|co xs|];
        cbn [bind] in Ht; try discriminate Ht; injection Ht as <-;
        cbn [tc_value categoric_data] in *; try discriminate Hcd;
        rewrite (new_comp_unfold _ _ _ _ _ Hdt);
        cbn [force_categoric tc_src tc_kind tc_state tc_name tc_value tc_response tc_reference];
        rewrite Pv; cbn [bind fst snd].
      + destruct i; [|discriminate Hcd]. injection Hcd as <- <- <-. cbn [good] in Gv. apply Core.
        * rewrite Hlev. apply covered_sorted; [apply int_labels_ok|].
          apply Hnm. intros a b c e. discriminate.
        * rewrite map_length. exact Gv.
      + injection Hcd as <- <- <-. cbn [good] in Gv. destruct Gv as [-> Gl]. apply Core.
        * rewrite Hlev. apply covered_sorted; [intros Ef; discriminate Ef|].
          apply Hnm. intros a b c e. discriminate.
        * exact Gl.
      + injection Hcd as <- <- <-. cbn [good] in Gv. destruct Gv as (-> & Gl & Gn). apply Core.
        * rewrite Hlev. apply covered_sorted; [exact Gn|].
          intros x Hx. unfold box_complete in Hbc. cbn [tc_value] in Hbc.
          rewrite Forall_forall in Hbc. specialize (Hbc x Hx). destruct x as [s|]; [eauto|congruence].
        * exact Gl.
  Qed.


  (** ** group-specific terms *)

  (* a group-specific term typed on D: the effect is a typed term, the grouping factor is made of
     typed components forced to be categoric; there is at least one factor component *)
  Definition typed_gterm (tg : tgterm) : Prop :=
    typed_term extra cx D (tg_expr tg) /\
    exists fs, Forall (typed_comp extra cx D) fs /\ fs <> [] /\ tg_factor tg = map force_categoric fs.

  Definition trained_gterm (dg : dgterm) : Prop :=
    exists tg spans, typed_gterm tg /\ set_data_gterm n tg spans = Ok dg.

  Lemma typed_comp_matrix_regular t :
    typed_comp extra cx D t ->
    match tc_value t with PMatrix rows => regular_rows rows | _ => True end.
  Proof.
    intros (c & Hok & Ht & _). destruct c as [[name|lit] lvl|lz]; simpl in Ht.
    - destruct (assoc name D) as [col|]; [|discriminate]. injection Ht as <-. destruct col; exact I.
    - discriminate.
    - destruct Hok as [Hsafe Hun]. apply bind_ok in Ht as ([[v st1] rec] & Hev & Ht). cbn [fst snd] in Ht.
      destruct (eval_lazy_frozen sel sel_map sel_combine sel_In extra extra_ok D n D_rect Hun
                                 (d_extra cx) ex_scalar (d_sqrt cx) bs_ok lz v st1 rec Hsafe Hev)
        as (_ & Gv & _).
      destruct v; cbn [bind] in Ht; try discriminate Ht; injection Ht as <-; cbn [tc_value]; try exact I.
      exact (proj2 Gv).
  Qed.

  Lemma set_data_comps_regular (f : tcomp -> bool) cs ds :
    Forall (typed_comp extra cx D) cs ->
    Forall2 (fun c d => set_data_comp c (f c) n = Ok d) cs ds ->
    Forall (fun d => regular_rows (dc_rows d)) ds.
  Proof.
    intros Ht H. induction H as [|c d cs ds Hc _ IH]; constructor.
    - eapply set_data_comp_regular; [|exact Hc]. apply typed_comp_matrix_regular. exact (Forall_inv Ht).
    - apply IH. exact (Forall_inv_tail Ht).
  Qed.

  Lemma set_data_term_regular tt s dt :
    typed_term extra cx D tt -> set_data_term n tt s = Ok dt -> regular_rows (dt_rows dt).
  Proof.
    intros Ht H. destruct tt as [|name cs].
    - simpl in H. injection H as <-. cbn [dt_rows]. exists 1. apply Forall_forall.
      intros r Hr. apply repeat_spec in Hr. subst. reflexivity.
    - destruct (set_data_term_inv _ _ _ _ _ H) as (d0 & rest & Hds & _ & -> & _).
      apply mapM_ok in Hds. simpl in Ht.
      pose proof (set_data_comps_regular _ _ _ Ht Hds) as R.
      apply fold_rows_kron_regular; [exact (Forall_inv R)|].
      apply Forall_map. exact (Forall_inv_tail R).
  Qed.

  Lemma new_factors_sel mode fs : forall fds,
    Forall (typed_comp extra cx D) fs ->
    mapM (fun c => set_data_comp (force_categoric c) true n) fs = Ok fds ->
    mapM (new_comp cx mode (frame_sel sel D)) fds = Ok (map (sel_part sel) fds) /\
    Forall (fun d => List.length (dc_rows d) = n) fds /\
    Forall (fun d => Forall (fun r => In (zcell 1) r) (dc_rows d)) fds /\
    Forall (fun d => regular_rows (dc_rows d)) fds.
  Proof.
    induction fs as [|t fs IH]; intros fds Ht H; simpl in H.
    - injection H as <-. repeat split; constructor.
    - apply bind_ok in H as (d & Hd & H). apply bind_ok in H as (ds' & Hds & H). injection H as <-.
      pose proof (Forall_inv Ht) as Ht0. pose proof (Forall_inv_tail Ht) as Ht'.
      pose proof (typed_comp_matrix_regular t Ht0) as Rm.
      destruct Ht0 as (c & Hok & Hty & Hbc).
      destruct (new_comp_sel_forced mode c true t d Hok Hty Hbc Hd) as (Hn & Hl & Ho).
      destruct (IH ds' Ht' Hds) as (Hm & Hls & Hos & Hrs).
      split; [simpl; rewrite Hn; cbn [bind]; rewrite Hm; reflexivity|].
      split; [constructor; assumption|]. split; [constructor; auto|].
      constructor; [|assumption]. eapply set_data_comp_regular; [|exact Hd]. exact Rm.
  Qed.

  Lemma width_sel_regular (rows : list (list cell)) :
    regular_rows rows -> List.length rows = n -> width (sel _ rows) = width rows.
  Proof.
    intros (w & Hw) L. rewrite Forall_forall in Hw.
    destruct (sel _ rows) as [|r1 rest] eqn:E.
    - exfalso. apply sel_nonempty. rewrite <- L, <- (sel_length sel sel_map), E. reflexivity.
    - assert (H1 : In r1 rows) by (apply sel_In; rewrite E; left; reflexivity).
      destruct rows as [|r0 rows']; [contradiction|]. simpl.
      rewrite (Hw r1 H1), (Hw r0 (or_introl eq_refl)). reflexivity.
  Qed.

  (** A group-specific term of the design on the selected rows: the selected rows of its training
      block, unchanged in width -- no row of the factor matrix is all-zero, so no "new group"
      column is appended -- and no warning. *)
  Theorem new_gterm_sel mode dg :
    trained_gterm dg ->
    new_gterm cx mode (frame_sel sel D) dg = Ok (sel _ (dg_rows dg), false) /\
    List.length (dg_rows dg) = n /\ regular_rows (dg_rows dg).
  Proof.
    intros (tg & spans & (Hte & fs & Hfs & Hne & Hfac) & Hd).
    destruct (set_data_gterm_inv _ _ _ _ Hd) as (He & Hfds & _ & Hrows & _).
    destruct (new_term_sel sel sel_map sel_combine sel_In extra extra_ok cx D n n_rows D_rect ex_scalar bs_ok
                           mode _ _ _ Hte He) as [Hx Lx].
    pose proof (set_data_term_regular _ _ _ Hte He) as Rx.
    rewrite Hfac, mapM_map in Hfds.
    destruct (new_factors_sel mode fs _ Hfs Hfds) as (Hm & Lf & Of & Rf).
    pose proof (mapM_length _ _ _ Hfds) as Lfs.
    destruct (dg_factor dg) as [|d0 rest] eqn:Ef.
    { destruct fs; [congruence|discriminate Lfs]. }
    pose proof (Forall_inv Lf) as L0. pose proof (Forall_inv_tail Lf) as Lr. cbv beta in L0.
    destruct (fold_rows_kron_sel sel sel_map sel_combine extra n bs_ok (map dc_rows rest) (dc_rows d0) L0)
      as [HJ LJ].
    { apply Forall_map. exact Lr. }
    set (J := fold_left rows_kron (map dc_rows rest) (dc_rows d0)) in *.
    assert (OJ : Forall (fun r => In (zcell 1) r) J).
    { apply fold_rows_kron_has_one; [exact (Forall_inv Of)|]. apply Forall_map. exact (Forall_inv_tail Of). }
    assert (RJ : regular_rows J).
    { apply fold_rows_kron_regular; [exact (Forall_inv Rf)|]. apply Forall_map. exact (Forall_inv_tail Rf). }
    assert (EJ : extend_zero_rows (sel _ J) = sel _ J).
    { apply (proj1 (extend_zero_rows_spec (sel _ J))). apply (sel_Forall sel sel_In).
      eapply Forall_impl; [|exact OJ]. intros r Hr. apply has_one_not_zero. exact Hr. }
    assert (Hr : dg_rows dg = rows_kron J (dt_rows (dg_expr dg))) by (rewrite Hrows; reflexivity).
    split; [|split].
    - rewrite new_gterm_unfold, Hx, Ef, Hm. cbn [bind map].
      rewrite sel_parts_fst. change (fst (sel_part sel d0)) with (sel _ (dc_rows d0)).
      rewrite HJ, EJ. cbn [fst snd].
      rewrite (rows_kron_sel sel sel_map sel_combine) by congruence.
      rewrite Hr. f_equal. f_equal.
      change (sel_part sel d0 :: map (sel_part sel) rest) with (map (sel_part sel) (d0 :: rest)).
      rewrite sel_parts_snd. reflexivity.
    - rewrite Hr, rows_kron_length. lia.
    - rewrite Hr. apply rows_kron_regular; assumption.
  Qed.

  Definition sel_gpart (g : dgterm) : list (list cell) * bool := (sel _ (dg_rows g), false).

  Lemma new_gterms_sel mode gs :
    Forall trained_gterm gs ->
    mapM (new_gterm cx mode (frame_sel sel D)) gs = Ok (map sel_gpart gs) /\
    Forall (fun g => List.length (dg_rows g) = n /\ regular_rows (dg_rows g)) gs.
  Proof.
    induction 1 as [|g gs Hg _ [IH1 IH2]]; simpl.
    - split; [reflexivity|constructor].
    - destruct (new_gterm_sel mode g Hg) as (Hn & Hl & Hr). rewrite Hn. cbn [bind]. rewrite IH1.
      split; [reflexivity|constructor; auto].
  Qed.

  Lemma no_width_change gs :
    Forall (fun g => List.length (dg_rows g) = n /\ regular_rows (dg_rows g)) gs ->
    filter width_changed (combine gs (map sel_gpart gs)) = [].
  Proof.
    induction 1 as [|g gs [L R] _ IH]; simpl; [reflexivity|].
    unfold width_changed at 1. cbn [fst snd sel_gpart].
    rewrite (width_sel_regular _ R L), Nat.eqb_refl. exact IH.
  Qed.

  (** G1: the group-effects matrix of the design on the selected rows of the training frame. *)
  Theorem new_group_sel mode ds :
    ds_nrows ds = n -> Forall trained_gterm (ds_group ds) ->
    new_group cx mode ds (frame_sel sel D)
    = Ok (NewGroup (sel _ (group_matrix ds)) (group_slices ds) [] false).
  Proof.
    intros Hn Ht. destruct (new_gterms_sel mode _ Ht) as [Hm Hl].
    assert (Hex : exists ng, new_group cx mode ds (frame_sel sel D) = Ok ng).
    { unfold new_group. rewrite Hm. cbn [bind]. eexists. reflexivity. }
    destruct Hex as [ng Hng]. rewrite Hng. f_equal.
    destruct (new_group_slices _ _ _ _ _ Hng) as (parts & Hp & Hrows & Hsl).
    destruct (new_group_new_factors _ _ _ _ _ Hng) as (parts' & Hp' & Hnf & _ & _ & Hw).
    rewrite Hm in Hp, Hp'. injection Hp as <-. injection Hp' as <-.
    destruct ng as [r s f w]. cbn [ng_rows ng_slices ng_new_factors ng_warned] in *. subst r s f w.
    f_equal.
    - rewrite (frame_rows_sel sel sel_map sel_In), (n_rows : _ = _). unfold group_matrix. rewrite Hn.
      rewrite map_map. cbn [sel_gpart fst].
      rewrite <- (map_map dg_rows (fun b => sel _ b)).
      apply (hstack_sel sel sel_map sel_combine extra n bs_ok).
      apply Forall_map. eapply Forall_impl; [|exact Hl]. intros g [L _]. exact L.
    - unfold group_slices. f_equal. rewrite map_map. apply map_ext_in. intros g Hg.
      rewrite Forall_forall in Hl. destruct (Hl g Hg) as [L R]. cbn [sel_gpart fst].
      apply width_sel_regular; assumption.
    - rewrite (no_width_change _ Hl). reflexivity.
    - generalize (ds_group ds) as l0. intros l0. induction l0 as [|x0 l0 IHl]; [reflexivity|exact IHl].
  Qed.

  (** ** from [eval_model] *)

  Definition comps_ok (t : term) : Prop :=
    forall c, In c t -> comp_ok extra D c /\ forall tc, set_type_comp cx D false c = Ok tc -> box_complete tc.

  (* every component of the effect and of the grouping factor is covered; the grouping factor has
     at least one component *)
  Definition group_ok (g : gterm) : Prop :=
    (forall t, gexpr g = CT t -> comps_ok t) /\
    (forall f, gfactor g = CT f -> f <> [] /\ comps_ok f).

  Definition model_ok_groups (m : model) : Prop := forall g, In g (groups m) -> group_ok g.

  Lemma typed_comps_of t : forall cs,
    comps_ok t -> mapM (set_type_comp cx D false) t = Ok cs -> Forall (typed_comp extra cx D) cs.
  Proof.
    intros cs Hcov Hcs. apply mapM_ok in Hcs.
    induction Hcs as [|c tc t cs Hc _ IH]; constructor.
    - destruct (Hcov c (or_introl eq_refl)) as [Hk Hb]. exists c. auto.
    - apply IH. intros c' Hin. apply Hcov. right; assumption.
  Qed.

  Lemma set_type_gterm_typed g tg :
    group_ok g -> set_type_gterm cx D g = Ok tg -> typed_gterm tg.
  Proof.
    intros [Hge Hgf] H. unfold set_type_gterm in H.
    destruct (gfactor g) as [| |f] eqn:Ef; try discriminate H.
    destruct (Hgf f eq_refl) as [Hne Hcf].
    apply bind_ok in H as (fs & Hfs & H). apply bind_ok in H as (e & He & H).
    apply bind_ok in H as (nm & _ & H). injection H as <-. unfold typed_gterm. cbn [tg_expr tg_factor].
    split.
    - destruct (gexpr g) as [| |t] eqn:Eg; try discriminate He.
      + injection He as <-. exact I.
      + unfold set_type_term in He. apply bind_ok in He as (cs & Hcs & He). injection He as <-. simpl.
        apply (typed_comps_of t); [apply Hge; reflexivity|exact Hcs].
    - exists fs. split; [apply (typed_comps_of f); assumption|]. split; [|reflexivity].
      pose proof (mapM_length _ _ _ Hfs) as L. destruct fs; [destruct f; [congruence|discriminate L]|discriminate].
  Qed.

  Lemma set_type_gterms_typed gs : forall tgs,
    (forall g, In g gs -> group_ok g) ->
    mapM (set_type_gterm cx D) gs = Ok tgs -> Forall typed_gterm tgs.
  Proof.
    intros tgs Hok H. apply mapM_ok in H.
    induction H as [|g tg gs tgs Hg _ IH]; constructor.
    - apply (set_type_gterm_typed g); [apply Hok; left; reflexivity|exact Hg].
    - apply IH. intros g' Hin. apply Hok. right; assumption.
  Qed.

  Theorem eval_model_trained_groups m ds :
    model_ok_groups m -> eval_model cx D m = Ok ds -> Forall trained_gterm (ds_group ds).
  Proof.
    intros Hok H. unfold eval_model in H. rewrite (n_rows : _ = _) in H.
    apply bind_ok in H as (tcs & _ & H). apply bind_ok in H as (tgs & Htgs & H).
    apply bind_ok in H as (enc1 & _ & H). apply bind_ok in H as (tcs2 & _ & H).
    apply bind_ok in H as (enc2 & _ & H). apply bind_ok in H as (dcs & _ & H).
    apply bind_ok in H as (dgs & Hdgs & H). apply bind_ok in H as (r & _ & H). injection H as <-.
    cbn [ds_group].
    pose proof (set_type_gterms_typed _ _ Hok Htgs) as T1.
    assert (T2 : Forall trained_gterm dgs).
    { apply mapM_ok in Hdgs.
      assert (Hp : Forall (fun p : tgterm * gterm => typed_gterm (fst p)) (combine tgs (groups m))).
      { apply Forall_forall. intros [tg g] Hin. apply in_combine_l in Hin.
        rewrite Forall_forall in T1. apply T1. exact Hin. }
      revert Hp.
      induction Hdgs as [|p dg ps dgs' Hd _ IH]; intros Hp; constructor.
      - exists (fst p), (group_spans (groups m) (snd p)). split; [exact (Forall_inv Hp)|exact Hd].
      - apply IH. exact (Forall_inv_tail Hp). }
    apply Forall_map. apply (fold_dict_set_Forall trained_gterm dg_name); [assumption|constructor].
  Qed.

End GSel.

(* ------------------------------------------------------------------------------------------ *)
(** * G1, instances *)

Lemma eval_model_nrows cx D m ds : eval_model cx D m = Ok ds -> ds_nrows ds = frame_rows D.
Proof.
  unfold eval_model. intros H.
  repeat (apply bind_ok in H as (? & _ & H)). injection H as <-. reflexivity.
Qed.

Lemma seln_pick_pos idx n i : In i idx -> i < n -> seln (sel_pick idx) n <> 0.
Proof.
  intros Hi Hn. unfold seln, sel_pick.
  assert (H : In tt (pick idx (repeat tt n))).
  { unfold pick. apply in_flat_map. exists i. split; [assumption|].
    rewrite (nth_error_nth' _ tt) by (rewrite repeat_length; assumption). left. destruct (nth i _ _); reflexivity. }
  destruct (pick idx (repeat tt n)); [contradiction|discriminate].
Qed.

(** G1, arbitrary rows (any order, repetitions; at least one row): *)
Theorem new_group_pick_gen extra cx idx D mode m ds :
  extra_allowed extra -> frame_wf D -> scalar_extras cx -> model_ok_groups extra cx D m ->
  seln (sel_pick idx) (frame_rows D) <> 0 ->
  eval_model cx D m = Ok ds ->
  new_group cx mode ds (frame_pick idx D)
  = Ok (NewGroup (pick idx (group_matrix ds)) (group_slices ds) [] false).
Proof.
  intros Hext Hwf Hex Hok Hne H.
  apply (new_group_sel (sel_pick idx) (fun S T f l => pick_map f idx l)
           (fun S T a b L => pick_combine idx a b L) (fun T x l => pick_In idx x l)
           extra Hext cx D (frame_rows D) eq_refl Hwf Hex (fun _ => Hne) Hne mode ds).
  - apply (eval_model_nrows _ _ _ _ H).
  - apply (eval_model_trained_groups extra cx D (frame_rows D) eq_refl m ds Hok H).
Qed.

Theorem new_group_pick cx idx D mode m ds :
  frame_wf D -> scalar_extras cx -> model_ok_groups [] cx D m ->
  (exists i, In i idx /\ i < frame_rows D) ->
  eval_model cx D m = Ok ds ->
  new_group cx mode ds (frame_pick idx D)
  = Ok (NewGroup (pick idx (group_matrix ds)) (group_slices ds) [] false).
Proof.
  intros Hwf Hex Hok (i & Hi & Hn) H.
  apply (new_group_pick_gen [] cx idx D mode m ds extra_nil_allowed Hwf Hex Hok); [|exact H].
  apply (seln_pick_pos idx _ i); assumption.
Qed.

(** G1, boolean mask (keeping at least one row): *)
Theorem new_group_select_gen extra cx keep D mode m ds :
  extra_allowed extra -> frame_wf D -> scalar_extras cx -> model_ok_groups extra cx D m ->
  seln (sel_mask keep) (frame_rows D) <> 0 ->
  eval_model cx D m = Ok ds ->
  new_group cx mode ds (frame_select keep D)
  = Ok (NewGroup (select keep (group_matrix ds)) (group_slices ds) [] false).
Proof.
  intros Hext Hwf Hex Hok Hne H.
  apply (new_group_sel (sel_mask keep) (fun S T f l => select_map f keep l)
           (fun S T a b _ => select_combine keep a b) (fun T x l => select_In keep x l)
           extra Hext cx D (frame_rows D) eq_refl Hwf Hex (fun _ => Hne) Hne mode ds).
  - apply (eval_model_nrows _ _ _ _ H).
  - apply (eval_model_trained_groups extra cx D (frame_rows D) eq_refl m ds Hok H).
Qed.

Theorem new_group_select cx keep D mode m ds :
  frame_wf D -> scalar_extras cx -> model_ok_groups [] cx D m ->
  List.length keep = frame_rows D -> count_true keep <> 0 ->
  eval_model cx D m = Ok ds ->
  new_group cx mode ds (frame_select keep D)
  = Ok (NewGroup (select keep (group_matrix ds)) (group_slices ds) [] false).
Proof.
  intros Hwf Hex Hok Hl Hc H.
  apply (new_group_select_gen [] cx keep D mode m ds extra_nil_allowed Hwf Hex Hok); [|exact H].
  rewrite <- Hl, seln_mask. exact Hc.
Qed.

(** G1 on [design_matrices] (nothing to drop, or "pass"): new data = rows of D itself. *)
Theorem design_new_group_pick_gen extra cx e D na m ds idx mode :
  extra_allowed extra ->
  describe e = Ok m -> frame_wf D -> frame_rows D <> 0 -> used_cols D m <> [] ->
  na = NaPass \/ existsb (fun b : bool => b) (incomplete_mask D m) = false ->
  scalar_extras cx -> model_ok_groups extra cx D m ->
  seln (sel_pick idx) (frame_rows D) <> 0 ->
  design_matrices cx e D na = Ok ds ->
  new_group cx mode ds (frame_pick idx D)
  = Ok (NewGroup (pick idx (group_matrix ds)) (group_slices ds) [] false).
Proof.
  intros Hext Hd Hwf Hn Hu Hna Hex Hok Hne H.
  destruct (design_matrices_eval_model cx e D m Hd Hwf Hn Hu) as [E _].
  rewrite (E na Hna) in H. apply (new_group_pick_gen extra cx idx D mode m ds); assumption.
Qed.

Theorem design_new_group_pick cx e D na m ds idx mode :
  describe e = Ok m -> frame_wf D -> frame_rows D <> 0 -> used_cols D m <> [] ->
  na = NaPass \/ existsb (fun b : bool => b) (incomplete_mask D m) = false ->
  scalar_extras cx -> model_ok_groups [] cx D m ->
  (exists i, In i idx /\ i < frame_rows D) ->
  design_matrices cx e D na = Ok ds ->
  new_group cx mode ds (frame_pick idx D)
  = Ok (NewGroup (pick idx (group_matrix ds)) (group_slices ds) [] false).
Proof.
  intros Hd Hwf Hn Hu Hna Hex Hok (i & Hi & Hlt) H.
  apply (design_new_group_pick_gen [] cx e D na m ds idx mode extra_nil_allowed Hd Hwf Hn Hu Hna Hex Hok);
    [|exact H].
  apply (seln_pick_pos idx _ i); assumption.
Qed.

Theorem design_new_group_select cx e D na m ds keep mode :
  describe e = Ok m -> frame_wf D -> frame_rows D <> 0 -> used_cols D m <> [] ->
  na = NaPass \/ existsb (fun b : bool => b) (incomplete_mask D m) = false ->
  scalar_extras cx -> model_ok_groups [] cx D m ->
  List.length keep = frame_rows D -> count_true keep <> 0 ->
  design_matrices cx e D na = Ok ds ->
  new_group cx mode ds (frame_select keep D)
  = Ok (NewGroup (select keep (group_matrix ds)) (group_slices ds) [] false).
Proof.
  intros Hd Hwf Hn Hu Hna Hex Hok Hl Hc H.
  destruct (design_matrices_eval_model cx e D m Hd Hwf Hn Hu) as [E _].
  rewrite (E na Hna) in H. apply (new_group_select cx keep D mode m ds); assumption.
Qed.

(** Under "drop" with incomplete rows: new data made of complete rows of D. *)
Theorem design_drop_new_group_pick cx e D m ds idx mode :
  describe e = Ok m -> frame_wf D -> frame_rows D <> 0 -> used_cols D m <> [] ->
  count_true (complete_mask D m) <> 0 ->
  scalar_extras cx -> model_ok_groups [] cx (frame_select (complete_mask D m) D) m ->
  (exists i, In i idx /\ i < count_true (complete_mask D m)) ->
  design_matrices cx e D NaDrop = Ok ds ->
  new_group cx mode ds (frame_pick idx (frame_select (complete_mask D m) D))
  = Ok (NewGroup (pick idx (group_matrix ds)) (group_slices ds) [] false).
Proof.
  intros Hd Hwf Hn Hu Hc Hex Hok (i & Hi & Hlt) H.
  destruct (design_matrices_eval_model cx e D m Hd Hwf Hn Hu) as [_ E].
  rewrite (E Hc) in H.
  pose proof (frame_rows_nonempty _ Hn) as Hne.
  pose proof (complete_mask_length _ m Hwf) as Hl.
  apply (new_group_pick cx idx _ mode m ds); try assumption.
  - apply frame_select_wf; assumption.
  - exists i. split; [assumption|]. rewrite (frame_select_rows _ _ Hwf Hne Hl). assumption.
Qed.

(* ------------------------------------------------------------------------------------------ *)
(** * G2. Training again on permuted rows, group-specific terms included *)

Lemma combine_map_l {A A' B} (f : A -> A') (a : list A) (b : list B) :
  combine (map f a) b = map (fun p => (f (fst p), snd p)) (combine a b).
Proof.
  revert b; induction a as [|x a IH]; intros [|y b]; simpl; try reflexivity. rewrite IH. reflexivity.
Qed.

Lemma fold_dict_set_map_gen {V} (key : V -> string) (g : V -> V) l :
  (forall t, key (g t) = key t) ->
  forall acc,
    fold_left (fun acc t => dict_set (key t) t acc) (map g l) (map (on_snd g) acc)
    = map (on_snd g) (fold_left (fun acc t => dict_set (key t) t acc) l acc).
Proof.
  intros Hn. induction l as [|t l IH]; intros acc; simpl; [reflexivity|].
  rewrite Hn, dict_set_map. apply IH.
Qed.

Section GRefit.
  Variable sel : forall T : Type, list T -> list T.
  Hypothesis sel_map : forall (S T : Type) (f : S -> T) (l : list S), sel T (map f l) = map f (sel S l).
  Hypothesis sel_combine : forall (S T : Type) (a : list S) (b : list T),
      List.length a = List.length b -> combine (sel S a) (sel T b) = sel (S * T) (combine a b).
  Hypothesis sel_In : forall (T : Type) (x : T) (l : list T), In x (sel T l) -> In x l.
  Variable extra : list string.
  Hypothesis extra_ok : forall c, In c extra -> In c spline_callees.
  Variable n : nat.
  Hypothesis sel_perm : forall (T : Type) (l : list T), List.length l = n -> Permutation (sel T l) l.
  Hypothesis extra_refit : extra_refit_ok sel n extra.
  Hypothesis no_bs : In "bs" extra -> seln sel n <> 0.
  Variable D : frame.
  Hypothesis D_rows : rows_eq D n.
  Hypothesis D_rect : rect n D.
  Hypothesis D_unord : frame_unordered D.
  Variable ex : list (string * pyval).
  Hypothesis ex_scalar : forall k v, assoc k ex = Some v -> is_scalar v = true.
  Variable sq : Qc -> Qc.

  Let cx : dctx := DCtx ex sq.

  Notation tsel := (tcomp_sel sel).
  Notation dsel := (dcomp_sel sel).
  Notation safe := (comp_safe extra).

  Definition tgterm_sel (tg : tgterm) : tgterm :=
    TG (tg_name tg) (tterm_sel sel (tg_expr tg)) (map tsel (tg_factor tg)) (tg_factor_name tg).

  Definition dgterm_sel (dg : dgterm) : dgterm :=
    DG (dg_name dg) (dg_kind dg) (dterm_sel sel (dg_expr dg)) (map dsel (dg_factor dg)) (dg_groups dg)
       (sel _ (dg_rows dg)) (dg_labels dg) (dg_factor_name dg).

  Definition design_sel_groups (ds : design) : design :=
    Design (seln sel n) (option_map (dterm_sel sel) (ds_response ds)) (map (dterm_sel sel) (ds_common ds))
           (map dgterm_sel (ds_group ds)).

  Definition good_gterm (tg : tgterm) : Prop :=
    good_term n (tg_expr tg) /\ Forall (fun c => good n (tc_value c)) (tg_factor tg).

  Definition gsafe (g : gterm) : Prop :=
    (forall t, gexpr g = CT t -> Forall safe t) /\ (forall f, gfactor g = CT f -> Forall safe f).

  Lemma set_type_comps_refit r t : forall cs,
    Forall safe t -> mapM (set_type_comp cx D r) t = Ok cs ->
    mapM (set_type_comp cx (frame_sel sel D) r) t = Ok (map tsel cs) /\
    Forall (fun c => good n (tc_value c)) cs.
  Proof.
    intros cs Hs H.
    apply (mapM_transport (set_type_comp cx D r) (set_type_comp cx (frame_sel sel D) r) tsel
                          (fun c => good n (tc_value c)) t cs); [|exact H].
    intros c tc Hin Hc. rewrite Forall_forall in Hs. specialize (Hs c Hin). split.
    - apply (set_type_comp_refit sel sel_map sel_combine sel_In extra extra_ok n sel_perm extra_refit no_bs
                                 D D_rect D_unord ex ex_scalar sq r c tc); [destruct c; exact Hs|exact Hc].
    - apply (set_type_comp_good sel sel_map sel_combine sel_In extra extra_ok n no_bs
                                D D_rect D_unord ex ex_scalar sq r c tc Hs Hc).
  Qed.

  Lemma set_type_gterm_refit g tg :
    gsafe g -> set_type_gterm cx D g = Ok tg ->
    set_type_gterm cx (frame_sel sel D) g = Ok (tgterm_sel tg) /\ good_gterm tg.
  Proof.
    intros [Hse Hsf] H. unfold set_type_gterm in *.
    destruct (gfactor g) as [| |f] eqn:Ef; try discriminate H.
    apply bind_ok in H as (fs & Hfs & H). apply bind_ok in H as (e & He & H).
    apply bind_ok in H as (nm & Hnm & H). injection H as <-.
    destruct (set_type_comps_refit false f fs (Hsf f eq_refl) Hfs) as [Hfs' Gfs].
    rewrite Hfs'. cbn [bind].
    assert (He' : match gexpr g with
                  | CI => Ok TTIntercept
                  | CT t => set_type_term cx (frame_sel sel D) false t
                  | CN => Err EValue end = Ok (tterm_sel sel e) /\ good_term n e).
    { destruct (gexpr g) as [| |t] eqn:Eg; try discriminate He.
      - injection He as <-. split; [reflexivity|exact I].
      - apply (set_type_term_refit sel sel_map sel_combine sel_In extra extra_ok n sel_perm extra_refit no_bs
                                   D D_rect D_unord ex ex_scalar sq false t e (Hse t eq_refl) He). }
    destruct He' as [He' Ge]. rewrite He'. cbn [bind]. rewrite Hnm. cbn [bind].
    split.
    - unfold tgterm_sel. cbn [tg_name tg_expr tg_factor tg_factor_name]. f_equal. f_equal.
      rewrite !map_map. apply map_ext. intros c. reflexivity.
    - split; [exact Ge|]. cbn [tg_factor]. apply Forall_map. exact Gfs.
  Qed.

  Lemma set_data_comps_length (f : tcomp -> bool) cs ds :
    Forall (fun c => good n (tc_value c)) cs ->
    Forall2 (fun c d => set_data_comp c (f c) n = Ok d) cs ds ->
    Forall (fun d => List.length (dc_rows d) = n) ds.
  Proof.
    intros Hg H. induction H as [|c d cs ds Hc _ IH]; constructor.
    - apply (set_data_comp_length n sq c (f c) d (Forall_inv Hg) Hc).
    - apply IH. exact (Forall_inv_tail Hg).
  Qed.

  Lemma set_data_term_length tt s dt :
    good_term n tt -> set_data_term n tt s = Ok dt -> List.length (dt_rows dt) = n.
  Proof.
    intros Hg H. destruct tt as [|name cs].
    - simpl in H. injection H as <-. apply repeat_length.
    - destruct (set_data_term_inv _ _ _ _ _ H) as (d0 & rest & Hds & _ & -> & _).
      apply mapM_ok in Hds. pose proof (set_data_comps_length _ _ _ Hg Hds) as L.
      apply fold_rows_kron_length; [exact (Forall_inv L)|]. apply Forall_map. exact (Forall_inv_tail L).
  Qed.

  Lemma factor_rows_sel fs :
    Forall (fun d => List.length (dc_rows d) = n) fs ->
    factor_rows (map dsel fs) = sel _ (factor_rows fs) /\
    (fs <> [] -> List.length (factor_rows fs) = n).
  Proof.
    intros L. destruct fs as [|d rest].
    - simpl. split; [symmetry; apply (sel_nil sel sel_In)|congruence].
    - cbn [map factor_rows dcomp_sel dc_rows].
      destruct (fold_rows_kron_sel sel sel_map sel_combine extra n no_bs (map dc_rows rest) (dc_rows d))
        as [Hf Hl].
      + exact (Forall_inv L).
      + apply Forall_map. exact (Forall_inv_tail L).
      + split; [|intros _; exact Hl]. rewrite <- Hf, !map_map. reflexivity.
  Qed.

  Lemma set_data_gterm_refit tg spans dg :
    good_gterm tg -> set_data_gterm n tg spans = Ok dg ->
    set_data_gterm (seln sel n) (tgterm_sel tg) spans = Ok (dgterm_sel dg).
  Proof.
    intros [Ge Gf] H. unfold set_data_gterm in *. cbn [tgterm_sel tg_expr tg_factor tg_name tg_factor_name].
    apply bind_ok in H as (e & He & H). apply bind_ok in H as (fs & Hfs & H).
    apply bind_ok in H as (glabs & Hgl & H). apply bind_ok in H as (flabs & Hfl & H).
    apply bind_ok in H as (levels & Hlev & H). injection H as <-.
    rewrite (set_data_term_refit sel sel_map sel_combine sel_In extra n sel_perm no_bs sq _ _ _ Ge He).
    cbn [bind]. rewrite mapM_map.
    destruct (mapM_transport (fun c => set_data_comp c true n)
                             (fun c => set_data_comp (tsel c) true (seln sel n))
                             dsel (fun d => List.length (dc_rows d) = n) (tg_factor tg) fs) as [Hfs' Lf];
      [|exact Hfs|].
    { intros c d Hin Hc. rewrite Forall_forall in Gf. specialize (Gf c Hin). split.
      - apply (set_data_comp_refit sel sel_map sel_In n sel_perm c true d Gf Hc).
      - apply (set_data_comp_length n sq c true d Gf Hc). }
    rewrite Hfs'. cbn [bind]. rewrite !mapM_map. cbn [dcomp_sel dc_contrast dc_labels].
    rewrite Hgl, Hfl. cbn [bind]. cbn [dterm_sel dt_kind dt_labels]. rewrite Hlev. cbn [bind].
    unfold dgterm_sel. cbn [dg_name dg_kind dg_expr dg_factor dg_groups dg_rows dg_labels dg_factor_name dt_rows].
    f_equal. f_equal.
    destruct (factor_rows_sel fs Lf) as [Hfr Hfl'].
    rewrite Hfr. destruct fs as [|d0 rest].
    - cbn [factor_rows]. rewrite (sel_nil sel sel_In). unfold rows_kron. cbn.
      symmetry. apply (sel_nil sel sel_In).
    - apply (rows_kron_sel sel sel_map sel_combine).
      rewrite (Hfl' ltac:(discriminate)). symmetry. apply (set_data_term_length _ _ _ Ge He).
  Qed.

  (** The whole design, group-specific terms included. *)
  Theorem eval_model_refit_groups m ds :
    (forall t, In (CT t) (commons m) -> Forall safe t) ->
    (forall t, resp m = Some t -> Forall safe t) ->
    (forall g, In g (groups m) -> gsafe g) ->
    eval_model cx D m = Ok ds ->
    eval_model cx (frame_sel sel D) m = Ok (design_sel_groups ds).
  Proof.
    intros Hcs Hrs Hgs H. unfold eval_model in *.
    rewrite (frame_rows_sel sel sel_map sel_In), (D_rows : _ = _) in *.
    apply bind_ok in H as (tcs & Htcs & H). apply bind_ok in H as (tgs & Htgs & H).
    apply bind_ok in H as (enc1 & Henc1 & H).
    apply bind_ok in H as (tcs2 & Htcs2 & H). apply bind_ok in H as (enc2 & Henc2 & H).
    apply bind_ok in H as (dcs & Hdcs & H). apply bind_ok in H as (dgs & Hdgs & H).
    apply bind_ok in H as (r & Hr & H). injection H as <-.
    (* typing *)
    destruct (mapM_transport (type_common cx D) (type_common cx (frame_sel sel D))
                             (tterm_sel sel) (good_term n) (commons m) tcs) as [Htcs' Gtcs]; [|exact Htcs|].
    { intros c tt Hin Hc.
      apply (type_common_refit sel sel_map sel_combine sel_In extra extra_ok n sel_perm extra_refit no_bs
                               D D_rect D_unord ex ex_scalar sq c tt); [|exact Hc].
      intros t ->. apply Hcs. exact Hin. }
    rewrite Htcs'. cbn [bind].
    destruct (mapM_transport (set_type_gterm cx D) (set_type_gterm cx (frame_sel sel D))
                             tgterm_sel good_gterm (groups m) tgs) as [Htgs' Gtgs]; [|exact Htgs|].
    { intros g tg Hin Hg. apply set_type_gterm_refit; [apply Hgs; exact Hin|exact Hg]. }
    rewrite Htgs'. cbn [bind].
    rewrite map_map. rewrite (map_ext _ term_kind_info (term_kind_info_sel sel)). rewrite Henc1. cbn [bind].
    rewrite (add_extra_terms_sel sel cx cx D (frame_sel sel D)), Htcs2. cbn [bind].
    rewrite map_map. rewrite (map_ext _ term_kind_info (term_kind_info_sel sel)). rewrite Henc2. cbn [bind].
    pose proof (add_extra_terms_good n _ _ _ _ _ Gtcs Htcs2) as Gtcs2.
    (* coding: common terms *)
    rewrite mapM_map.
    destruct (mapM_transport (fun t => do s <- common_spans enc2 t; set_data_term n t s)
                             (fun t => do s <- common_spans enc2 (tterm_sel sel t);
                                       set_data_term (seln sel n) (tterm_sel sel t) s)
                             (dterm_sel sel) (fun _ => True) tcs2 dcs) as [Hdcs' _]; [|exact Hdcs|].
    { intros tt dt Hin Hd. split; [|exact I]. rewrite common_spans_sel.
      apply bind_ok in Hd as (s & Hs & Hd). rewrite Hs. cbn [bind].
      apply (set_data_term_refit sel sel_map sel_combine sel_In extra n sel_perm no_bs sq); [|exact Hd].
      rewrite Forall_forall in Gtcs2. apply Gtcs2. exact Hin. }
    rewrite Hdcs'. cbn [bind].
    (* coding: group-specific terms *)
    rewrite combine_map_l, mapM_map. cbn [fst snd].
    destruct (mapM_transport (fun p : tgterm * gterm => set_data_gterm n (fst p) (group_spans (groups m) (snd p)))
                             (fun p : tgterm * gterm =>
                                set_data_gterm (seln sel n) (tgterm_sel (fst p)) (group_spans (groups m) (snd p)))
                             dgterm_sel (fun _ => True) (combine tgs (groups m)) dgs) as [Hdgs' _];
      [|exact Hdgs|].
    { intros [tg g] dg Hin Hd. split; [|exact I]. cbn [fst snd] in *.
      apply set_data_gterm_refit; [|exact Hd]. apply in_combine_l in Hin.
      rewrite Forall_forall in Gtgs. apply Gtgs. exact Hin. }
    rewrite Hdgs'. cbn [bind].
    (* response *)
    assert (Hr' : match resp m with
                  | None => Ok None
                  | Some t => do ty <- set_type_term cx (frame_sel sel D) true t;
                              do d <- set_data_term (seln sel n) ty (SpBool true); Ok (Some d)
                  end = Ok (option_map (dterm_sel sel) r)).
    { destruct (resp m) as [t|] eqn:Er.
      - apply bind_ok in Hr as (ty & Hty & Hr). apply bind_ok in Hr as (d & Hd & Hr). injection Hr as <-.
        destruct (set_type_term_refit sel sel_map sel_combine sel_In extra extra_ok n sel_perm extra_refit no_bs
                                      D D_rect D_unord ex ex_scalar sq true t ty (Hrs t eq_refl) Hty) as [Hty' Gty].
        unfold cx. rewrite Hty'. cbn [bind].
        rewrite (set_data_term_refit sel sel_map sel_combine sel_In extra n sel_perm no_bs sq ty (SpBool true) d Gty Hd).
        reflexivity.
      - injection Hr as <-. reflexivity. }
    rewrite Hr'. cbn [bind]. unfold design_sel_groups. cbn [ds_nrows ds_response ds_common ds_group].
    f_equal. f_equal.
    - pose proof (fold_dict_set_map_gen dt_name (dterm_sel sel) dcs (fun t => eq_refl) []) as F. cbn [map] in F.
      rewrite F, !map_map. reflexivity.
    - pose proof (fold_dict_set_map_gen dg_name dgterm_sel dgs (fun t => eq_refl) []) as F. cbn [map] in F.
      rewrite F, !map_map. reflexivity.
  Qed.

End GRefit.

(** ** G2, instance: a permutation of the row numbers *)

(** Training on the frame with its rows permuted gives the same design -- common terms, response
    and group-specific terms -- with the rows of every matrix permuted and nothing else changed.
    General form: [extra] lists the additional stateful callees (bs, poly) for which
    [extra_refit_ok] holds; PermSpline.v discharges it. *)
Theorem perm_rows_groups_gen extra idx D ex sq m ds :
  extra_allowed extra ->
  extra_refit_ok (sel_pick idx) (frame_rows D) extra ->
  (In "bs" extra -> frame_rows D <> 0) ->
  frame_wf D -> frame_unordered D ->
  (forall k w, assoc k ex = Some w -> is_scalar w = true) ->
  Permutation idx (seq 0 (frame_rows D)) ->
  (forall t, In (CT t) (commons m) -> Forall (comp_safe extra) t) ->
  (forall t, resp m = Some t -> Forall (comp_safe extra) t) ->
  (forall g, In g (groups m) -> gsafe extra g) ->
  eval_model (DCtx ex sq) D m = Ok ds ->
  eval_model (DCtx ex sq) (frame_pick idx D) m = Ok (design_sel_groups (sel_pick idx) (frame_rows D) ds) /\
  ds_nrows (design_sel_groups (sel_pick idx) (frame_rows D) ds) = frame_rows D.
Proof.
  intros Hext Hrefit Hbs Hwf Hun Hex P Hcs Hrs Hgs H.
  pose (HP := fun (T : Type) (l : list T) (L : List.length l = frame_rows D) =>
                pick_perm idx l (eq_ind_r (fun k => Permutation idx (seq 0 k)) P L)).
  split.
  - apply (eval_model_refit_groups (sel_pick idx) (fun S T f l => pick_map f idx l)
             (fun S T a b L => pick_combine idx a b L) (fun T x l => pick_In idx x l)
             extra Hext (frame_rows D) HP Hrefit
             (fun Hb => eq_ind_r (fun k => k <> 0) (Hbs Hb) (seln_pick_perm idx _ P))
             D eq_refl Hwf Hun ex Hex sq m ds Hcs Hrs Hgs H).
  - apply (seln_pick_perm idx _ P).
Qed.

Theorem perm_rows_groups idx D ex sq m ds :
  frame_wf D -> frame_unordered D ->
  (forall k w, assoc k ex = Some w -> is_scalar w = true) ->
  Permutation idx (seq 0 (frame_rows D)) ->
  (forall t, In (CT t) (commons m) -> Forall (comp_safe []) t) ->
  (forall t, resp m = Some t -> Forall (comp_safe []) t) ->
  (forall g, In g (groups m) -> gsafe [] g) ->
  eval_model (DCtx ex sq) D m = Ok ds ->
  eval_model (DCtx ex sq) (frame_pick idx D) m = Ok (design_sel_groups (sel_pick idx) (frame_rows D) ds) /\
  ds_nrows (design_sel_groups (sel_pick idx) (frame_rows D) ds) = frame_rows D.
Proof.
  apply (perm_rows_groups_gen [] idx D ex sq m ds extra_nil_allowed (extra_refit_nil _ _) (no_bs_nil _)).
Qed.

(* what [design_sel_groups] leaves alone and what it permutes *)
Lemma design_sel_groups_spec idx n ds :
  let ds' := design_sel_groups (sel_pick idx) n ds in
  map dt_name (ds_common ds') = map dt_name (ds_common ds) /\
  map dt_kind (ds_common ds') = map dt_kind (ds_common ds) /\
  map dt_labels (ds_common ds') = map dt_labels (ds_common ds) /\
  map dt_rows (ds_common ds') = map (pick idx) (map dt_rows (ds_common ds)) /\
  map dg_name (ds_group ds') = map dg_name (ds_group ds) /\
  map dg_kind (ds_group ds') = map dg_kind (ds_group ds) /\
  map dg_groups (ds_group ds') = map dg_groups (ds_group ds) /\
  map dg_labels (ds_group ds') = map dg_labels (ds_group ds) /\
  map dg_factor_name (ds_group ds') = map dg_factor_name (ds_group ds) /\
  map dg_rows (ds_group ds') = map (pick idx) (map dg_rows (ds_group ds)) /\
  map (fun g => map dc_levels (dg_factor g)) (ds_group ds')
  = map (fun g => map dc_levels (dg_factor g)) (ds_group ds) /\
  map (fun g => map dc_contrast (dg_factor g)) (ds_group ds')
  = map (fun g => map dc_contrast (dg_factor g)) (ds_group ds) /\
  option_map dt_rows (ds_response ds') = option_map (pick idx) (option_map dt_rows (ds_response ds)) /\
  option_map dt_labels (ds_response ds') = option_map dt_labels (ds_response ds).
Proof.
  cbv zeta. unfold design_sel_groups. cbn [ds_common ds_group ds_response]. rewrite !map_map.
  repeat split; try reflexivity.
  - apply map_ext. intros g. cbn [dgterm_sel dg_factor]. rewrite map_map. reflexivity.
  - apply map_ext. intros g. cbn [dgterm_sel dg_factor]. rewrite map_map. reflexivity.
  - destruct (ds_response ds); reflexivity.
  - destruct (ds_response ds); reflexivity.
Qed.

(** The statement left open in Prediction.v. *)
Theorem perm_rows_full_statement_proved : perm_rows_full_statement.
Proof.
  intros idx D ex sq m ds Hwf Hun Hex P Hcs Hrs Hgs H.
  destruct (perm_rows_groups idx D ex sq m ds Hwf Hun Hex P Hcs Hrs) as [E _]; [|exact H|].
  - intros g Hg. split; intros t Ht; apply (Hgs g t Hg); auto.
  - eexists. split; [exact E|].
    destruct (design_sel_groups_spec idx (frame_rows D) ds)
      as (_ & _ & A & B & _ & _ & G & L & _ & R & _).
    cbv zeta in *. auto.
Qed.
