(* The whole front end on formula TEXTS (property C01): [front_end s] = scanner then parser, the function
   the driver runs for "parse" commands ([Driver.parse_string]).

   1. [front_end_iff]         accepted texts = separated renderings of well-formed lexeme lists whose token
                              list (implicit intercept inserted as the scanner does) is derivable in the
                              grammar of Spec/Grammar.v, and the tree is THE tree of the grammar;
   2. [front_end_whitespace]  texts that differ only in the whitespace between tokens get the same answer;
   3. [front_end_trichotomy]  every text is accepted, or is a scan error, or is a parse error, exclusively,
                              with the exact condition of each class and the exact error codes;
   4. [law_*]                 precedence / associativity laws for ALL identifier strings.

   Builds on ScannerProofs (scanner = inverse of rendering), ParserSound/ParserComplete (parser = grammar)
   and FrontEnd (first composition). *)
From Verif Require Import Base Tokens Scanner Parser Grammar ParserSound ParserComplete ScannerProofs Driver FrontEnd.
From Coq Require Import Lia.
Local Close Scope Qc_scope.
Local Close Scope Q_scope.
Local Open Scope string_scope.

(* ------------------------------------------------------------------------------------------ *)
(** * Vocabulary *)

(** the front end of the model: what the driver runs for a "parse" command *)
Definition front_end (s : string) : res expr := parse_string s.

Lemma front_end_unfold s : front_end s = (do ts <- scan s; parse ts).
Proof. reflexivity. Qed.

(** a list of lexemes (tokens with their source text and literal value) is well formed when each one is a
    lexeme of the scanner's alphabet ([ScannerProofs.wf_tok], decided by [wf_lexeme]) *)
Definition WellFormed (ls : list token) : Prop := forallb wf_lexeme ls = true.

(** [s] is the text [w0 l1 w1 ... ln wn]: the lexemes of [ls] interleaved with the whitespace strings [ws];
    a gap may be empty only where the next characters cannot extend the token before it ([separated]) *)
Definition Rendering (s : string) (ls : list token) (ws : list chars) : Prop :=
  chars_of s = render ls ws /\ valid_ws ls ws /\ separated ls ws = true.

Definition Renders (s : string) (ls : list token) : Prop := exists ws, Rendering s ls ws.

(** the token list the parser sees, without the end marker: the implicit intercept "1 +" goes in front when
    there is no "~", right after the "~" otherwise *)
Definition with_intercept (ls : list token) : list token :=
  if (tilde_count ls =? 0)%nat then one_tok :: plus_tok :: ls else insert_after_tilde ls.

(** texts with two or more "~" are refused by the scanner *)
Definition OneTilde (ls : list token) : Prop := (tilde_count ls <= 1)%nat.

(* ------------------------------------------------------------------------------------------ *)
(** * The scanner on texts *)

Lemma chars_of_nil s : chars_of s = [] <-> s = "".
Proof. destruct s; cbn; split; congruence. Qed.

Lemma chars_of_app a b : chars_of (a ++ b) = (chars_of a ++ chars_of b)%list.
Proof. unfold chars_of. induction a as [|c a IH]; cbn; [reflexivity | now rewrite IH]. Qed.

Lemma scan_unfold s :
  scan s = if String.eqb s "" then Err EScan
           else do ls <- scan_loop (List.length (chars_of s)) (chars_of s); finish true ls.
Proof.
  unfold scan. fold (chars_of s). destruct s as [|c s]; [reflexivity|].
  cbn [String.eqb]. apply scan_chars_finish. discriminate.
Qed.

Lemma finish_one_tilde ls : OneTilde ls -> finish true ls = Ok (with_intercept ls ++ [eof_tok])%list.
Proof.
  unfold OneTilde, with_intercept. intros H. rewrite finish_spec.
  destruct (Nat.ltb_spec 1 (tilde_count ls)); [lia|].
  destruct (tilde_count ls =? 0)%nat; reflexivity.
Qed.

Lemma finish_two_tildes b ls : ~ OneTilde ls -> finish b ls = Err EScan.
Proof.
  unfold OneTilde. intros H. rewrite finish_spec.
  destruct (Nat.ltb_spec 1 (tilde_count ls)); [reflexivity | lia].
Qed.

Lemma finish_ok_inv ls toks :
  finish true ls = Ok toks -> OneTilde ls /\ toks = (with_intercept ls ++ [eof_tok])%list.
Proof.
  intros H. destruct (le_lt_dec (tilde_count ls) 1) as [Hle|Hgt].
  - split; [exact Hle|]. rewrite finish_one_tilde in H by exact Hle. congruence.
  - rewrite finish_two_tildes in H; [discriminate | unfold OneTilde; lia].
Qed.

(** the scanner inverts rendering: the lexeme list of a text is unique *)
Lemma renders_scan_loop s ls :
  WellFormed ls -> Renders s ls -> scan_loop (List.length (chars_of s)) (chars_of s) = Ok ls.
Proof.
  intros Hwf (ws & Hr & Hws & Hsep). apply scan_loop_iff. exists ws. split; [exact Hwf|]. split; [exact Hws|]. split; [exact Hsep | exact Hr].
Qed.

Lemma scan_loop_renders s ls :
  scan_loop (List.length (chars_of s)) (chars_of s) = Ok ls -> WellFormed ls /\ Renders s ls.
Proof.
  intros H. apply scan_loop_iff in H as (ws & Hwf & Hws & Hsep & Hr).
  split; [exact Hwf|]. exists ws. split; [exact Hr|]. split; [exact Hws | exact Hsep].
Qed.

Theorem lexemes_unique s ls1 ls2 :
  WellFormed ls1 -> Renders s ls1 -> WellFormed ls2 -> Renders s ls2 -> ls1 = ls2.
Proof.
  intros W1 R1 W2 R2. apply renders_scan_loop in R1; [|exact W1]. apply renders_scan_loop in R2; [|exact W2].
  congruence.
Qed.

(** a text has a lexeme list, or the token loop fails: decidable, by running the scanner *)
Lemma renders_dec s :
  {ls | WellFormed ls /\ Renders s ls} + {forall ls, WellFormed ls -> ~ Renders s ls}.
Proof.
  destruct (scan_loop (List.length (chars_of s)) (chars_of s)) as [ls|x] eqn:E.
  - left. exists ls. now apply scan_loop_renders.
  - right. intros ls W R. rewrite (renders_scan_loop s ls W R) in E. discriminate.
Qed.

Lemma renders_empty_text ls : WellFormed ls -> Renders "" ls -> ls = [].
Proof.
  intros W (ws & Hr & Hws & _). destruct ls as [|t ls]; [reflexivity|]. exfalso.
  cbn [WellFormed forallb] in W. unfold WellFormed in W. cbn [forallb] in W.
  apply andb_true_iff in W as [Ht _]. apply (render_nonempty t ls ws Ht Hws). now rewrite <- Hr.
Qed.

(** what the scanner answers on a rendering *)
Theorem scan_rendering s ls :
  WellFormed ls -> Renders s ls -> s <> "" ->
  scan s = if le_lt_dec (tilde_count ls) 1 then Ok (with_intercept ls ++ [eof_tok])%list else Err EScan.
Proof.
  intros W R Hne. rewrite scan_unfold. destruct (String.eqb_spec s ""); [contradiction|].
  rewrite (renders_scan_loop s ls W R). cbn [bind].
  destruct (le_lt_dec (tilde_count ls) 1).
  - now apply finish_one_tilde.
  - apply finish_two_tildes. unfold OneTilde. lia.
Qed.

(** scan errors are of two kinds only; the fuel is never exhausted *)
Lemma scan_loop_errors f : forall cs x, scan_loop f cs = Err x -> x = EScan \/ x = EIndex \/ x = OutOfFuel.
Proof.
  induction f as [|f IH]; intros [|c rest] x H; cbn [scan_loop] in H; try discriminate.
  - inversion H. auto.
  - destruct (scan_token c rest) as [[ot r]|y] eqn:Et; cbn [bind] in H.
    + destruct (scan_loop f r) as [ts|y] eqn:El; cbn [bind] in H; [discriminate|].
      inversion H; subst. eapply IH; eauto.
    + inversion H; subst. apply scan_token_errors in Et. tauto.
Qed.

Theorem scan_error_kinds s x : scan s = Err x -> x = EScan \/ x = EIndex.
Proof.
  rewrite scan_unfold. destruct (String.eqb s ""); [intros H; inversion H; auto|].
  destruct (scan_loop _ _) as [ls|y] eqn:El; cbn [bind].
  - rewrite finish_spec. destruct (_ <? _)%nat; [intros H; inversion H; auto|].
    destruct (_ =? _)%nat; discriminate.
  - intros H. inversion H; subst. pose proof (scan_fuel_enough (chars_of s)) as Hf.
    destruct (scan_loop_errors _ _ _ El) as [?|[?|?]]; auto. subst. contradiction.
Qed.

(* ------------------------------------------------------------------------------------------ *)
(** * Scanner output and the grammar: the end marker *)

Lemma wf_lexeme_not_eof t : wf_lexeme t = true -> tkind t <> EOF.
Proof. unfold wf_lexeme. intros H E. rewrite E in H. discriminate. Qed.

Lemma wellformed_no_eof ls : WellFormed ls -> no_eof ls.
Proof.
  unfold WellFormed, no_eof. induction ls as [|t ls IH]; cbn [forallb]; intros H; constructor.
  - apply andb_true_iff in H as [Ht _]. now apply wf_lexeme_not_eof.
  - apply andb_true_iff in H as [_ H]. now apply IH.
Qed.

Lemma insert_after_tilde_no_eof ls : no_eof ls -> no_eof (insert_after_tilde ls).
Proof.
  unfold no_eof. induction 1 as [|t ls Ht Hls IH]; cbn [insert_after_tilde]; [constructor|].
  destruct (is_tilde t); repeat constructor; auto; cbn; discriminate.
Qed.

Lemma with_intercept_no_eof ls : WellFormed ls -> no_eof (with_intercept ls).
Proof.
  intros W. apply wellformed_no_eof in W. unfold with_intercept. destruct (_ =? _)%nat.
  - repeat constructor; try (cbn; discriminate). exact W.
  - now apply insert_after_tilde_no_eof.
Qed.

Lemma no_eof_split l1 : forall a r1 l2 b r2,
  no_eof l1 -> no_eof l2 -> tkind a = EOF -> tkind b = EOF ->
  (l1 ++ a :: r1 = l2 ++ b :: r2)%list -> l1 = l2.
Proof.
  unfold no_eof. induction l1 as [|x l1 IH]; intros a r1 [|y l2] b r2 H1 H2 Ha Hb E; cbn [app] in E.
  - reflexivity.
  - inversion E; subst. inversion H2; subst. contradiction.
  - inversion E; subst. inversion H1; subst. contradiction.
  - inversion E; subst. f_equal.
    apply (IH a r1 l2 b r2); auto; eapply Forall_inv_tail; eauto.
Qed.

(** with the end marker appended, "sentence" means: the tokens in front of the marker are derivable *)
Lemma sentence_eof X e : no_eof X -> (Sentence (X ++ [eof_tok]) e <-> DExpr X e).
Proof.
  intros HX. split.
  - intros (body & rest & Heq & Hend & HD). pose proof (DExpr_no_eof _ _ HD) as Hb.
    destruct rest as [|r0 rest].
    + rewrite app_nil_r in Heq. subst body. unfold no_eof in Hb. apply Forall_app in Hb as [_ Hb].
      inversion Hb; subst. exfalso. auto.
    + cbn [at_end] in Hend. apply kind_eqb_eq in Hend.
      assert (X = body) by exact (no_eof_split X eof_tok [] body r0 rest HX Hb eq_refl Hend Heq). now subst.
  - intros HD. exists X, [eof_tok]. auto.
Qed.

Lemma not_derivable_intercept_alone e : ~ DExpr [one_tok; plus_tok] e.
Proof.
  intros HD. assert (H : parse [one_tok; plus_tok; eof_tok] = Ok e).
  { apply parse_iff. exists [one_tok; plus_tok], [eof_tok]. auto. }
  vm_compute in H. discriminate.
Qed.

(* ------------------------------------------------------------------------------------------ *)
(** * 1. Accepted texts = renderings of grammatical token lists *)

(** the front end on a rendering: the parser applied to the lexemes with the intercept and the end marker *)
Theorem front_end_rendering s ls :
  WellFormed ls -> Renders s ls -> s <> "" -> OneTilde ls ->
  front_end s = parse (with_intercept ls ++ [eof_tok]).
Proof.
  intros W R Hne H1. rewrite front_end_unfold, (scan_rendering s ls W R Hne).
  destruct (le_lt_dec (tilde_count ls) 1); [reflexivity | unfold OneTilde in H1; lia].
Qed.

Theorem front_end_iff s e :
  front_end s = Ok e <->
  exists ls, WellFormed ls /\ Renders s ls /\ OneTilde ls /\ DExpr (with_intercept ls) e.
Proof.
  split.
  - intros H. apply parse_string_iff in H as (ls & ws & toks & Hr & _ & Hwf & Hws & Hsep & Hfin & Hsent).
    apply finish_ok_inv in Hfin as (H1 & ->). exists ls.
    split; [exact Hwf|]. split; [exists ws; split; [exact Hr | split; assumption]|]. split; [exact H1|].
    apply sentence_eof; [now apply with_intercept_no_eof | exact Hsent].
  - intros (ls & W & R & H1 & HD).
    assert (Hne : s <> "").
    { intros ->. rewrite (renders_empty_text ls W R) in HD. now apply not_derivable_intercept_alone in HD. }
    rewrite (front_end_rendering s ls W R Hne H1). apply parse_iff.
    apply sentence_eof; [now apply with_intercept_no_eof | exact HD].
Qed.

(** the tree is THE tree of the grammar: whatever lexeme list and whatever derivation one finds for the text,
    it is the one the front end returns *)
Theorem front_end_tree_unique s e ls e' :
  front_end s = Ok e ->
  WellFormed ls -> Renders s ls -> DExpr (with_intercept ls) e' -> e' = e.
Proof.
  intros H W R HD. apply front_end_iff in H as (ls0 & W0 & R0 & _ & HD0).
  rewrite (lexemes_unique s ls ls0 W R W0 R0) in HD. eapply grammar_unambiguous; eauto.
Qed.

(* ------------------------------------------------------------------------------------------ *)
(** * 2. Whitespace between tokens never matters *)

Theorem front_end_whitespace s s' ls :
  WellFormed ls -> ls <> [] -> Renders s ls -> Renders s' ls -> front_end s = front_end s'.
Proof.
  intros W Hne R R'.
  assert (Hs : forall t, Renders t ls -> t <> "").
  { intros t Rt ->. now apply renders_empty_text in Rt. }
  rewrite !front_end_unfold, (scan_rendering s ls W R (Hs s R)), (scan_rendering s' ls W R' (Hs s' R')).
  reflexivity.
Qed.

Lemma same_ok_same_err {A} (r r' : res A) :
  (forall a, r = Ok a <-> r' = Ok a) -> ((exists x, r = Err x) <-> (exists x, r' = Err x)).
Proof.
  intros H. destruct r as [a|x], r' as [a'|x'].
  - split; intros (y & Hy); discriminate.
  - pose proof (proj1 (H a) eq_refl). discriminate.
  - pose proof (proj2 (H a') eq_refl). discriminate.
  - split; eauto.
Qed.

(** without the side condition: same tree, or both refused *)
Theorem front_end_whitespace_gen s s' ls :
  WellFormed ls -> Renders s ls -> Renders s' ls ->
  (forall e, front_end s = Ok e <-> front_end s' = Ok e) /\
  ((exists x, front_end s = Err x) <-> (exists x, front_end s' = Err x)).
Proof.
  intros W R R'.
  assert (A : forall e, front_end s = Ok e <-> front_end s' = Ok e).
  { intros e. rewrite !front_end_iff. split; intros (ls0 & W0 & R0 & H1 & HD); exists ls; repeat split; auto.
    - now rewrite (lexemes_unique s ls ls0 W R W0 R0).
    - now rewrite (lexemes_unique s ls ls0 W R W0 R0).
    - now rewrite (lexemes_unique s' ls ls0 W R' W0 R0).
    - now rewrite (lexemes_unique s' ls ls0 W R' W0 R0). }
  split; [exact A | now apply same_ok_same_err].
Qed.

(** the side condition of [front_end_whitespace] cannot be dropped: the empty text and a blank text are both
    refused, but with different error codes *)
Example front_end_whitespace_exact_refuted :
  exists s s' ls, WellFormed ls /\ Renders s ls /\ Renders s' ls /\
                  front_end s = Err EScan /\ front_end s' = Err EParse.
Proof.
  exists "", " ", []. split; [reflexivity|].
  split; [exists [[]]; split; [reflexivity|]; split; [split; reflexivity | reflexivity]|].
  split; [exists [[" "%char]]; split; [reflexivity|]; split; [split; reflexivity | reflexivity]|].
  split; vm_compute; reflexivity.
Qed.

(* ------------------------------------------------------------------------------------------ *)
(** * The parser's error code on scanner output

    A token list that contains the end marker (every scanner output does) is never refused with anything
    but EParse: the parser never runs off the end of the list (EIndex) and never runs out of fuel. *)

Definition marked (ts : list token) : Prop := Exists (fun t => tkind t = EOF) ts.
Definition mild (x : errkind) : Prop := x = EParse \/ x = OutOfFuel.
Definition perr (p : P) : Prop := forall ts x, marked ts -> p ts = Err x -> mild x.
Definition keeps (p : P) : Prop := forall ts e rest, marked ts -> p ts = Ok (e, rest) -> marked rest.

Lemma marked_nil : ~ marked [].
Proof. intros H. inversion H. Qed.

Lemma marked_cons t r : tkind t <> EOF -> marked (t :: r) -> marked r.
Proof. intros Hne H. inversion H; subst; [contradiction | assumption]. Qed.

Lemma marked_app_no_eof pre rest : no_eof pre -> marked (pre ++ rest) -> marked rest.
Proof.
  unfold no_eof, marked. intros Hp H. apply Exists_app in H as [H|H]; [|exact H].
  exfalso. apply Exists_exists in H as (t & Hin & Ht). rewrite Forall_forall in Hp. exact (Hp t Hin Ht).
Qed.

Lemma sound_keeps p (D : Lang) : (forall ts e, D ts e -> no_eof ts) -> sound p D -> keeps p.
Proof.
  intros HD Hs ts e rest Hm H. apply Hs in H as (pre & -> & Hd). eapply marked_app_no_eof; eauto.
Qed.

Lemma bind_err {A B} (r : res A) (f : A -> res B) x :
  bind r f = Err x -> r = Err x \/ exists a, r = Ok a /\ f a = Err x.
Proof. destruct r as [a|y]; cbn [bind]; intros H; [right; eauto | left; congruence]. Qed.

Lemma DLev_no_eof c ts e : DLev c ts e -> no_eof ts.
Proof. apply no_eof_all. Qed.
Lemma DPrimary_no_eof ts e : DPrimary ts e -> no_eof ts.
Proof. apply no_eof_all. Qed.
Lemma DArgs_no_eof ts es : DArgs ts es -> no_eof ts.
Proof. apply no_eof_all. Qed.

Lemma consume_err k ts x : consume k ts = Err x -> x = EParse.
Proof. unfold consume. destruct (match_tok [k] ts) as [[? ?]|]; intros H; inversion H; reflexivity. Qed.

Lemma level_check_err lv x : level_check lv = Err x -> x = EParse.
Proof.
  unfold level_check. destruct lv; try discriminate.
  - destruct level; intros H; inversion H; reflexivity.
  - destruct v; intros H; inversion H; reflexivity.
Qed.

Section BinErr.
  Variable next : P.
  Variable ks : list kind.
  Hypothesis Hn : perr next.
  Hypothesis Hk : keeps next.

  Lemma binloop_perr m : forall e0 ts x, marked ts -> binloop next ks m e0 ts = Err x -> mild x.
  Proof.
    induction m as [|m IH]; intros e0 ts x Hm H; cbn [binloop] in H.
    - inversion H. right. reflexivity.
    - destruct (match_tok ks ts) as [[op ts']|] eqn:Em; [|discriminate].
      apply match_tok_some in Em as (-> & _ & Hne). apply marked_cons in Hm; [|exact Hne].
      apply bind_err in H as [H|((r & ts'') & Hr & H)].
      + eapply Hn; eauto.
      + eapply IH; [|exact H]. eapply Hk; eauto.
  Qed.

  Lemma binlevel_perr : perr (binlevel next ks).
  Proof.
    intros ts x Hm H. unfold binlevel in H. apply bind_err in H as [H|((e & ts') & He & H)].
    - eapply Hn; eauto.
    - eapply binloop_perr; [|exact H]. eapply Hk; eauto.
  Qed.
End BinErr.

Lemma levels_perr base c : sound base (DLev []) -> perr base -> perr (levels base c).
Proof.
  intros Hs Hb. induction c as [|ks c IH]; cbn [levels]; [exact Hb|].
  apply binlevel_perr; [exact IH|].
  eapply sound_keeps; [apply (DLev_no_eof c) | now apply levels_sound].
Qed.

Section InnerErr.
  Variable expression : P.
  Hypothesis Hsound : sound expression DExpr.
  Hypothesis Hex : perr expression.

  Lemma expression_keeps : keeps expression.
  Proof. eapply sound_keeps; [apply DExpr_no_eof | exact Hsound]. Qed.

  Lemma primary_nobracket_perr : perr (primary_nobracket expression).
  Proof.
    intros ts x Hm H. unfold primary_nobracket in H. destruct ts as [|t r]; [now apply marked_nil in Hm|].
    destruct (tkind t) eqn:Ek; try (inversion H; left; reflexivity);
      try (destruct (literal t); inversion H; left; reflexivity).
    all: assert (Hr : marked r) by (apply (marked_cons t); [rewrite Ek; discriminate | exact Hm]).
    all: apply bind_err in H as [H|((e & r') & He & H)]; [eapply Hex; eauto|].
    all: apply bind_err in H as [H|(r'' & Hc & H)]; [left; eapply consume_err; eauto | discriminate].
  Qed.

  Lemma primary_perr m : perr (primary expression m).
  Proof.
    induction m as [|m IH]; intros ts x Hm H.
    - destruct ts as [|t [|b r]]; cbn [primary] in H; try (eapply primary_nobracket_perr; eauto; fail).
      destruct (kind_eqb (tkind t) IDENTIFIER && kind_eqb (tkind b) LEFT_BRACKET);
        [inversion H; right; reflexivity | eapply primary_nobracket_perr; eauto].
    - destruct ts as [|t [|b r]]; cbn [primary] in H; try (eapply primary_nobracket_perr; eauto; fail).
      destruct (kind_eqb (tkind t) IDENTIFIER && kind_eqb (tkind b) LEFT_BRACKET) eqn:Eb;
        [|eapply primary_nobracket_perr; eauto].
      apply andb_true_iff in Eb as [Et Eb]. apply kind_eqb_eq in Et, Eb.
      assert (Hr : marked r).
      { apply (marked_cons b); [rewrite Eb; discriminate|]. apply (marked_cons t); [rewrite Et; discriminate|].
        exact Hm. }
      apply bind_err in H as [H|((lv & r') & Hp & H)]; [eapply IH; eauto|].
      apply bind_err in H as [H|(lv' & Hl & H)]; [left; eapply level_check_err; eauto|].
      apply bind_err in H as [H|(r'' & Hc & H)]; [left; eapply consume_err; eauto | discriminate].
  Qed.

  Lemma args_loop_perr m : forall acc ts x, marked ts -> args_loop expression m acc ts = Err x -> mild x.
  Proof.
    induction m as [|m IH]; intros acc ts x Hm H; cbn [args_loop] in H.
    - inversion H. right. reflexivity.
    - apply bind_err in H as [H|((a & r) & Ha & H)]; [eapply Hex; eauto|].
      apply expression_keeps in Ha; [|exact Hm].
      destruct (match_tok [COMMA] r) as [[c r']|] eqn:Em; [|discriminate].
      apply match_tok_some in Em as (-> & _ & Hne). eapply IH; [|exact H]. eapply marked_cons; eauto.
  Qed.

  Lemma finishcall_perr callee : perr (finishcall expression callee).
  Proof.
    intros ts x Hm H. unfold finishcall in H. destruct (match_tok [RIGHT_PAREN] ts) as [[? ?]|].
    - apply bind_err in H as [H|(r & Hc & H)]; [left; eapply consume_err; eauto | discriminate].
    - apply bind_err in H as [H|((args & r) & Ha & H)]; [eapply args_loop_perr; eauto|].
      apply bind_err in H as [H|(r' & Hc & H)]; [left; eapply consume_err; eauto | discriminate].
  Qed.

  Lemma finishcall_keeps callee : keeps (finishcall expression callee).
  Proof.
    intros ts e rest Hm H. unfold finishcall in H. destruct (match_tok [RIGHT_PAREN] ts) as [[? ?]|].
    - apply bind_ok in H as (r' & Hc & H). inversion H; subst.
      apply consume_ok in Hc as (rp & -> & Hk). apply (marked_cons rp); [rewrite Hk; discriminate | exact Hm].
    - apply bind_ok in H as ((args & r) & Ha & H). apply bind_ok in H as (r' & Hc & H). inversion H; subst.
      apply (args_loop_sound _ Hsound) in Ha as (pre & more & -> & _ & Hd).
      apply consume_ok in Hc as (rp & -> & Hk). apply (marked_cons rp); [rewrite Hk; discriminate|].
      eapply marked_app_no_eof; [eapply DArgs_no_eof; eauto | exact Hm].
  Qed.

  Lemma call_loop_perr m : forall e ts x, marked ts -> call_loop expression m e ts = Err x -> mild x.
  Proof.
    induction m as [|m IH]; intros e ts x Hm H; cbn [call_loop] in H.
    - inversion H. right. reflexivity.
    - destruct (match_tok [LEFT_PAREN] ts) as [[lp r]|] eqn:Em; [|discriminate].
      apply match_tok_some in Em as (-> & _ & Hne). apply marked_cons in Hm; [|exact Hne].
      apply bind_err in H as [H|((e' & r') & Hf & H)]; [eapply finishcall_perr; eauto|].
      eapply IH; [|exact H]. eapply finishcall_keeps; eauto.
  Qed.

  Lemma call_perr : perr (call expression).
  Proof.
    intros ts x Hm H. unfold call in H.
    apply bind_err in H as [H|((e & r) & Hp & H)]; [eapply primary_perr; eauto|].
    eapply call_loop_perr; [|exact H].
    eapply (sound_keeps _ _ DPrimary_no_eof (primary_sound _ Hsound _)); eauto.
  Qed.

  Lemma unary_perr : perr (unary expression).
  Proof.
    intros ts. induction ts as [|t r IH]; intros x Hm H; cbn [unary] in H.
    - eapply call_perr; eauto.
    - destruct (negb (kind_eqb (tkind t) EOF) && is_kind unary_kinds t) eqn:Eu.
      + apply andb_true_iff in Eu as [Eu _]. apply negb_true_iff, kind_eqb_neq in Eu.
        apply bind_err in H as [H|((e & r') & _ & H)]; [|discriminate].
        eapply IH; [|exact H]. eapply marked_cons; eauto.
      + eapply call_perr; eauto.
  Qed.

  Lemma levels_unary_perr c : perr (levels (unary expression) c).
  Proof. apply levels_perr; [now apply unary_sound_lev | apply unary_perr]. Qed.

  Lemma levels_unary_keeps c : keeps (levels (unary expression) c).
  Proof.
    eapply sound_keeps; [apply (DLev_no_eof c) | apply levels_sound; now apply unary_sound_lev].
  Qed.

  Lemma tilde_perr : perr (tilde expression).
  Proof.
    intros ts x Hm H. unfold tilde, random_effect, addition in H.
    apply bind_err in H as [H|((e & r) & He & H)]; [eapply levels_unary_perr; eauto|].
    apply levels_unary_keeps in He; [|exact Hm].
    destruct (match_tok [TILDE] r) as [[op r']|] eqn:Em; [|discriminate].
    apply match_tok_some in Em as (-> & _ & Hne). apply marked_cons in He; [|exact Hne].
    apply bind_err in H as [H|((rhs & r'') & _ & H)]; [eapply levels_unary_perr; eauto | discriminate].
  Qed.

  Lemma tilde_keeps : keeps (tilde expression).
  Proof.
    intros ts e rest Hm H. apply (tilde_sound _ Hsound) in H as (pre & -> & [Hd|Hd]).
    - eapply marked_app_no_eof; [eapply DLev_no_eof; eauto | exact Hm].
    - destruct Hd as (tl & l & op & tr & r & -> & -> & Hl & Hop & Hr).
      eapply marked_app_no_eof; [|exact Hm]. eapply (DExpr_no_eof _ (EBinary l op r)).
      now apply DE_tilde.
  Qed.

  Lemma assignment_perr : perr (assignment expression).
  Proof.
    intros ts x Hm H. unfold assignment, addition in H.
    apply bind_err in H as [H|((e & r) & He & H)]; [eapply tilde_perr; eauto|].
    apply tilde_keeps in He; [|exact Hm].
    destruct (match_tok [EQUAL] r) as [[op r']|] eqn:Em; [|discriminate].
    apply match_tok_some in Em as (-> & _ & Hne). apply marked_cons in He; [|exact Hne].
    apply bind_err in H as [H|((rhs & r'') & _ & H)]; [eapply levels_unary_perr; eauto|].
    destruct e; inversion H; left; reflexivity.
  Qed.
End InnerErr.

Lemma expression_perr f : perr (expression f).
Proof.
  induction f as [|f IH]; cbn [expression].
  - intros ts x _ H. inversion H. right. reflexivity.
  - apply assignment_perr; [apply expression_sound | exact IH].
Qed.

Theorem parse_error_is_EParse ts x : marked ts -> parse ts = Err x -> x = EParse.
Proof.
  intros Hm H. assert (Hmild : mild x).
  { unfold parse, parse_with, parse_checks_eof in H. destruct ts as [|t ts]; [now apply marked_nil in Hm|].
    apply bind_err in H as [H|((e & r) & _ & H)]; [eapply expression_perr; eauto|].
    destruct (at_end r); inversion H. left. reflexivity. }
  destruct Hmild as [->| ->]; [reflexivity|]. now apply parse_never_out_of_fuel in H.
Qed.

Lemma scan_marked s toks : scan s = Ok toks -> marked toks.
Proof.
  rewrite scan_unfold. destruct (String.eqb s ""); [discriminate|].
  destruct (scan_loop _ _) as [ls|y]; cbn [bind]; [|discriminate].
  assert (Hm : forall l, marked (l ++ [eof_tok])).
  { intros l. apply Exists_app. right. constructor. reflexivity. }
  rewrite finish_spec. destruct (_ <? _)%nat; [discriminate|].
  destruct (_ =? _)%nat; intros H; inversion H; subst.
  - apply (Hm (one_tok :: plus_tok :: ls)).
  - apply Hm.
Qed.

(* ------------------------------------------------------------------------------------------ *)
(** * 3. Refusal: the three verdicts, their exact conditions and error codes *)

Definition Accepted (s : string) (e : expr) : Prop := front_end s = Ok e.
(** the scanner refuses the text *)
Definition ScanError (s : string) (x : errkind) : Prop := scan s = Err x.
(** the scanner produces tokens and the parser refuses them *)
Definition ParseError (s : string) (x : errkind) : Prop :=
  exists toks, scan s = Ok toks /\ parse toks = Err x.

Lemma scan_error_front_end s x : ScanError s x -> front_end s = Err x.
Proof. unfold ScanError. intros H. rewrite front_end_unfold, H. reflexivity. Qed.

Lemma parse_error_front_end s x : ParseError s x -> front_end s = Err x.
Proof. intros (toks & Hs & Hp). rewrite front_end_unfold, Hs. exact Hp. Qed.

Theorem front_end_err_split s x : front_end s = Err x <-> ScanError s x \/ ParseError s x.
Proof.
  split.
  - rewrite front_end_unfold. unfold ScanError, ParseError. destruct (scan s) as [toks|y]; cbn [bind]; intros H.
    + right. eauto.
    + left. congruence.
  - intros [H|H]; [now apply scan_error_front_end | now apply parse_error_front_end].
Qed.

Lemma one_tilde_dec ls : {OneTilde ls} + {~ OneTilde ls}.
Proof. unfold OneTilde. destruct (le_lt_dec (tilde_count ls) 1); [left; assumption | right; lia]. Qed.

(** the scanner refuses exactly: the empty text, the texts that are not a separated rendering of any
    well-formed lexeme list, and the texts with two or more "~" *)
Theorem scan_error_iff s :
  (exists x, ScanError s x) <->
  s = "" \/ (forall ls, WellFormed ls -> ~ Renders s ls) \/
  (exists ls, WellFormed ls /\ Renders s ls /\ ~ OneTilde ls).
Proof.
  unfold ScanError. split.
  - intros (x & Hx). destruct (String.eqb_spec s "") as [E|E]; [left; exact E|]. right.
    destruct (renders_dec s) as [(ls & W & R)|Hno]; [|left; exact Hno]. right. exists ls.
    split; [exact W|]. split; [exact R|]. intros H1.
    rewrite (scan_rendering s ls W R E) in Hx. unfold OneTilde in H1.
    destruct (le_lt_dec (tilde_count ls) 1); [discriminate | lia].
  - intros H. destruct (String.eqb_spec s "") as [E|E]; [subst; exists EScan; reflexivity|].
    destruct H as [H|[H|(ls & W & R & H1)]]; [contradiction| |].
    + rewrite scan_unfold. destruct (String.eqb_spec s ""); [contradiction|].
      destruct (scan_loop _ _) as [ls|y] eqn:El; cbn [bind]; [|eauto].
      apply scan_loop_renders in El as (W & R). exfalso. exact (H ls W R).
    + exists EScan. rewrite (scan_rendering s ls W R E). unfold OneTilde in H1.
      destruct (le_lt_dec (tilde_count ls) 1); [lia | reflexivity].
Qed.

(** the code is EScan, except EIndex which only occurs for texts that have no lexeme list (an unterminated
    backquoted name, see ScannerProofs.scan_unterminated_backquote_after) *)
Theorem scan_error_codes s x :
  ScanError s x ->
  (x = EScan \/ x = EIndex) /\ (x = EIndex -> forall ls, WellFormed ls -> ~ Renders s ls).
Proof.
  unfold ScanError. intros Hx. split; [now apply scan_error_kinds in Hx|]. intros -> ls W R.
  destruct (String.eqb_spec s "") as [E|E]; [subst; discriminate Hx|].
  rewrite (scan_rendering s ls W R E) in Hx. destruct (le_lt_dec _ _); discriminate.
Qed.

(** the clause "scan error iff no well-formed lexeme list renders to the text" is false as it stands: the
    empty text and texts with two "~" are renderings and are refused by the scanner *)
Example scan_error_iff_no_rendering_refuted :
  (exists ls, WellFormed ls /\ Renders "" ls /\ ScanError "" EScan) /\
  (exists ls, WellFormed ls /\ Renders "y~a~b" ls /\ ScanError "y~a~b" EScan).
Proof.
  split.
  - exists []. split; [reflexivity|]. split; [|reflexivity].
    exists [[]]. split; [reflexivity|]. split; [split; reflexivity | reflexivity].
  - exists [mk IDENTIFIER "y"; mk TILDE "~"; mk IDENTIFIER "a"; mk TILDE "~"; mk IDENTIFIER "b"].
    split; [vm_compute; reflexivity|]. split; [|vm_compute; reflexivity].
    apply scan_loop_renders. vm_compute. reflexivity.
Qed.

(** the parser refuses the scanner's tokens exactly on the non-empty renderings with at most one "~" whose
    tokens (intercept inserted) are not derivable in the grammar; the code is always EParse *)
Theorem parse_error_iff s x :
  ParseError s x <->
  x = EParse /\ s <> "" /\
  exists ls, WellFormed ls /\ Renders s ls /\ OneTilde ls /\ forall e, ~ DExpr (with_intercept ls) e.
Proof.
  split.
  - intros (toks & Hs & Hp).
    split; [eapply parse_error_is_EParse; [eapply scan_marked|]; eauto|].
    assert (E : s <> "") by (intros ->; discriminate Hs). split; [exact E|].
    rewrite scan_unfold in Hs. destruct (String.eqb_spec s ""); [contradiction|].
    destruct (scan_loop _ _) as [ls|y] eqn:El; cbn [bind] in Hs; [|discriminate].
    apply scan_loop_renders in El as (W & R). apply finish_ok_inv in Hs as (H1 & ->).
    exists ls. repeat split; auto. intros e HD.
    apply (sentence_eof _ e (with_intercept_no_eof ls W)), parse_iff in HD. congruence.
  - intros (-> & E & ls & W & R & H1 & Hno). exists (with_intercept ls ++ [eof_tok])%list.
    split.
    + rewrite (scan_rendering s ls W R E). unfold OneTilde in H1. destruct (le_lt_dec _ _); [reflexivity | lia].
    + destruct (parse (with_intercept ls ++ [eof_tok])) as [e|y] eqn:Ep.
      * exfalso. apply parse_iff, (sentence_eof _ e (with_intercept_no_eof ls W)) in Ep. exact (Hno e Ep).
      * f_equal. eapply parse_error_is_EParse; [|exact Ep]. apply Exists_app. right. constructor. reflexivity.
Qed.

(** every text gets exactly one of the three verdicts *)
Theorem front_end_trichotomy s :
  ((exists e, Accepted s e) /\ ~ (exists x, ScanError s x) /\ ~ (exists x, ParseError s x)) \/
  (~ (exists e, Accepted s e) /\ (exists x, ScanError s x) /\ ~ (exists x, ParseError s x)) \/
  (~ (exists e, Accepted s e) /\ ~ (exists x, ScanError s x) /\ ParseError s EParse).
Proof.
  unfold Accepted, ScanError, ParseError. rewrite front_end_unfold.
  destruct (scan s) as [toks|y] eqn:Es; cbn [bind].
  - destruct (parse toks) as [e|z] eqn:Ep.
    + left. split; [eauto|]. split; [intros (x & Hx); discriminate|].
      intros (x & t & Ht & Hx). congruence.
    + right. right. split; [intros (e & He); discriminate|]. split; [intros (x & Hx); discriminate|].
      exists toks. split; [reflexivity|]. rewrite Ep. f_equal. eapply parse_error_is_EParse; [eapply scan_marked|]; eauto.
  - right. left. split; [intros (e & He); discriminate|]. split; [eauto|].
    intros (x & t & Ht & _). discriminate.
Qed.

(** never a tree for an ungrammatical text, never an error for a grammatical one *)
Theorem front_end_refusal_iff s :
  (exists x, front_end s = Err x) <->
  (forall ls, WellFormed ls -> Renders s ls -> OneTilde ls -> forall e, ~ DExpr (with_intercept ls) e).
Proof.
  split.
  - intros (x & Hx) ls W R H1 e HD.
    assert (H : front_end s = Ok e) by (apply front_end_iff; exists ls; auto). congruence.
  - intros H. destruct (front_end s) as [e|x] eqn:E; [|eauto]. exfalso.
    apply front_end_iff in E as (ls & W & R & H1 & HD). exact (H ls W R H1 e HD).
Qed.

Theorem front_end_error_codes s x : front_end s = Err x -> x = EScan \/ x = EIndex \/ x = EParse.
Proof.
  intros H. apply front_end_err_split in H as [H|H].
  - apply scan_error_codes in H as ([->| ->] & _); auto.
  - apply parse_error_iff in H as (-> & _). auto.
Qed.

(* ------------------------------------------------------------------------------------------ *)
(** * 4. Precedence and associativity, for all identifier strings *)

(** [a] is an identifier of the formula language: a letter followed by letters, digits, "." and "_", and not
    one of the Python literals True / False / None (exactly the strings the scanner turns into one
    IDENTIFIER token) *)
Definition Ident (a : string) : Prop := wf_lexeme (mk IDENTIFIER a) = true.

Lemma ident_head a :
  Ident a -> exists x body, chars_of a = x :: body /\ is_alpha x = true.
Proof.
  unfold Ident, wf_lexeme, chars_of. cbv zeta. cbn [tkind mk lexeme literal]. unfold lx. cbn [lexeme mk].
  intros H. destruct (list_ascii_of_string a) as [|x body].
  - cbn in H. discriminate H.
  - apply andb_true_iff in H as [H _]. apply andb_true_iff in H as [H _]. apply andb_true_iff in H as [H _].
    eauto.
Qed.

Lemma alpha_not_op x :
  is_alpha x = true ->
  Ascii.eqb x "*" = false /\ Ascii.eqb x "/" = false /\ Ascii.eqb x "=" = false /\ is_digit x = false.
Proof. all_ascii x; vm_compute; intros H; try discriminate H; repeat split. Qed.

(** the tight text of a lexeme list: the lexemes glued together with no whitespace at all *)
Fixpoint glue (ls : list token) : chars :=
  match ls with [] => [] | t :: r => (lx t ++ glue r)%list end.
Fixpoint glued_ok (ls : list token) : bool :=
  match ls with [] => true | t :: r => can_follow t (glue r) && glued_ok r end.

Lemma render_tight ls : render ls (repeat [] (S (List.length ls))) = glue ls.
Proof.
  induction ls as [|t ls IH]; [reflexivity|].
  change (repeat [] (S (List.length (t :: ls)))) with (@nil ascii :: repeat [] (S (List.length ls))).
  cbn [render glue app]. now rewrite IH.
Qed.

Lemma separated_tight ls : separated ls (repeat [] (S (List.length ls))) = glued_ok ls.
Proof.
  induction ls as [|t ls IH]; [reflexivity|].
  change (repeat [] (S (List.length (t :: ls)))) with (@nil ascii :: repeat [] (S (List.length ls))).
  cbn [separated glued_ok]. now rewrite render_tight, IH.
Qed.

Lemma valid_ws_tight ls : valid_ws ls (repeat [] (S (List.length ls))).
Proof.
  split; [now rewrite repeat_length|]. generalize (S (List.length ls)). intros n.
  induction n as [|n IH]; [reflexivity | exact IH].
Qed.

Lemma renders_glue s ls : chars_of s = glue ls -> glued_ok ls = true -> Renders s ls.
Proof.
  intros Hs Hg. exists (repeat [] (S (List.length ls))). split; [now rewrite render_tight|].
  split; [apply valid_ws_tight | now rewrite separated_tight].
Qed.

(** an identifier can follow any operator or bracket without a blank *)
Definition op_kind (k : kind) : bool :=
  negb (existsb (kind_eqb k) [IDENTIFIER; PYTHON_LITERAL; NUMBER; PERIOD]).

Lemma can_follow_op_ident t c rest :
  Ident c -> op_kind (tkind t) = true -> can_follow t (lx (mk IDENTIFIER c) ++ rest)%list = true.
Proof.
  intros Hc Hk. destruct (ident_head c Hc) as (x & body & Hx & Ha).
  change (lx (mk IDENTIFIER c)) with (chars_of c). rewrite Hx. cbn [app].
  destruct (alpha_not_op x Ha) as (H1 & H2 & H3 & _).
  unfold can_follow. destruct (tkind t); try reflexivity; try discriminate Hk; cbn [next_is];
    rewrite ?H1, ?H2, ?H3; reflexivity.
Qed.

(** the front end on a rendering, side conditions stated on the lexemes only *)
Lemma front_end_lexemes s ls :
  WellFormed ls -> Renders s ls -> ls <> [] -> OneTilde ls ->
  front_end s = parse (with_intercept ls ++ [eof_tok]).
Proof.
  intros W R Hne H1. apply front_end_rendering; auto. intros ->. now apply renders_empty_text in R.
Qed.

(** tokens and trees of the laws *)
Definition idt (a : string) : token := mk IDENTIFIER a.
Definition V (a : string) : expr := EVariable (idt a) None.
Definition ONE : expr := ELiteral (LInt 1) None.
Definition Bin (l : expr) (k : kind) (lexeme : string) (r : expr) : expr := EBinary l (mk k lexeme) r.
Notation "l [+] r" := (Bin l PLUS "+" r) (at level 50, left associativity).
Notation "l [-] r" := (Bin l MINUS "-" r) (at level 50, left associativity).
Notation "l [*] r" := (Bin l STAR "*" r) (at level 50, left associativity).
Notation "l [/] r" := (Bin l SLASH "/" r) (at level 50, left associativity).
Notation "l [:] r" := (Bin l COLON ":" r) (at level 50, left associativity).
Notation "l [**] r" := (Bin l STAR_STAR "**" r) (at level 50, left associativity).
Notation "l [|] r" := (Bin l PIPE "|" r) (at level 50, left associativity).
Notation "l [~] r" := (Bin l TILDE "~" r) (at level 50, left associativity).
Notation "l [==] r" := (Bin l EQUAL_EQUAL "==" r) (at level 50, left associativity).
Notation "l [<] r" := (Bin l LESS "<" r) (at level 50, left associativity).
Notation "l [<=] r" := (Bin l LESS_EQUAL "<=" r) (at level 50, left associativity).

Ltac wf_goal :=
  unfold WellFormed; cbn [forallb];
  repeat match goal with H : Ident ?a |- _ => unfold Ident in H; unfold idt; rewrite H; clear H end;
  reflexivity.

Ltac glue_goal :=
  apply renders_glue;
  [ rewrite ?chars_of_app; cbn [glue]; rewrite ?app_nil_r; reflexivity
  | cbn [glued_ok glue];
    repeat (apply andb_true_intro; split);
    first [ reflexivity | apply can_follow_op_ident; [assumption | reflexivity] ] ].

(** [law_general]: the law for every spacing; [law_tight]: the law for the text without blanks *)
Ltac law_general ls :=
  intros;
  match goal with R : Renders ?s ls |- _ =>
    rewrite (front_end_lexemes s ls); [vm_compute; reflexivity | wf_goal | exact R | discriminate
                                      | unfold OneTilde; vm_compute; lia ] end.

(** ** "*" binds tighter than "+" *)
Theorem law_mul_over_add_spaced s a b c :
  Ident a -> Ident b -> Ident c ->
  Renders s [idt a; mk PLUS "+"; idt b; mk STAR "*"; idt c] ->
  front_end s = Ok (ONE [+] V a [+] (V b [*] V c)).
Proof. law_general [idt a; mk PLUS "+"; idt b; mk STAR "*"; idt c]. Qed.

Lemma tight_mul_over_add a b c :
  Ident a -> Ident b -> Ident c ->
  Renders (a ++ "+" ++ b ++ "*" ++ c) [idt a; mk PLUS "+"; idt b; mk STAR "*"; idt c].
Proof. intros. glue_goal. Qed.

Ltac law_tight L := intros; apply L; [assumption .. | glue_goal].

Theorem law_mul_over_add a b c :
  Ident a -> Ident b -> Ident c ->
  front_end (a ++ "+" ++ b ++ "*" ++ c) = Ok (ONE [+] V a [+] (V b [*] V c)).
Proof. law_tight law_mul_over_add_spaced. Qed.

(** ** "+" and "-" share a level and associate to the left *)
Theorem law_add_left_assoc_spaced s a b c :
  Ident a -> Ident b -> Ident c ->
  Renders s [idt a; mk MINUS "-"; idt b; mk PLUS "+"; idt c] ->
  front_end s = Ok (ONE [+] V a [-] V b [+] V c).
Proof. law_general [idt a; mk MINUS "-"; idt b; mk PLUS "+"; idt c]. Qed.

Theorem law_add_left_assoc a b c :
  Ident a -> Ident b -> Ident c ->
  front_end (a ++ "-" ++ b ++ "+" ++ c) = Ok (((ONE [+] V a) [-] V b) [+] V c).
Proof. law_tight law_add_left_assoc_spaced. Qed.

Theorem law_sub_left_assoc_spaced s a b c :
  Ident a -> Ident b -> Ident c ->
  Renders s [idt a; mk MINUS "-"; idt b; mk MINUS "-"; idt c] ->
  front_end s = Ok (((ONE [+] V a) [-] V b) [-] V c).
Proof. law_general [idt a; mk MINUS "-"; idt b; mk MINUS "-"; idt c]. Qed.

Theorem law_sub_left_assoc a b c :
  Ident a -> Ident b -> Ident c ->
  front_end (a ++ "-" ++ b ++ "-" ++ c) = Ok (((ONE [+] V a) [-] V b) [-] V c).
Proof. law_tight law_sub_left_assoc_spaced. Qed.

(** ** "*" and "/" share a level and associate to the left *)
Theorem law_mul_left_assoc_spaced s a b c :
  Ident a -> Ident b -> Ident c ->
  Renders s [idt a; mk SLASH "/"; idt b; mk STAR "*"; idt c] ->
  front_end s = Ok (ONE [+] ((V a [/] V b) [*] V c)).
Proof. law_general [idt a; mk SLASH "/"; idt b; mk STAR "*"; idt c]. Qed.

Theorem law_mul_left_assoc a b c :
  Ident a -> Ident b -> Ident c ->
  front_end (a ++ "/" ++ b ++ "*" ++ c) = Ok (ONE [+] ((V a [/] V b) [*] V c)).
Proof. law_tight law_mul_left_assoc_spaced. Qed.

(** ** ":" binds tighter than "*" and associates to the left *)
Theorem law_colon_over_mul_spaced s a b c :
  Ident a -> Ident b -> Ident c ->
  Renders s [idt a; mk STAR "*"; idt b; mk COLON ":"; idt c] ->
  front_end s = Ok (ONE [+] (V a [*] (V b [:] V c))).
Proof. law_general [idt a; mk STAR "*"; idt b; mk COLON ":"; idt c]. Qed.

Theorem law_colon_over_mul a b c :
  Ident a -> Ident b -> Ident c ->
  front_end (a ++ "*" ++ b ++ ":" ++ c) = Ok (ONE [+] (V a [*] (V b [:] V c))).
Proof. law_tight law_colon_over_mul_spaced. Qed.

Theorem law_colon_left_assoc_spaced s a b c :
  Ident a -> Ident b -> Ident c ->
  Renders s [idt a; mk COLON ":"; idt b; mk COLON ":"; idt c] ->
  front_end s = Ok (ONE [+] ((V a [:] V b) [:] V c)).
Proof. law_general [idt a; mk COLON ":"; idt b; mk COLON ":"; idt c]. Qed.

Theorem law_colon_left_assoc a b c :
  Ident a -> Ident b -> Ident c ->
  front_end (a ++ ":" ++ b ++ ":" ++ c) = Ok (ONE [+] ((V a [:] V b) [:] V c)).
Proof. law_tight law_colon_left_assoc_spaced. Qed.

(** ** "**" binds tightest of the binary operators and (in the model as in parser.py) associates to the LEFT *)
Theorem law_pow_over_colon_spaced s a b c :
  Ident a -> Ident b -> Ident c ->
  Renders s [idt a; mk COLON ":"; idt b; mk STAR_STAR "**"; idt c] ->
  front_end s = Ok (ONE [+] (V a [:] (V b [**] V c))).
Proof. law_general [idt a; mk COLON ":"; idt b; mk STAR_STAR "**"; idt c]. Qed.

Theorem law_pow_over_colon a b c :
  Ident a -> Ident b -> Ident c ->
  front_end (a ++ ":" ++ b ++ "**" ++ c) = Ok (ONE [+] (V a [:] (V b [**] V c))).
Proof. law_tight law_pow_over_colon_spaced. Qed.

Theorem law_pow_left_assoc_spaced s a b c :
  Ident a -> Ident b -> Ident c ->
  Renders s [idt a; mk STAR_STAR "**"; idt b; mk STAR_STAR "**"; idt c] ->
  front_end s = Ok (ONE [+] ((V a [**] V b) [**] V c)).
Proof. law_general [idt a; mk STAR_STAR "**"; idt b; mk STAR_STAR "**"; idt c]. Qed.

Theorem law_pow_left_assoc a b c :
  Ident a -> Ident b -> Ident c ->
  front_end (a ++ "**" ++ b ++ "**" ++ c) = Ok (ONE [+] ((V a [**] V b) [**] V c)).
Proof. law_tight law_pow_left_assoc_spaced. Qed.

(** ** comparisons bind looser than "+" (so they swallow the implicit intercept) and associate to the left *)
Theorem law_add_over_cmp_spaced s a b c :
  Ident a -> Ident b -> Ident c ->
  Renders s [idt a; mk EQUAL_EQUAL "=="; idt b; mk PLUS "+"; idt c] ->
  front_end s = Ok ((ONE [+] V a) [==] (V b [+] V c)).
Proof. law_general [idt a; mk EQUAL_EQUAL "=="; idt b; mk PLUS "+"; idt c]. Qed.

Theorem law_add_over_cmp a b c :
  Ident a -> Ident b -> Ident c ->
  front_end (a ++ "==" ++ b ++ "+" ++ c) = Ok ((ONE [+] V a) [==] (V b [+] V c)).
Proof. law_tight law_add_over_cmp_spaced. Qed.

Theorem law_cmp_left_assoc_spaced s a b c :
  Ident a -> Ident b -> Ident c ->
  Renders s [idt a; mk LESS "<"; idt b; mk LESS_EQUAL "<="; idt c] ->
  front_end s = Ok (((ONE [+] V a) [<] V b) [<=] V c).
Proof. law_general [idt a; mk LESS "<"; idt b; mk LESS_EQUAL "<="; idt c]. Qed.

Theorem law_cmp_left_assoc a b c :
  Ident a -> Ident b -> Ident c ->
  front_end (a ++ "<" ++ b ++ "<=" ++ c) = Ok (((ONE [+] V a) [<] V b) [<=] V c).
Proof. law_tight law_cmp_left_assoc_spaced. Qed.

(** ** "|" binds loosest and associates to the left *)
Theorem law_cmp_over_pipe_spaced s a b c :
  Ident a -> Ident b -> Ident c ->
  Renders s [idt a; mk PIPE "|"; idt b; mk EQUAL_EQUAL "=="; idt c] ->
  front_end s = Ok ((ONE [+] V a) [|] (V b [==] V c)).
Proof. law_general [idt a; mk PIPE "|"; idt b; mk EQUAL_EQUAL "=="; idt c]. Qed.

Theorem law_cmp_over_pipe a b c :
  Ident a -> Ident b -> Ident c ->
  front_end (a ++ "|" ++ b ++ "==" ++ c) = Ok ((ONE [+] V a) [|] (V b [==] V c)).
Proof. law_tight law_cmp_over_pipe_spaced. Qed.

Theorem law_pipe_lowest_spaced s a b c :
  Ident a -> Ident b -> Ident c ->
  Renders s [idt a; mk PLUS "+"; idt b; mk PIPE "|"; idt c] ->
  front_end s = Ok ((ONE [+] V a [+] V b) [|] V c).
Proof. law_general [idt a; mk PLUS "+"; idt b; mk PIPE "|"; idt c]. Qed.

Theorem law_pipe_lowest a b c :
  Ident a -> Ident b -> Ident c ->
  front_end (a ++ "+" ++ b ++ "|" ++ c) = Ok ((ONE [+] V a [+] V b) [|] V c).
Proof. law_tight law_pipe_lowest_spaced. Qed.

Theorem law_pipe_left_assoc_spaced s a b c :
  Ident a -> Ident b -> Ident c ->
  Renders s [idt a; mk PIPE "|"; idt b; mk PIPE "|"; idt c] ->
  front_end s = Ok (((ONE [+] V a) [|] V b) [|] V c).
Proof. law_general [idt a; mk PIPE "|"; idt b; mk PIPE "|"; idt c]. Qed.

Theorem law_pipe_left_assoc a b c :
  Ident a -> Ident b -> Ident c ->
  front_end (a ++ "|" ++ b ++ "|" ++ c) = Ok (((ONE [+] V a) [|] V b) [|] V c).
Proof. law_tight law_pipe_left_assoc_spaced. Qed.

(** ** "~" splits response and predictors: everything to its left (down to "|") is the response, the
       implicit intercept opens the right-hand side, which is an additive phrase *)
Theorem law_tilde_splits_spaced s y a b :
  Ident y -> Ident a -> Ident b ->
  Renders s [idt y; mk TILDE "~"; idt a; mk PLUS "+"; idt b] ->
  front_end s = Ok (V y [~] (ONE [+] V a [+] V b)).
Proof. law_general [idt y; mk TILDE "~"; idt a; mk PLUS "+"; idt b]. Qed.

Theorem law_tilde_splits y a b :
  Ident y -> Ident a -> Ident b ->
  front_end (y ++ "~" ++ a ++ "+" ++ b) = Ok (V y [~] (ONE [+] V a [+] V b)).
Proof. law_tight law_tilde_splits_spaced. Qed.

Theorem law_tilde_below_pipe_spaced s y z a :
  Ident y -> Ident z -> Ident a ->
  Renders s [idt y; mk PIPE "|"; idt z; mk TILDE "~"; idt a] ->
  front_end s = Ok ((V y [|] V z) [~] (ONE [+] V a)).
Proof. law_general [idt y; mk PIPE "|"; idt z; mk TILDE "~"; idt a]. Qed.

Theorem law_tilde_below_pipe y z a :
  Ident y -> Ident z -> Ident a ->
  front_end (y ++ "|" ++ z ++ "~" ++ a) = Ok ((V y [|] V z) [~] (ONE [+] V a)).
Proof. law_tight law_tilde_below_pipe_spaced. Qed.

(** the right-hand side of "~" stops at the additive level: an unparenthesised "|" (or comparison) there is
    refused, not mis-parsed *)
Theorem law_tilde_rhs_no_pipe_spaced s y a b :
  Ident y -> Ident a -> Ident b ->
  Renders s [idt y; mk TILDE "~"; idt a; mk PIPE "|"; idt b] ->
  front_end s = Err EParse.
Proof. law_general [idt y; mk TILDE "~"; idt a; mk PIPE "|"; idt b]. Qed.

Theorem law_tilde_rhs_no_pipe y a b :
  Ident y -> Ident a -> Ident b -> front_end (y ++ "~" ++ a ++ "|" ++ b) = Err EParse.
Proof. intros. apply (law_tilde_rhs_no_pipe_spaced _ y a b); [assumption .. | glue_goal]. Qed.

Theorem law_tilde_rhs_group_pipe_spaced s y a b :
  Ident y -> Ident a -> Ident b ->
  Renders s [idt y; mk TILDE "~"; mk LEFT_PAREN "("; idt a; mk PIPE "|"; idt b; mk RIGHT_PAREN ")"] ->
  front_end s = Ok (V y [~] (ONE [+] EGrouping (V a [|] V b))).
Proof. law_general [idt y; mk TILDE "~"; mk LEFT_PAREN "("; idt a; mk PIPE "|"; idt b; mk RIGHT_PAREN ")"]. Qed.

Theorem law_tilde_rhs_group_pipe y a b :
  Ident y -> Ident a -> Ident b ->
  front_end (y ++ "~(" ++ a ++ "|" ++ b ++ ")") = Ok (V y [~] (ONE [+] EGrouping (V a [|] V b))).
Proof. law_tight law_tilde_rhs_group_pipe_spaced. Qed.

(** ** unary sign binds tighter than every binary operator; parentheses override precedence; calls *)
Theorem law_unary_tightest_spaced s a b :
  Ident a -> Ident b ->
  Renders s [mk MINUS "-"; idt a; mk STAR_STAR "**"; idt b] ->
  front_end s = Ok (ONE [+] (EUnary (mk MINUS "-") (V a) [**] V b)).
Proof. law_general [mk MINUS "-"; idt a; mk STAR_STAR "**"; idt b]. Qed.

Theorem law_unary_tightest a b :
  Ident a -> Ident b ->
  front_end ("-" ++ a ++ "**" ++ b) = Ok (ONE [+] (EUnary (mk MINUS "-") (V a) [**] V b)).
Proof. law_tight law_unary_tightest_spaced. Qed.

Theorem law_group_overrides_spaced s a b c :
  Ident a -> Ident b -> Ident c ->
  Renders s [idt a; mk STAR "*"; mk LEFT_PAREN "("; idt b; mk PLUS "+"; idt c; mk RIGHT_PAREN ")"] ->
  front_end s = Ok (ONE [+] (V a [*] EGrouping (V b [+] V c))).
Proof. law_general [idt a; mk STAR "*"; mk LEFT_PAREN "("; idt b; mk PLUS "+"; idt c; mk RIGHT_PAREN ")"]. Qed.

Theorem law_group_overrides a b c :
  Ident a -> Ident b -> Ident c ->
  front_end (a ++ "*(" ++ b ++ "+" ++ c ++ ")") = Ok (ONE [+] (V a [*] EGrouping (V b [+] V c))).
Proof. law_tight law_group_overrides_spaced. Qed.

Theorem law_call_spaced s f a b :
  Ident f -> Ident a -> Ident b ->
  Renders s [idt f; mk LEFT_PAREN "("; idt a; mk COMMA ","; idt b; mk RIGHT_PAREN ")"] ->
  front_end s = Ok (ONE [+] ECall (V f) [V a; V b]).
Proof. law_general [idt f; mk LEFT_PAREN "("; idt a; mk COMMA ","; idt b; mk RIGHT_PAREN ")"]. Qed.

Theorem law_call f a b :
  Ident f -> Ident a -> Ident b ->
  front_end (f ++ "(" ++ a ++ "," ++ b ++ ")") = Ok (ONE [+] ECall (V f) [V a; V b]).
Proof. law_tight law_call_spaced. Qed.

(** ** "=" is only accepted inside an argument list: at the top of a formula the implicit intercept makes its
       left-hand side a sum, which is refused *)
Theorem law_assign_top_refused_spaced s a b :
  Ident a -> Ident b -> Renders s [idt a; mk EQUAL "="; idt b] -> front_end s = Err EParse.
Proof. law_general [idt a; mk EQUAL "="; idt b]. Qed.

Theorem law_assign_top_refused a b : Ident a -> Ident b -> front_end (a ++ "=" ++ b) = Err EParse.
Proof. intros. apply (law_assign_top_refused_spaced _ a b); [assumption .. | glue_goal]. Qed.

Theorem law_assign_in_call_spaced s f a b :
  Ident f -> Ident a -> Ident b ->
  Renders s [idt f; mk LEFT_PAREN "("; idt a; mk EQUAL "="; idt b; mk RIGHT_PAREN ")"] ->
  front_end s = Ok (ONE [+] ECall (V f) [EAssign (V a) (V b)]).
Proof. law_general [idt f; mk LEFT_PAREN "("; idt a; mk EQUAL "="; idt b; mk RIGHT_PAREN ")"]. Qed.

Theorem law_assign_in_call f a b :
  Ident f -> Ident a -> Ident b ->
  front_end (f ++ "(" ++ a ++ "=" ++ b ++ ")") = Ok (ONE [+] ECall (V f) [EAssign (V a) (V b)]).
Proof. law_tight law_assign_in_call_spaced. Qed.

(* ------------------------------------------------------------------------------------------ *)
(** * Examples (all by computation) *)

Example ex_ident_yes : Ident "x" /\ Ident "np.log" /\ Ident "a_1.b" /\ Ident "Truex" /\ Ident "I".
Proof. repeat split; vm_compute; reflexivity. Qed.

Example ex_ident_no :
  ~ Ident "" /\ ~ Ident "True" /\ ~ Ident "None" /\ ~ Ident "_x" /\ ~ Ident "1x" /\ ~ Ident "a b" /\ ~ Ident "a+b".
Proof. repeat split; vm_compute; discriminate. Qed.

(** an instance of a law, and the same equation obtained by running the model *)
Example ex_law_instance : front_end "x1+np.log*z_2" = Ok (ONE [+] V "x1" [+] (V "np.log" [*] V "z_2")).
Proof. apply (law_mul_over_add "x1" "np.log" "z_2"); vm_compute; reflexivity. Qed.

Example ex_law_instance_computed :
  front_end "x1+np.log*z_2" = Ok (ONE [+] V "x1" [+] (V "np.log" [*] V "z_2")).
Proof. vm_compute. reflexivity. Qed.

Example ex_accept :
  front_end "y ~ a + b*c:d - e**f" =
  Ok (V "y" [~] (ONE [+] V "a" [+] (V "b" [*] (V "c" [:] V "d")) [-] (V "e" [**] V "f"))).
Proof. vm_compute. reflexivity. Qed.

Example ex_accept_mixed :
  front_end "log(y) ~ x[""lvl""] + (1|g) + `a b`" =
  Ok (ECall (V "log") [V "y"] [~]
      (ONE [+] EVariable (idt "x") (Some (ELiteral (LStr "lvl") (Some """lvl""")))
           [+] EGrouping (ELiteral (LInt 1) None [|] V "g")
           [+] EQuotedName (mk BQNAME "`a b`"))).
Proof. vm_compute. reflexivity. Qed.

(** non-vacuity of [front_end_iff]: a concrete text, its lexemes, its gaps and its derivation *)
Definition ex_ls : list token :=
  [idt "y"; mk TILDE "~"; idt "a"; mk PLUS "+"; idt "b"; mk STAR "*"; idt "c"].
Definition ex_ws : list chars :=
  [[]; [" "%char]; [" "%char; ch_tab]; []; [ch_nl]; []; []; [" "%char]].

Definition ex_text : string := "y ~ " ++ String ch_tab "a+" ++ String ch_nl "b*c ".

Example ex_rendering :
  WellFormed ex_ls /\ Rendering ex_text ex_ls ex_ws /\ OneTilde ex_ls /\
  with_intercept ex_ls = [idt "y"; mk TILDE "~"; one_tok; plus_tok; idt "a"; mk PLUS "+"; idt "b"; mk STAR "*"; idt "c"] /\
  DExpr (with_intercept ex_ls) (V "y" [~] (ONE [+] V "a" [+] (V "b" [*] V "c"))) /\
  front_end ex_text = Ok (V "y" [~] (ONE [+] V "a" [+] (V "b" [*] V "c"))).
Proof.
  split; [vm_compute; reflexivity|].
  split; [split; [vm_compute; reflexivity|]; split; [split; vm_compute; reflexivity | vm_compute; reflexivity]|].
  split; [unfold OneTilde; vm_compute; lia|]. split; [vm_compute; reflexivity|].
  split; [|vm_compute; reflexivity].
  apply (sentence_eof _ _ (with_intercept_no_eof ex_ls eq_refl)), parse_iff. vm_compute. reflexivity.
Qed.

Example ex_whitespace :
  front_end "y~a+b*c" = front_end ("  y  ~ a" ++ String ch_nl " + b *" ++ String ch_tab "c ") /\ exists e, front_end "y~a+b*c" = Ok e.
Proof. split; [vm_compute; reflexivity | eexists; vm_compute; reflexivity]. Qed.

(** the three verdicts on concrete texts *)
Example ex_scan_errors :
  ScanError "" EScan /\ ScanError "a $ b" EScan /\ ScanError "y ~ 'abc" EScan /\
  ScanError "y ~ `abc" EIndex /\ ScanError "y ~ a ~ b" EScan /\ ScanError "_x" EScan.
Proof. repeat split; vm_compute; reflexivity. Qed.

Example ex_parse_errors :
  ParseError "a +" EParse /\ ParseError "a b" EParse /\ ParseError "(a" EParse /\ ParseError "a)" EParse /\
  ParseError "f(a,)" EParse /\ ParseError "x[1]" EParse /\ ParseError "a * * b" EParse /\
  ParseError " " EParse /\ ParseError "y ~" EParse /\ ParseError "~ x" EParse /\ ParseError "y ~ a | g" EParse.
Proof. repeat split; (eexists; split; [vm_compute; reflexivity | vm_compute; reflexivity]). Qed.

(** the condition "at most one ~" of [front_end_iff] cannot be dropped: "(y~a)~b" is a rendering of tokens the
    GRAMMAR derives (a parenthesised formula may contain "~"), and the scanner refuses it *)
Example ex_one_tilde_needed :
  exists ls e, WellFormed ls /\ Renders "(y~a)~b" ls /\ DExpr (with_intercept ls) e /\
               front_end "(y~a)~b" = Err EScan.
Proof.
  exists [mk LEFT_PAREN "("; idt "y"; mk TILDE "~"; idt "a"; mk RIGHT_PAREN ")"; mk TILDE "~"; idt "b"].
  eexists.
  assert (H : WellFormed [mk LEFT_PAREN "("; idt "y"; mk TILDE "~"; idt "a"; mk RIGHT_PAREN ")"; mk TILDE "~"; idt "b"]
              /\ Renders "(y~a)~b" [mk LEFT_PAREN "("; idt "y"; mk TILDE "~"; idt "a"; mk RIGHT_PAREN ")"; mk TILDE "~"; idt "b"])
    by (apply scan_loop_renders; vm_compute; reflexivity).
  destruct H as (W & R). split; [exact W|]. split; [exact R|]. split; [|vm_compute; reflexivity].
  apply (sentence_eof _ _ (with_intercept_no_eof _ W)), parse_iff. vm_compute. reflexivity.
Qed.

Print Assumptions front_end_iff.
Print Assumptions front_end_tree_unique.
Print Assumptions lexemes_unique.
Print Assumptions front_end_whitespace.
Print Assumptions front_end_whitespace_gen.
Print Assumptions front_end_err_split.
Print Assumptions scan_error_iff.
Print Assumptions scan_error_codes.
Print Assumptions parse_error_iff.
Print Assumptions parse_error_is_EParse.
Print Assumptions front_end_trichotomy.
Print Assumptions front_end_refusal_iff.
Print Assumptions front_end_error_codes.
Print Assumptions law_mul_over_add.
Print Assumptions law_add_left_assoc.
Print Assumptions law_sub_left_assoc.
Print Assumptions law_mul_left_assoc.
Print Assumptions law_colon_over_mul.
Print Assumptions law_colon_left_assoc.
Print Assumptions law_pow_over_colon.
Print Assumptions law_pow_left_assoc.
Print Assumptions law_add_over_cmp.
Print Assumptions law_cmp_left_assoc.
Print Assumptions law_cmp_over_pipe.
Print Assumptions law_pipe_lowest.
Print Assumptions law_pipe_left_assoc.
Print Assumptions law_tilde_splits.
Print Assumptions law_tilde_below_pipe.
Print Assumptions law_tilde_rhs_no_pipe.
Print Assumptions law_tilde_rhs_group_pipe.
Print Assumptions law_unary_tightest.
Print Assumptions law_group_overrides.
Print Assumptions law_call.
Print Assumptions law_assign_top_refused.
Print Assumptions law_assign_in_call.
