(* Non-vacuity examples and refuted non-examples for Unseen.v (C10), FrameStructure.v (C09, C08)
   and Prediction.v (C06).  Inputs are built with the model's own scanner and parser. *)
From Verif Require Import Base Tokens Lazy Algebra Coding Contrasts Frame Eval Design Scanner Parser Driver.
From Verif Require Import DesignStructure DesignCoding FrameStructure Unseen PermKernel Prediction.
From Coq Require Import Lia.
Local Close Scope Qc_scope.
Local Close Scope Q_scope.
Local Open Scope string_scope.
Local Open Scope list_scope.
Local Open Scope nat_scope.

Definition q (z : Z) : cell := Some (qz z).
Definition get {T} (d : T) (r : res T) : T := match r with Ok x => x | Err _ => d end.
Definition show (rows : list (list cell)) : list (list string) := map (map cshow) rows.
Definition mdl (s : string) : model := get (Mod None [] []) (describe_string s).
Definition design0 : design := Design 0 None [] [].

(* the "sqrt" of the examples is the identity: the theorems hold for every function *)
Definition cx0 : dctx := DCtx [] (fun x => x).
Definition cxl : dctx := DCtx [("lv", PStrList ["a"; "b"; "c"])] (fun x => x).

Definition D1 : frame :=
  [("y", ColNum false [q 1; q 2; q 3; q 4; q 5]);
   ("x", ColNum true [q 2; q 4; q 6; q 8; q 10]);
   ("f", ColStr None [Some "b"; Some "a"; Some "c"; Some "a"; Some "b"])].

(* ------------------------------------------------------------------------------------------ *)
(** * P1 (C06) *)

Definition m1 : model := Eval vm_compute in mdl "y ~ center(x) + f + x:f + scale(x) + C(f, Treatment('c')) + I((x*2 - 1)/3)".
Definition ds1 : design := Eval vm_compute in get design0 (eval_model cx0 D1 m1).
Definition keep1 : list bool := [true; false; true; false; true].
Definition idx1 : list nat := [4; 0; 0; 2].

Lemma D1_wf : frame_wf D1.
Proof. repeat constructor. Qed.
Lemma D1_unordered : frame_unordered D1.
Proof. repeat constructor. Qed.
Lemma cx0_scalar : scalar_extras cx0.
Proof. intros k v H. discriminate H. Qed.
Lemma m1_parsed : describe_string "y ~ center(x) + f + x:f + scale(x) + C(f, Treatment('c')) + I((x*2 - 1)/3)" = Ok m1.
Proof. vm_compute. reflexivity. Qed.
Lemma ds1_trained : eval_model cx0 D1 m1 = Ok ds1.
Proof. vm_compute. reflexivity. Qed.

Lemma m1_ok : model_ok [] cx0 D1 m1.
Proof.
  intros t c Ht Hc. simpl in Ht.
  repeat (destruct Ht as [Ht|Ht]; [try discriminate Ht; injection Ht as <-; simpl in Hc;
                                   repeat (destruct Hc as [<-|Hc]; [|]); try contradiction|]);
    try contradiction;
    (split; [first [exact I | split; [reflexivity|exact D1_unordered]]
            |intros tc H; vm_compute in H; injection H as <-; first [exact I | repeat constructor; discriminate]]).
Qed.

(* the theorem applies ... *)
Example new_common_select_ex :
  new_common cx0 UError ds1 (frame_select keep1 D1) = Ok (NewRes (select keep1 (common_matrix ds1)) false).
Proof. exact (new_common_select cx0 keep1 D1 UError m1 ds1 D1_wf cx0_scalar m1_ok ds1_trained). Qed.

(* ... and this is what it says on the instance: rows 0, 2, 4 of the training matrix *)
Example new_common_select_value :
  show (common_matrix ds1)
  = [["1"; "-4"; "1"; "0"; "0"; "2"; "0"; "-1/2"; "0"; "1"; "1"];
     ["1"; "-2"; "0"; "0"; "4"; "0"; "0"; "-1/4"; "1"; "0"; "7/3"];
     ["1"; "0"; "0"; "1"; "0"; "0"; "6"; "0"; "0"; "0"; "11/3"];
     ["1"; "2"; "0"; "0"; "8"; "0"; "0"; "1/4"; "1"; "0"; "5"];
     ["1"; "4"; "1"; "0"; "0"; "10"; "0"; "1/2"; "0"; "1"; "19/3"]] /\
  match new_common cx0 UError ds1 (frame_select keep1 D1) with
  | Ok r => (show (nr_rows r), nr_warned r)
  | Err _ => ([], true)
  end
  = ([["1"; "-4"; "1"; "0"; "0"; "2"; "0"; "-1/2"; "0"; "1"; "1"];
      ["1"; "0"; "0"; "1"; "0"; "0"; "6"; "0"; "0"; "0"; "11/3"];
      ["1"; "4"; "1"; "0"; "0"; "10"; "0"; "1/2"; "0"; "1"; "19/3"]], false).
Proof. split; vm_compute; reflexivity. Qed.

(* arbitrary rows: order and repetition *)
Example new_common_pick_ex :
  new_common cx0 UWarning ds1 (frame_pick idx1 D1) = Ok (NewRes (pick idx1 (common_matrix ds1)) false).
Proof. exact (new_common_pick cx0 idx1 D1 UWarning m1 ds1 D1_wf cx0_scalar m1_ok ds1_trained). Qed.

Example new_common_pick_value :
  match new_common cx0 UWarning ds1 (frame_pick idx1 D1) with
  | Ok r => (show (nr_rows r), nr_warned r)
  | Err _ => ([], true)
  end
  = ([["1"; "4"; "1"; "0"; "0"; "10"; "0"; "1/2"; "0"; "1"; "19/3"];
      ["1"; "-4"; "1"; "0"; "0"; "2"; "0"; "-1/2"; "0"; "1"; "1"];
      ["1"; "-4"; "1"; "0"; "0"; "2"; "0"; "-1/2"; "0"; "1"; "1"];
      ["1"; "0"; "0"; "1"; "0"; "0"; "6"; "0"; "0"; "0"; "11/3"]], false).
Proof. vm_compute. reflexivity. Qed.

(* frozen state: scale(center(x) * 2) records the mean, then mean and deviation of the centred and
   doubled series; the prediction pass consumes them in the same order and re-estimates nothing *)
Definition lz1 : lazy :=
  LzCall "scale" [LzOp "*" [LzCall "center" [LzVar "x"] []; LzVal (LInt 2) None]] [].

Definition show_params (st : list tparam) : list (list string) :=
  map (fun p => match p with
                | TPCenter m => ["center"; cshow m]
                | TPScale m s => ["scale"; cshow m; cshow s]
                | _ => [] end) st.

Example eval_lazy_frozen_ex :
  rowwise_safe lz1 = true /\
  exists v rec,
    eval_lazy (ECtx D1 [] (fun x => x) true) [] lz1 = Ok (v, [], rec) /\
    show_params rec = [["center"; "6"]; ["scale"; "0"; "32"]] /\
    eval_lazy (ECtx (frame_select keep1 D1) [] (fun x => x) false) rec lz1
    = Ok (val_sel (sel_mask keep1) v, [], []) /\
    (* re-fitting on the kept rows would give other parameters *)
    exists v' rec',
      eval_lazy (ECtx (frame_select keep1 D1) [] (fun x => x) true) [] lz1 = Ok (v', [], rec') /\
      show_params rec' = [["center"; "6"]; ["scale"; "0"; "128/3"]].
Proof.
  split; [reflexivity|].
  assert (E : exists v rec, eval_lazy (ECtx D1 [] (fun x => x) true) [] lz1 = Ok (v, [], rec) /\
                            show_params rec = [["center"; "6"]; ["scale"; "0"; "32"]]).
  { vm_compute. do 2 eexists. split; reflexivity. }
  destruct E as (v & rec & E & Hs). exists v, rec. split; [exact E|]. split; [exact Hs|]. split.
  - apply (eval_lazy_select keep1 D1 [] (fun x => x) lz1 v [] rec D1_wf D1_unordered); auto.
    intros k w H. discriminate H.
  - vm_compute. do 2 eexists. split; reflexivity.
Qed.

(** ** bs and poly: prediction applies the recorded knots / recurrence coefficients row by row *)

Definition D6 : frame :=
  [("y", ColNum false [q 1; q 2; q 3; q 4; q 5; q 6]);
   ("x", ColNum true [q 2; q 4; q 6; q 8; q 10; q 13])].
Definition m6 : model := Eval vm_compute in mdl "y ~ 0 + poly(x, 2) + bs(x, df=4)".
Definition ds6 : design := Eval vm_compute in get design0 (eval_model cx0 D6 m6).
Definition keep6 : list bool := [true; false; true; false; true; true].

Lemma D6_wf : frame_wf D6.
Proof. repeat constructor. Qed.
Lemma D6_unordered : frame_unordered D6.
Proof. repeat constructor. Qed.
Lemma ds6_trained : eval_model cx0 D6 m6 = Ok ds6.
Proof. vm_compute. reflexivity. Qed.

Lemma m6_ok : model_ok ["poly"; "bs"] cx0 D6 m6.
Proof.
  intros t c Ht Hc. simpl in Ht.
  repeat (destruct Ht as [Ht|Ht]; [try discriminate Ht; injection Ht as <-; simpl in Hc;
                                   repeat (destruct Hc as [<-|Hc]; [|]); try contradiction|]);
    try contradiction;
    (split; [split; [reflexivity|exact D6_unordered]
            |intros tc H; vm_compute in H; injection H as <-; exact I]).
Qed.

Example new_common_select_bs_ex :
  new_common cx0 UError ds6 (frame_select keep6 D6) = Ok (NewRes (select keep6 (common_matrix ds6)) false).
Proof.
  apply (new_common_select_gen ["poly"; "bs"] cx0 keep6 D6 UError m6 ds6 extra_poly_bs_allowed).
  - intros _. vm_compute. discriminate.
  - exact D6_wf.
  - exact cx0_scalar.
  - exact m6_ok.
  - exact ds6_trained.
Qed.

Example new_common_select_bs_value :
  match new_common cx0 UError ds6 (frame_select keep6 D6) with
  | Ok r => (show (nr_rows r), nr_warned r)
  | Err _ => ([], true)
  end
  = ([["-31/485"; "133/7414"; "0"; "0"; "0"; "0"];
      ["-7/485"; "-46/3707"; "6924/15125"; "1296/3025"; "64/605"; "0"];
      ["17/485"; "-175/22242"; "9/242"; "129/484"; "553/968"; "1/8"];
      ["7/97"; "205/11121"; "0"; "0"; "0"; "1"]], false).
Proof. vm_compute. reflexivity. Qed.

(* the side condition for bs is needed: bs rejects an empty input, so on the empty selection the
   design cannot be evaluated although the selected training matrix (no rows) exists *)
Example bs_empty_selection_refuted :
  new_common cx0 UError ds6 (frame_select [false; false; false; false; false; false] D6) = Err EValue.
Proof. vm_compute. reflexivity. Qed.

(** ** row order: training again on permuted rows *)

Definition perm1 : list nat := [3; 0; 4; 1; 2].

Example eval_lazy_perm_ex :
  exists v rec,
    eval_lazy (ECtx D1 [] (fun x => x) true) [] lz1 = Ok (v, [], rec) /\
    eval_lazy (ECtx (frame_pick perm1 D1) [] (fun x => x) true) [] lz1
    = Ok (val_sel (sel_pick perm1) v, [], rec) /\
    show_params rec = [["center"; "6"]; ["scale"; "0"; "32"]].
Proof.
  assert (E : exists v rec, eval_lazy (ECtx D1 [] (fun x => x) true) [] lz1 = Ok (v, [], rec) /\
                            show_params rec = [["center"; "6"]; ["scale"; "0"; "32"]]).
  { vm_compute. do 2 eexists. split; reflexivity. }
  destruct E as (v & rec & E & Hs). exists v, rec. split; [exact E|]. split; [|exact Hs].
  apply (eval_lazy_perm perm1 D1 [] (fun x => x) lz1 v [] rec D1_wf D1_unordered); auto.
  - intros k w H. discriminate H.
  - (* perm1 is a permutation of 0..4 *)
    apply (Permutation.NoDup_Permutation).
    + repeat constructor; simpl; intuition discriminate.
    + apply seq_NoDup.
    + intros x. simpl. intuition (subst; auto); lia.
Qed.

Lemma perm1_perm : Permutation.Permutation perm1 (seq 0 (frame_rows D1)).
Proof.
  apply (Permutation.NoDup_Permutation).
  - repeat constructor; simpl; intuition discriminate.
  - apply seq_NoDup.
  - intros x. simpl. intuition (subst; auto); lia.
Qed.

(* the whole design m1 on the permuted frame *)
Example perm_rows_ex :
  exists ds',
    eval_model cx0 (frame_pick perm1 D1) m1 = Ok ds' /\
    map dt_rows (ds_common ds') = map (pick perm1) (map dt_rows (ds_common ds1)) /\
    map dt_labels (ds_common ds') = map dt_labels (ds_common ds1).
Proof.
  destruct (perm_rows perm1 D1 [] (fun x => x) m1 ds1 D1_wf D1_unordered) as (ds' & E & _ & _ & _ & L & R & _).
  - intros k w H. discriminate H.
  - exact perm1_perm.
  - reflexivity.
  - intros t Ht. simpl in Ht.
    repeat (destruct Ht as [Ht|Ht]; [try discriminate Ht; injection Ht as <-; repeat constructor|]);
      contradiction.
  - intros t Ht. injection Ht as <-. repeat constructor.
  - exact ds1_trained.
  - exists ds'. auto.
Qed.

Example perm_rows_value :
  match eval_model cx0 (frame_pick perm1 D1) m1 with
  | Ok ds' => show (common_matrix ds') | Err _ => [] end
  = [["1"; "2"; "0"; "0"; "8"; "0"; "0"; "1/4"; "1"; "0"; "5"];
     ["1"; "-4"; "1"; "0"; "0"; "2"; "0"; "-1/2"; "0"; "1"; "1"];
     ["1"; "4"; "1"; "0"; "0"; "10"; "0"; "1/2"; "0"; "1"; "19/3"];
     ["1"; "-2"; "0"; "0"; "4"; "0"; "0"; "-1/4"; "1"; "0"; "7/3"];
     ["1"; "0"; "0"; "1"; "0"; "0"; "6"; "0"; "0"; "0"; "11/3"]].
Proof. vm_compute. reflexivity. Qed.

(** ** refuted non-examples *)

Definition D2 : frame :=
  [("y", ColNum false [q 1; q 2; q 3; q 4; q 5]);
   ("f", ColStr None [Some "b"; Some "a"; Some "c"; Some "a"; Some "b"]);
   ("g", ColStr (Some ["a"; "b"; "c"]) [Some "b"; Some "a"; Some "c"; Some "a"; Some "b"]);
   ("h", ColStr None [Some "b"; None; Some "c"; Some "a"; Some "b"])].

(* training rows kept by the mask / what evaluation on the kept rows returns *)
Definition both (cx : dctx) (D : frame) (s : string) (keep : list bool)
  : res (list (list string) * list (list string) * bool) :=
  match eval_model cx D (mdl s) with
  | Ok ds =>
      match new_common cx UError ds (frame_select keep D) with
      | Ok r => Ok (show (select keep (common_matrix ds)), show (nr_rows r), nr_warned r)
      | Err k => Err k
      end
  | Err k => Err k
  end.

Definition call_of (s : string) : option lazy :=
  match commons (mdl s) with [CT [CCall l]] => Some l | _ => None end.

(* binary(f) without success: the success value ("a", the first level) is re-estimated on the
   new frame, where the first level is "b" *)
Example binary_refuted :
  option_map rowwise_safe (call_of "0 + binary(f)") = Some false /\
  both cx0 D2 "y ~ 0 + binary(f)" [true; false; true; false; true]
  = Ok ([["0"]; ["0"]; ["0"]], [["1"]; ["0"]; ["1"]], false).
Proof. split; vm_compute; reflexivity. Qed.

(* C(f, levels=lv): the level set is re-validated against the new data *)
Example box_levels_refuted :
  option_map rowwise_safe (call_of "0 + C(f, levels=lv)") = Some false /\
  both cxl D2 "y ~ 0 + C(f, levels=lv)" [true; true; false; true; true] = Err EValue /\
  (* fine when every level is still there *)
  both cxl D2 "y ~ 0 + C(f, levels=lv)" [true; true; true; false; false]
  = Ok ([["0"; "1"; "0"]; ["1"; "0"; "0"]; ["0"; "0"; "1"]],
        [["0"; "1"; "0"]; ["1"; "0"; "0"]; ["0"; "0"; "1"]], false).
Proof. repeat split; vm_compute; reflexivity. Qed.

(* C(g) on an ordered Categorical: the call is in the fragment but the frame is not unordered;
   the plain variable g is fine *)
Example box_ordered_refuted :
  option_map rowwise_safe (call_of "0 + C(g)") = Some true /\
  ~ frame_unordered D2 /\
  both cx0 D2 "y ~ 0 + C(g)" [true; true; false; true; true] = Err EValue /\
  both cx0 D2 "y ~ 0 + g" [true; true; false; true; true]
  = Ok ([["0"; "1"; "0"]; ["1"; "0"; "0"]; ["1"; "0"; "0"]; ["0"; "1"; "0"]],
        [["0"; "1"; "0"]; ["1"; "0"; "0"]; ["1"; "0"; "0"]; ["0"; "1"; "0"]], false).
Proof.
  split; [vm_compute; reflexivity|]. split.
  - intros H. inversion H as [|? ? _ H1]; subst. inversion H1 as [|? ? _ H2]; subst.
    inversion H2 as [|? ? H3 _]; subst. exact H3.
  - split; vm_compute; reflexivity.
Qed.

(* C(h) with a missing value ([box_complete] fails): training codes the row as zeros, prediction
   in mode "error" rejects it as an unseen value; without that row everything agrees *)
Example box_missing_refuted :
  both cx0 D2 "y ~ 0 + C(h)" [true; true; false; true; true] = Err EValue /\
  both cx0 D2 "y ~ 0 + C(h)" [true; false; false; true; true]
  = Ok ([["0"; "1"; "0"]; ["1"; "0"; "0"]; ["0"; "1"; "0"]],
        [["0"; "1"; "0"]; ["1"; "0"; "0"]; ["0"; "1"; "0"]], false).
Proof. split; vm_compute; reflexivity. Qed.

(* an ordered Categorical holding a value outside its declared categories ([var_ok] fails; pandas
   does not allow such a column): training codes the row as zeros, prediction rejects it *)
Definition D2bad : frame :=
  [("y", ColNum false [q 1; q 2; q 3]);
   ("g", ColStr (Some ["a"; "b"]) [Some "b"; Some "z"; Some "a"])].

Example ordered_invalid_refuted :
  ~ var_ok D2bad "g" /\
  match eval_model cx0 D2bad (mdl "y ~ 0 + g") with Ok ds => show (common_matrix ds) | Err _ => [] end
  = [["0"; "1"]; ["0"; "0"]; ["1"; "0"]] /\
  both cx0 D2bad "y ~ 0 + g" [true; true; true] = Err EValue.
Proof.
  split; [|split; vm_compute; reflexivity].
  unfold var_ok. simpl. intros H. specialize (H "z" (or_intror (or_introl eq_refl))).
  destruct H as [E|[E|[]]]; discriminate E.
Qed.

(* ------------------------------------------------------------------------------------------ *)
(** * P2 (C10) on designs *)

Definition m2 : model := Eval vm_compute in mdl "y ~ x + f + (x|f)".
Definition ds2 : design := Eval vm_compute in get design0 (eval_model cx0 D1 m2).
Definition N1 : frame :=
  [("x", ColNum true [q 1; q 2; q 3]);
   ("f", ColStr None [Some "b"; Some "z"; Some "c"])].

(* common effects: an unseen level is an error / a zero row with a warning / a zero row *)
Example unseen_common_ex :
  new_common cx0 UError ds2 N1 = Err EValue /\
  match new_common cx0 UWarning ds2 N1 with Ok r => (show (nr_rows r), nr_warned r) | Err _ => ([], false) end
  = ([["1"; "1"; "1"; "0"]; ["1"; "2"; "0"; "0"]; ["1"; "3"; "0"; "1"]], true) /\
  match new_common cx0 USilent ds2 N1 with Ok r => (show (nr_rows r), nr_warned r) | Err _ => ([], true) end
  = ([["1"; "1"; "1"; "0"]; ["1"; "2"; "0"; "0"]; ["1"; "3"; "0"; "1"]], false).
Proof. repeat split; vm_compute; reflexivity. Qed.

(* group-specific effects: the unseen group z gets one trailing column per term, 1 (times the
   effect) on its row; both terms have factor f, reported once *)
Example new_group_ex :
  new_group cx0 UError ds2 N1 = Err EValue /\
  match new_group cx0 USilent ds2 N1 with
  | Ok r => (show (ng_rows r), ng_slices r, ng_new_factors r, ng_warned r)
  | Err _ => ([], [], [], true)
  end
  = ([["0"; "1"; "0"; "0"; "0"; "1"; "0"; "0"];
      ["0"; "0"; "0"; "1"; "0"; "0"; "0"; "2"];
      ["0"; "0"; "1"; "0"; "0"; "0"; "3"; "0"]],
     [("1|f", 0, 4); ("x|f", 4, 8)], ["f"], false).
Proof. split; vm_compute; reflexivity. Qed.

(* the hypothesis of new_group_block / new_group_new_factors is satisfiable *)
Example new_group_block_ex :
  exists ng, new_group cx0 UWarning ds2 N1 = Ok ng /\ ng_new_factors ng = ["f"] /\ ng_warned ng = true.
Proof. eexists. split; [vm_compute; reflexivity|]. split; reflexivity. Qed.

(* ------------------------------------------------------------------------------------------ *)
(** * P3 (C09) *)

Definition D3 : frame :=
  [("u", ColNum true [None; q 1; q 2; q 3]);          (* not used by the model *)
   ("y", ColNum false [q 1; q 2; None; q 4]);
   ("x", ColNum true [q 2; q 4; q 6; q 8]);
   ("f", ColStr None [Some "b"; Some "a"; Some "c"; None])].
Definition m3 : model := Eval vm_compute in mdl "y ~ x + f".
Definition e3 : expr := Eval vm_compute in get (ELiteral LNone None) (parse_string "y ~ x + f").

Lemma D3_wf : frame_wf D3.
Proof. repeat constructor. Qed.
Lemma e3_m3 : describe e3 = Ok m3.
Proof. vm_compute. reflexivity. Qed.

Example masks_ex :
  map fst (used_cols D3 m3) = ["y"; "x"; "f"] /\
  incomplete_mask D3 m3 = [false; false; true; true] /\
  complete_mask D3 m3 = [true; true; false; false].
Proof. repeat split; vm_compute; reflexivity. Qed.

Example drop_is_filter_ex :
  prepare_data D3 m3 NaDrop
  = Ok [("y", ColNum false [q 1; q 2]); ("x", ColNum true [q 2; q 4]); ("f", ColStr None [Some "b"; Some "a"])] /\
  prepare_data D3 m3 NaDrop = Ok (frame_select (complete_mask D3 m3) (used_cols D3 m3)).
Proof. split; [vm_compute; reflexivity|]. apply drop_is_filter; [exact D3_wf|discriminate]. Qed.

Example error_iff_ex :
  prepare_data D3 m3 NaError = Err EValue /\
  (exists kv, In kv (used_cols D3 m3) /\ has_missing (snd kv) = true).
Proof.
  split; [vm_compute; reflexivity|].
  exists ("y", ColNum false [q 1; q 2; None; q 4]). split; [left; reflexivity|reflexivity].
Qed.

Example pass_keeps_rows_ex :
  prepare_data D3 m3 NaPass = Ok (used_cols D3 m3).
Proof. apply pass_keeps_rows. discriminate. Qed.

Example design_drop_is_filter_ex :
  design_matrices cx0 e3 (frame_select (complete_mask D3 m3) D3) NaError
  = design_matrices cx0 e3 D3 NaDrop /\
  match design_matrices cx0 e3 D3 NaDrop with
  | Ok ds => show (common_matrix ds) | Err _ => [] end
  = [["1"; "2"; "1"]; ["1"; "4"; "0"]].
Proof.
  split; [|vm_compute; reflexivity].
  apply (design_drop_is_filter cx0 e3 D3 m3 NaError e3_m3 D3_wf); [discriminate|vm_compute; discriminate].
Qed.

(* the side condition of drop_then_any is needed: when every row is incomplete, "drop" on the
   original data builds an empty frame (and goes on), whereas the filtered data have no row and are
   rejected *)
Definition D3all : frame :=
  [("y", ColNum false [None; q 2]); ("x", ColNum true [q 2; None]); ("f", ColStr None [Some "b"; Some "a"])].

Example drop_all_rows_refuted :
  count_true (complete_mask D3all m3) = 0 /\
  prepare_data D3all m3 NaDrop
  = Ok [("y", ColNum false []); ("x", ColNum true []); ("f", ColStr None [])] /\
  prepare_data (frame_select (complete_mask D3all m3) D3all) m3 NaDrop = Err EValue.
Proof. repeat split; vm_compute; reflexivity. Qed.

(* the unused column u (with a NaN, in front) is not seen *)
Example unused_columns_irrelevant_ex :
  prepare_data D3 m3 NaDrop = prepare_data (tl D3) m3 NaDrop.
Proof. apply (unused_column_front (tl D3) "u"); reflexivity. Qed.

(* ------------------------------------------------------------------------------------------ *)
(** * P4 (C08) *)

(* the same used columns in another order, another unused column, in the middle *)
Definition D4 : frame :=
  [("f", ColStr None [Some "b"; Some "a"; Some "c"; None]);
   ("w", ColStr None [None; None; None; None]);
   ("x", ColNum true [q 2; q 4; q 6; q 8]);
   ("y", ColNum false [q 1; q 2; None; q 4])].

Lemma NoDup_keys_D3 : NoDup (map fst D3).
Proof. repeat constructor; simpl; intuition discriminate. Qed.
Lemma NoDup_keys_D4 : NoDup (map fst D4).
Proof. repeat constructor; simpl; intuition discriminate. Qed.
Lemma D4_wf : frame_wf D4.
Proof. repeat constructor. Qed.

Example design_frame_agree_ex na :
  design_matrices cx0 e3 D3 na = design_matrices cx0 e3 D4 na.
Proof.
  apply design_frame_agree; try assumption.
  - exact NoDup_keys_D3.
  - exact NoDup_keys_D4.
  - exact D3_wf.
  - exact D4_wf.
  - reflexivity.
  - intros m Hm k Hk. rewrite e3_m3 in Hm. injection Hm as <-.
    simpl in Hk. destruct Hk as [<-|[<-|[<-|[]]]]; reflexivity.
Qed.

(* the column order of the prepared frames differs, the designs do not *)
Example design_frame_agree_order :
  match prepare_data D3 m3 NaPass, prepare_data D4 m3 NaPass with
  | Ok a, Ok b => (map fst a, map fst b) | _, _ => ([], []) end
  = (["y"; "x"; "f"], ["f"; "x"; "y"]).
Proof. vm_compute. reflexivity. Qed.

(* distinct column names are needed: a shadowed duplicate column is invisible to lookups but
   takes part in the missing-value mask *)
Definition D5a : frame :=
  [("y", ColNum false [q 1; q 2; q 3]); ("x", ColNum true [q 2; q 4; q 6])].
Definition D5b : frame :=
  [("y", ColNum false [q 1; q 2; q 3]); ("x", ColNum true [q 2; q 4; q 6]); ("x", ColNum true [q 0; None; q 0])].
Definition e5 : expr := Eval vm_compute in get (ELiteral LNone None) (parse_string "y ~ x").

Example duplicate_names_refuted :
  (forall k, assoc k D5a = assoc k D5b) /\ frame_rows D5a = frame_rows D5b /\
  match design_matrices cx0 e5 D5a NaDrop with Ok ds => show (common_matrix ds) | Err _ => [] end
  = [["1"; "2"]; ["1"; "4"]; ["1"; "6"]] /\
  match design_matrices cx0 e5 D5b NaDrop with Ok ds => show (common_matrix ds) | Err _ => [] end
  = [["1"; "2"]; ["1"; "6"]].
Proof.
  split; [|repeat split; vm_compute; reflexivity].
  intros k. simpl. destruct (String.eqb k "y"); [reflexivity|]. destruct (String.eqb k "x"); reflexivity.
Qed.

(* ------------------------------------------------------------------------------------------ *)
(** * Assumptions *)
Print Assumptions unseen_error_iff.
Print Assumptions unseen_zero_rows.
Print Assumptions warns_iff.
Print Assumptions fold_row_kron_zero.
Print Assumptions new_group_block.
Print Assumptions new_group_new_factors.
Print Assumptions config_validates.
Print Assumptions drop_is_filter.
Print Assumptions drop_no_missing.
Print Assumptions drop_then_any.
Print Assumptions design_drop_is_filter.
Print Assumptions error_iff.
Print Assumptions pass_keeps_rows.
Print Assumptions unused_columns_irrelevant.
Print Assumptions design_frame_agree.
Print Assumptions eval_lazy_sel.
Print Assumptions new_comp_sel.
Print Assumptions new_term_sel.
Print Assumptions new_common_sel.
Print Assumptions new_common_select.
Print Assumptions new_common_pick.
Print Assumptions eval_new_state_unchanged.
Print Assumptions new_common_select_gen.
Print Assumptions new_common_pick_gen.
Print Assumptions design_new_common_select_gen.
Print Assumptions design_new_common_pick.
Print Assumptions design_drop_new_common_pick.
Print Assumptions design_matrices_eval_model.
Print Assumptions eval_model_vars_ext.
Print Assumptions mean_perm.
Print Assumptions variance_perm.
Print Assumptions sort_levels_perm.
Print Assumptions eval_lazy_perm.
Print Assumptions set_comp_perm.
Print Assumptions perm_rows.
Print Assumptions eval_lazy_predict_pure.
